(* Completeness of the model of ast.rs (Front/Analyze.v) with respect to the typing judgement Lang/WT.v.

     analyze_expr_complete       a well-typed expression that obeys the static rules [src_ok] is accepted when its
                                 erasure (Front/Erase.v) is analysed at its own type in a scope that represents
                                 the typing context, and the typed AST that comes back is the expression ITSELF
     analyze_complete            the same for programs: the functions inlined in `main` become items;
                                 the function names are a parameter [fname] (one name per function, not `main`)
     analyze_complete_canonical  the same with a canonical choice of names: no hypothesis besides wt and src_ok_main
     analyze_image               conversely, whatever typed AST the analysis produces (from ANY parse tree, with
                                 aliases, any literal form, ...) obeys [src_ok_main]
     accepts_exactly             a typed AST is the analysis of some parse tree (with witness types within W and
                                 parameters supplied by args)  <->  wt_program /\ src_ok_main
     not_in_image                corollary used by the examples at the end of the file

   The static rules of ast.rs that are NOT typing rules of WT.v, i.e. [src_ok_main] (Front/Erase.v):
     R-wit-once  a witness name is used at most once          R-wit-fn  no witness outside main
     R-pat       a let pattern binds distinct identifiers     R-param   function parameters are distinct
     R-for       the for_while counter is u1 .. u16           R-arm     Left / Right / Some arms bind an identifier
     R-const     constants are bools, u1 .. u256, byte arrays R-jet     a called jet has a name
   Each one is necessary: see CompleteExamples.wt_not_src_* (well typed, yet produced by no parse tree).

   Scope / what is not covered:
     - the erased program is ONE canonical parse tree (alias-free types, canonical literals, callees before
       callers, every function item once); that other parse trees of the same typed AST (aliases, binary
       literals, ...) are accepted is covered only through [analyze_image] + [analyze_sound], not by an
       elaboration relation on parse trees;
     - WT.v has no well-formedness of types: a well-typed AST may mention u512 (TUInt 9) or a list bound 2^0 in a
       type annotation; the model of the analysis accepts the erased annotation although the Rust types
       cannot represent it (no disagreement between WT.v and Analyze.v, but such a parse tree has no source text);
     - the body of an erased function item is the erasure of the inlined body, a block exactly if that is a block. *)
From Coq Require Import List Arith NArith Lia Bool.
Import ListNotations.
Require Import SV.Base.Util SV.Base.Res SV.Layout.Ty SV.Layout.Value SV.Lang.Ast SV.Lang.WT
               SV.Text.U256 SV.Text.Literal SV.Front.PTree SV.Front.Analyze SV.Front.Erase
               SV.Proofs.LayoutRoundtrip SV.Proofs.EvalBasics SV.Proofs.CompileCorrect
               SV.Proofs.U256Correct SV.Proofs.LiteralCorrect SV.Proofs.AnalyzeSound.

(* ---------- small facts ---------- *)
Lemma forallb_and {A} (f g:A -> bool) l :
  forallb (fun a => f a && g a) l = true -> forallb f l = true /\ forallb g l = true.
Proof.
  induction l as [|a l IH]; cbn; [auto|]. rewrite !andb_true_iff. intros [[H1 H2] H3].
  destruct (IH H3). auto.
Qed.
Lemma forallb_cons_inv {A} (f:A -> bool) a l : forallb f (a::l) = true -> f a = true /\ forallb f l = true.
Proof. cbn. now rewrite andb_true_iff. Qed.
Lemma all_ty_repeat (es:list expr) a : forallb (fun e => ty_eqb (ty_of e) a) es = true ->
  map ty_of es = repeat a (length es).
Proof.
  induction es as [|e es IH]; cbn; [reflexivity|]. rewrite andb_true_iff. intros [H1 H2].
  apply ty_eqb_eq in H1. rewrite H1. f_equal. auto.
Qed.
Lemma Forall_flat_map {A B} (P:B -> Prop) (f:A -> list B) l :
  Forall P (flat_map f l) <-> Forall (fun a => Forall P (f a)) l.
Proof.
  induction l as [|a l IH]; cbn; [split; constructor|]. rewrite Forall_app, IH. split.
  - intros [H1 H2]. constructor; assumption.
  - intros H. inversion H; subst. auto.
Qed.
Lemma In_lookupN {A} (l:list (N*A)) x v : NoDup (map fst l) -> In (x,v) l -> lookupN l x = Some v.
Proof.
  induction l as [|[y w] l IH]; cbn; [tauto|]. intros Hnd [H|H]; inversion Hnd as [|? ? Hn Hnd']; subst.
  - injection H as -> ->. now rewrite N.eqb_refl.
  - destruct (N.eqb x y) eqn:E; [|auto]. apply N.eqb_eq in E. subst y.
    exfalso. apply Hn. apply (in_map fst) in H. exact H.
Qed.
Lemma NoDup_app_inv {A} (a b:list A) : NoDup (a ++ b) ->
  NoDup a /\ NoDup b /\ (forall x, In x a -> In x b -> False).
Proof.
  induction a as [|x a IH]; cbn; intros H.
  - split; [constructor|]. split; [exact H|]. tauto.
  - inversion H as [|? ? Hn Hnd]; subst. destruct (IH Hnd) as (H1 & H2 & H3).
    split; [constructor; [|exact H1]; intros Hi; apply Hn, in_or_app; now left|].
    split; [exact H2|]. intros y [->|Hy] Hb; [apply Hn, in_or_app; now right|eauto].
Qed.
Lemma incl_cons_mono {A} (a:A) l m : incl l m -> incl (a :: l) (a :: m).
Proof. intros H. apply incl_cons; [now left|now apply incl_tl]. Qed.
Lemma memN_In x l : memN x l = true <-> In x l.
Proof.
  unfold memN. rewrite existsb_exists. split.
  - intros (y & Hy & E). apply N.eqb_eq in E. now subst.
  - intros H. exists x. split; [exact H|apply N.eqb_refl].
Qed.
Lemma nodupN_NoDup l : nodupN l = true -> NoDup l.
Proof.
  induction l as [|x l IH]; cbn; [constructor|]. rewrite andb_true_iff, negb_true_iff. intros [H1 H2].
  constructor; [|auto]. intros Hin. apply memN_In in Hin. congruence.
Qed.

(* ---------- types: the alias-free print of a type resolves to the type, whatever the alias table ---------- *)
Lemma resolve_aty_of_ty balias al t : resolve balias al (aty_of_ty t) = Ok t.
Proof.
  induction t using ty_ind'; cbn [aty_of_ty resolve].
  - now rewrite IHt1, IHt2.
  - now rewrite IHt.
  - reflexivity.
  - reflexivity.
  - assert (E : mapr (fun a0 => resolve balias al a0) (map aty_of_ty ts) = Ok ts).
    { induction H as [|t ts Ht _ IH]; cbn [map mapr]; [reflexivity|]. now rewrite Ht, IH. }
    now rewrite E.
  - now rewrite IHt.
  - now rewrite IHt.
Qed.
Lemma resolve_params balias al (ps:list (N*ty)) :
  mapr (fun p : N*aty => rmap (fun t => (fst p, t)) (resolve balias al (snd p)))
       (map (fun p : N*ty => (fst p, aty_of_ty (snd p))) ps) = Ok ps.
Proof.
  induction ps as [|[x t] ps IH]; cbn [map mapr fst snd]; [reflexivity|].
  rewrite resolve_aty_of_ty. cbn [rmap rbind]. now rewrite IH.
Qed.

(* ---------- constants: the canonical literal denotes the constant ---------- *)
Lemma bytes_of_spec vs bs : bytes_of vs = Some bs -> vs = map (Value.AUInt 3) bs.
Proof.
  revert bs. induction vs as [|v vs IH]; intros bs H; cbn [bytes_of] in H.
  - injection H as <-. reflexivity.
  - destruct v as [| | | | |k n| | |]; try discriminate.
    destruct k as [|[|[|[|k]]]]; try discriminate.
    destruct (bytes_of vs) as [bs'|]; [|discriminate]. injection H as <-. cbn [map]. f_equal. now apply IH.
Qed.
Lemma wf_uint_range k n : value_wf (Value.AUInt k n) = true -> (n < 2 ^ 2 ^ N.of_nat k)%N.
Proof.
  cbn [value_wf]. intros H. apply N.ltb_lt in H.
  replace (N.of_nat (2 ^ k)) with (2 ^ N.of_nat k)%N in H; [exact H|].
  rewrite Nat2N.inj_pow. reflexivity.
Qed.
Lemma lit_of_uint_ok k n : k <= 8 -> (n < 2 ^ 2 ^ N.of_nat k)%N ->
  analyze_lit (lit_of_uint k n) (TUInt k) = Ok (EConst (TUInt k) (Value.AUInt k n)).
Proof.
  intros Hk Hn. destruct (uint_display_parse k n Hk Hn) as [Hd Hh].
  destruct (Nat.le_gt_cases k 6) as [H6|H6].
  - destruct (Hd H6) as (_ & _ & _ & Hp).
    assert (E : lit_of_uint k n = LDec (uint_display k n)).
    { destruct k as [|[|[|[|[|[|[|k]]]]]]]; [..|lia]; reflexivity. }
    rewrite E. cbn [analyze_lit]. now rewrite Hp.
  - destruct (Hh H6) as (body & Hb & _ & _ & Hp).
    assert (E : lit_of_uint k n = LHex body).
    { assert (Hc : k = 7 \/ k = 8) by lia. destruct Hc as [-> | ->]; cbn [uint_display] in Hb;
        injection Hb as <-; reflexivity. }
    rewrite E. cbn [analyze_lit]. now rewrite Hp.
Qed.
Lemma wf_bytes bs : value_wf (Value.AArray (map (Value.AUInt 3) bs) (TUInt 3)) = true -> bytes_ok bs.
Proof.
  cbn [value_wf]. intros H. induction bs as [|b bs IH]; [constructor|].
  cbn [map forallb] in H. apply andb_true_iff in H as [H1 H2]. apply andb_true_iff in H1 as [H1 _].
  constructor; [|exact (IH H2)]. apply wf_uint_range in H1. exact H1.
Qed.

Section Complete.
Variable jlook : N -> option N.
Variable jsig : N -> option (list ty * ty).
Variable balias : N -> option ty.
Variable main_name : N.
Variable W : N -> option ty.
Variable args : N -> option value.
Variable jname : N -> N.
Variable fname : fdef -> N.
Variable spn : expr -> N.
Notation wt := (WT.wt jsig W args).
Notation wtb := (wt_blk jsig W args).
Notation good := (good W args).
Notation erase := (erase_expr jname fname spn).
Notation erase_stmt := (erase_stmt jname fname spn).
Notation src_ok := (src_ok jlook jname).

(* the statement test of [src_ok] *)
Definition stmt_ok (s:option pat * expr) : bool :=
  match s with
  | (Some p, e') => src_ok e' && match pat_ctx p (ty_of e') with Some c => nodup_keys c | None => true end
  | (None, e') => src_ok e'
  end.
Lemma src_ok_block t ss last :
  src_ok (EBlock t ss last) = forallb stmt_ok ss && match last with Some l => src_ok l | None => true end.
Proof. reflexivity. Qed.
Lemma erase_block t ss last :
  erase (EBlock t ss last) = PBlock (map erase_stmt ss) (match last with Some l => Some (erase l) | None => None end).
Proof. reflexivity. Qed.

Section ExprC.
Variable al : list (N*ty).
Variable fn : list (N*fdef).
Variable is_main : bool.
Notation AE := (analyze_expr jlook jsig balias al fn is_main).
Notation resolve := (resolve balias al).

Lemma AE_le p t s e s' : AE p t s = Ok (e, s') -> le_st s s'.
Proof. intros H. now apply (analyze_expr_sound jlook jsig balias W args al fn is_main p) in H. Qed.

Lemma const_complete v p s : erase_const v = Some p -> value_wf v = true ->
  AE p (type_of v) s = Ok (EConst (type_of v) v, s).
Proof.
  intros He Hwf. destruct v as [| | | |b|k n| |vs t|]; cbn [erase_const] in He; try discriminate.
  - injection He as <-. reflexivity.
  - destruct (Nat.leb k 8) eqn:Ek; [|discriminate]. injection He as <-. apply Nat.leb_le in Ek.
    cbn [analyze_expr type_of]. rewrite (lit_of_uint_ok k n Ek (wf_uint_range k n Hwf)). reflexivity.
  - destruct t as [| | |[|[|[|[|k]]]]| | |]; try discriminate.
    destruct (bytes_of vs) as [bs|] eqn:Eb; [|discriminate]. injection He as <-.
    apply bytes_of_spec in Eb. subst vs. pose proof (wf_bytes bs Hwf) as Hok.
    destruct (hex_of_bytes_spec bs Hok) as (Hh & Hl & Hp).
    cbn [analyze_expr type_of analyze_lit]. rewrite map_length.
    assert (E : parse_hex_bytes (length bs) (hex_of_bytes bs) = Ok bs).
    { apply (parse_hex_bytes_correct _ _ _ Hh). split; [exact Hl|now rewrite Hp]. }
    rewrite E. reflexivity.
Qed.

(* ---------- the state invariants ---------- *)
(* the typing context is the variable stack *)
Definition vars_ok (G:ctx) (s:st) : Prop := ctx_eq G (concat (vars s)) /\ vars s <> [].
(* before an expression with witness names [ws] is analysed: the maps respect W / args, the names are
   fresh and pairwise distinct, and there are none outside main *)
Definition wp_ok (s:st) (ws:list N) : Prop :=
  good s /\ (forall n, In n ws -> lookupN (wits s) n = None) /\ NoDup ws /\ (is_main = true \/ ws = []).
(* afterwards: the maps still respect W / args, and only the names [ws] were entered *)
Definition wb (s s':st) (ws:list N) : Prop :=
  good s' /\ (forall n, lookupN (wits s') n <> None -> lookupN (wits s) n <> None \/ In n ws).

Lemma vars_ok_le G s s' : vars_ok G s -> le_st s s' -> vars_ok G s'.
Proof.
  intros [H1 H2] [_ Hv]. split.
  - eapply ctx_eq_trans; [exact H1|]. now apply vs_eq_concat.
  - intros E. apply vs_eq_length in Hv. rewrite E in Hv. destruct (vars s); [congruence|discriminate].
Qed.
Lemma vars_ok_same G s s' : vars s = vars s' -> vars_ok G s -> vars_ok G s'.
Proof. unfold vars_ok. now intros ->. Qed.
Lemma wp_same s s' ws : wits s = wits s' -> params s = params s' -> wp_ok s ws -> wp_ok s' ws.
Proof.
  intros E1 E2 (Hg & Hf & Hn & Hm). split; [eapply good_same; eassumption|]. rewrite <- E1. auto.
Qed.
Lemma wb_same s0 s0' s1 s1' ws : wits s0 = wits s0' -> wits s1 = wits s1' -> params s1 = params s1' ->
  wb s0 s1 ws -> wb s0' s1' ws.
Proof.
  intros E0 E1 E2 (Hg & Hb). split; [eapply good_same; eassumption|]. rewrite <- E0, <- E1. exact Hb.
Qed.
Lemma wp_split s w1 w2 : wp_ok s (w1 ++ w2) -> wp_ok s w1.
Proof.
  intros (Hg & Hf & Hn & Hm). split; [exact Hg|]. split; [|split].
  - intros n Hn1. apply Hf, in_or_app. now left.
  - now apply NoDup_app_inv in Hn.
  - destruct Hm as [Hm|Hm]; [now left|right]. now apply app_eq_nil in Hm.
Qed.
Lemma wp_next s s1 w1 w2 : wp_ok s (w1 ++ w2) -> wb s s1 w1 -> wp_ok s1 w2.
Proof.
  intros (Hg & Hf & Hn & Hm) (Hg1 & Hb). split; [exact Hg1|]. split; [|split].
  - intros n Hn2. destruct (lookupN (wits s1) n) eqn:E; [|reflexivity]. exfalso.
    destruct (Hb n) as [H|H]; [congruence| |].
    + apply H. apply Hf, in_or_app. now right.
    + apply NoDup_app_inv in Hn as (_ & _ & Hd). eauto.
  - now apply NoDup_app_inv in Hn.
  - destruct Hm as [Hm|Hm]; [now left|right]. now apply app_eq_nil in Hm.
Qed.
Lemma wb_refl s : good s -> wb s s [].
Proof. intros Hg. split; [exact Hg|]. auto. Qed.
Lemma wb_trans s s1 s2 w1 w2 : wb s s1 w1 -> wb s1 s2 w2 -> wb s s2 (w1 ++ w2).
Proof.
  intros (_ & Hb1) (Hg2 & Hb2). split; [exact Hg2|]. intros n Hn.
  destruct (Hb2 n Hn) as [H|H]; [|right; apply in_or_app; now right].
  destruct (Hb1 n H) as [H'|H']; [now left|right; apply in_or_app; now left].
Qed.
Lemma wb_nil_r s s' ws : wb s s' (ws ++ []) -> wb s s' ws.
Proof. now rewrite app_nil_r. Qed.

(* the functions called directly are in the table, under the name the erasure prints *)
Definition in_table (d:fdef) : Prop := lookupN fn (fname d) = Some d.
Definition calls_ok (e:expr) : Prop := Forall in_table (dfns e).

(* completeness at one expression *)
Definition cpl (e:expr) : Prop :=
  forall G s, wt G e = true -> src_ok e = true -> calls_ok e -> vars_ok G s -> wp_ok s (wnames e) ->
    exists s', AE (erase e) (ty_of e) s = Ok (e, s') /\ wb s s' (wnames e).

(* ---------- lists of expressions ---------- *)
Lemma map2_complete es : Forall cpl es -> forall G s,
  forallb (fun e => wt G e) es = true -> forallb src_ok es = true ->
  Forall in_table (flat_map dfns es) -> vars_ok G s -> wp_ok s (flat_map wnames es) ->
  exists s', map2_st (fun e0 t0 s0 => AE e0 t0 s0) (map erase es) (map ty_of es) s = Ok (es, s') /\
             wb s s' (flat_map wnames es) /\ le_st s s'.
Proof.
  induction 1 as [|e es He _ IH]; intros G s Hwt Hok Hc Hv Hw.
  - exists s. cbn. split; [reflexivity|]. split; [apply wb_refl, Hw|apply le_st_refl].
  - apply forallb_cons_inv in Hwt as [Hwt1 Hwt2]. apply forallb_cons_inv in Hok as [Hok1 Hok2].
    cbn [flat_map] in Hc, Hw. apply Forall_app in Hc as [Hc1 Hc2].
    destruct (He G s Hwt1 Hok1 Hc1 Hv (wp_split _ _ _ Hw)) as (s1 & E1 & Hb1).
    pose proof (AE_le _ _ _ _ _ E1) as Hle1.
    destruct (IH G s1 Hwt2 Hok2 Hc2 (vars_ok_le _ _ _ Hv Hle1) (wp_next _ _ _ _ Hw Hb1)) as (s2 & E2 & Hb2 & Hle2).
    exists s2. cbn [map map2_st flat_map]. rewrite E1. cbn [rbind]. rewrite E2. cbn [rbind].
    split; [reflexivity|]. split; [eapply wb_trans; eassumption|eapply le_st_trans; eassumption].
Qed.

(* ---------- the statements of a block ---------- *)
Lemma stmts_complete ss : Forall (fun sm => cpl (snd sm)) ss -> forall t last G s wl,
  wtb t last ss G = true -> forallb stmt_ok ss = true ->
  Forall in_table (flat_map (fun sm => dfns (snd sm)) ss) ->
  vars_ok G s -> wp_ok s (flat_map (fun sm => wnames (snd sm)) ss ++ wl) ->
  exists G2 s2,
    map_st (stmt_step balias al (fun e0 t0 s0 => AE e0 t0 s0)) (map erase_stmt ss) s = Ok (ss, s2) /\
    wtb t last [] G2 = true /\ vars_ok G2 s2 /\ wb s s2 (flat_map (fun sm => wnames (snd sm)) ss).
Proof.
  induction 1 as [|sm ss Hsm _ IH]; intros t last G s wl Hwt Hok Hc Hv Hw.
  - exists G, s. cbn [map map_st flat_map]. split; [reflexivity|]. split; [exact Hwt|]. split; [exact Hv|].
    apply wb_refl, Hw.
  - apply forallb_cons_inv in Hok as [Hok1 Hok2]. cbn [flat_map] in Hc, Hw.
    apply Forall_app in Hc as [Hc1 Hc2]. rewrite <- app_assoc in Hw.
    destruct sm as [[p|] e]; cbn [snd] in *; cbn [wt_blk] in Hwt; cbn [stmt_ok] in Hok1.
    + apply andb_true_iff in Hwt as [Hwt1 Hwt2]. apply andb_true_iff in Hok1 as [Hok1 Hnd].
      destruct (pat_ctx p (ty_of e)) as [c|] eqn:Epc; [|discriminate].
      destruct (Hsm G s Hwt1 Hok1 Hc1 Hv (wp_split _ _ _ Hw)) as (s1 & E1 & Hb1).
      pose proof (AE_le _ _ _ _ _ E1) as Hle1. pose proof (vars_ok_le _ _ _ Hv Hle1) as Hv1.
      destruct (vars s1) as [|m1 r1] eqn:Ev1; [destruct Hv1 as [_ Hne]; congruence|].
      set (s1' := set_vars s1 ((c ++ m1) :: r1)).
      assert (Hv1' : vars_ok (c ++ G) s1').
      { split; [|discriminate]. cbn [s1' vars set_vars concat]. rewrite <- app_assoc. apply ctx_eq_app.
        destruct Hv1 as [Hc1' _]. rewrite Ev1 in Hc1'. exact Hc1'. }
      assert (Hw1' : wp_ok s1' (flat_map (fun sm => wnames (snd sm)) ss ++ wl)).
      { eapply wp_same; [..|exact (wp_next _ _ _ _ Hw Hb1)]; reflexivity. }
      destruct (IH t last (c ++ G) s1' wl Hwt2 Hok2 Hc2 Hv1' Hw1') as (G2 & s2 & E2 & Hl & Hv2 & Hb2).
      exists G2, s2. cbn [map map_st Erase.erase_stmt stmt_step].
      rewrite resolve_aty_of_ty. cbn [rbind]. rewrite E1. cbn [rbind].
      unfold is_of_type. rewrite Epc, Hnd. cbn [rbind]. rewrite Ev1, insert_vars_ok. cbn [rbind].
      fold s1'. rewrite E2. cbn [rbind].
      split; [reflexivity|]. split; [exact Hl|]. split; [exact Hv2|].
      eapply wb_trans; [exact Hb1|]. eapply wb_same; [..|exact Hb2]; reflexivity.
    + apply andb_true_iff in Hwt as [Hwt1 Hwt2]. apply andb_true_iff in Hwt1 as [Hwt1 Hu].
      apply is_unit_eq in Hu.
      destruct (Hsm G s Hwt1 Hok1 Hc1 Hv (wp_split _ _ _ Hw)) as (s1 & E1 & Hb1).
      pose proof (AE_le _ _ _ _ _ E1) as Hle1. pose proof (vars_ok_le _ _ _ Hv Hle1) as Hv1.
      destruct (IH t last G s1 wl Hwt2 Hok2 Hc2 Hv1 (wp_next _ _ _ _ Hw Hb1)) as (G2 & s2 & E2 & Hl & Hv2 & Hb2).
      exists G2, s2. cbn [map map_st Erase.erase_stmt stmt_step].
      rewrite Hu in E1. unfold TUnit. rewrite E1. cbn [rbind]. rewrite E2. cbn [rbind].
      split; [reflexivity|]. split; [exact Hl|]. split; [exact Hv2|]. eapply wb_trans; eassumption.
Qed.

(* ---------- one arm of a match ---------- *)
Lemma arm_complete mp x a e : cpl e ->
  typed_var mp = match x with Some i => Some (i, aty_of_ty a) | None => None end ->
  forall G s, wt (arm_ctx x a G) e = true -> src_ok e = true -> calls_ok e -> vars_ok G s -> wp_ok s (wnames e) ->
  exists s', arm_step balias al (fun e0 t0 s0 => AE e0 t0 s0) mp (erase e) (ty_of e) s = Ok (e, s') /\
             wb s s' (wnames e) /\ le_st s s' /\ arm_var mp = x.
Proof.
  intros He Htv G s Hwt Hok Hc [Hv Hne] Hw.
  set (s2 := match x with
             | Some i => set_vars s ([(i, a)] :: vars s)
             | None => set_vars s ([] :: vars s) end).
  assert (Hv2 : vars_ok (arm_ctx x a G) s2).
  { destruct x as [i|]; cbn [arm_ctx s2]; (split; [|discriminate]); cbn [vars set_vars concat app].
    - now apply ctx_eq_cons.
    - exact Hv. }
  assert (Hw2 : wp_ok s2 (wnames e)) by (eapply wp_same; [..|exact Hw]; destruct x; reflexivity).
  destruct (He _ s2 Hwt Hok Hc Hv2 Hw2) as (s3 & E3 & Hb3).
  assert (Hstep : exists s', arm_step balias al (fun e0 t0 s0 => AE e0 t0 s0) mp (erase e) (ty_of e) s = Ok (e, s') /\
                             wits s' = wits s3 /\ params s' = params s3).
  { pose proof (AE_le _ _ _ _ _ E3) as [_ Hvs].
    assert (Hv3 : exists m3 r3, vars s3 = m3 :: r3).
    { destruct x; cbn [s2 vars set_vars] in Hvs; apply vs_eq_cons_inv in Hvs as (m3 & r3 & -> & _); eauto. }
    destruct Hv3 as (m3 & r3 & Ev3).
    exists (set_vars s3 r3). unfold arm_step. rewrite Htv. destruct x as [i|].
    - rewrite resolve_aty_of_ty. cbn [rbind].
      change (rbind (insert_variable i a (vars (set_vars s (push_scope (vars s)))))
                (fun vs => Ok (set_vars (set_vars s (push_scope (vars s))) vs))) with (Ok s2).
      cbn [rbind]. rewrite E3. cbn [rbind]. rewrite Ev3. cbn [pop_scope rbind]. auto.
    - change (set_vars s (push_scope (vars s))) with s2. cbn [rbind]. rewrite E3. cbn [rbind]. rewrite Ev3.
      cbn [pop_scope rbind]. auto. }
  destruct Hstep as (s' & Es & Ew & Ep). exists s'. split; [exact Es|]. split; [|split].
  - eapply wb_same; [..|exact Hb3]; try (symmetry; assumption). destruct x; reflexivity.
  - apply (arm_sound jsig balias W args al fn _ mp (erase e)) in Es as (Hle & _); [exact Hle|].
    apply (analyze_expr_sound jlook jsig balias W args al fn is_main).
  - unfold arm_var. rewrite Htv. destruct x; reflexivity.
Qed.

(* ---------- calls ---------- *)
(* once the plan asks for the argument types that the arguments have, the call goes through *)
Lemma call_complete sp name cn pre post build es t :
  analyze_callname jlook balias al fn name = Ok cn ->
  call_plan jsig cn t (length es) = Ok (map ty_of es, pre, post, build) ->
  Forall cpl es -> forall G s,
  forallb (fun e => wt G e) es = true -> forallb src_ok es = true ->
  Forall in_table (flat_map dfns es) -> vars_ok G s -> wp_ok s (flat_map wnames es) ->
  exists s', AE (PCall sp name (map erase es)) t s = Ok (build es, s') /\ wb s s' (flat_map wnames es).
Proof.
  intros Hcn Hp Hes G s Hwt Hok Hc Hv Hw.
  set (s1 := track_opt sp pre s).
  assert (Hv1 : vars_ok G s1) by (eapply vars_ok_same; [|exact Hv]; symmetry; apply track_opt_vars).
  assert (Hw1 : wp_ok s1 (flat_map wnames es)).
  { eapply wp_same; [..|exact Hw]; symmetry; [apply track_opt_wits|apply track_opt_params]. }
  destruct (map2_complete es Hes G s1 Hwt Hok Hc Hv1 Hw1) as (s2 & E2 & Hb2 & _).
  exists (track_opt sp post s2). cbn [analyze_expr]. rewrite Hcn. cbn [rbind]. rewrite map_length, Hp. cbn [rbind].
  fold s1. rewrite E2. cbn [rbind]. split; [reflexivity|].
  eapply wb_same; [..|exact Hb2]; [apply track_opt_wits|symmetry; apply track_opt_wits|symmetry; apply track_opt_params].
Qed.

(* builtin calls: the plan of the erased name asks exactly for the argument types *)
Lemma builtin_plan b ats t : wt_builtin jsig b ats t = true -> builtin_ok jlook jname b = true ->
  exists cn pre post, analyze_callname jlook balias al fn (erase_builtin jname b ats) = Ok cn /\
                      call_plan jsig cn t (length ats) = Ok (ats, pre, post, ECall t b).
Proof.
  intros Hwt Hok. destruct b; cbn [wt_builtin] in Hwt; cbn [erase_builtin analyze_callname].
  - (* jet *)
    cbn [builtin_ok] in Hok. destruct (jlook (jname j)) as [j'|]; [|discriminate]. apply N.eqb_eq in Hok. subst j'.
    destruct (jsig j) as [[ps r]|] eqn:Ej; [|discriminate]. apply andb_true_iff in Hwt as [H1 H2].
    apply tys_eqb_eq in H1. apply ty_eqb_eq in H2. subst ats t.
    eexists _, _, _. split; [reflexivity|]. cbn [call_plan]. rewrite Ej, Nat.eqb_refl, ty_eqb_refl. reflexivity.
  - (* unwrap_left *)
    destruct ats as [|[a b| | | | | |] [|? ?]]; try discriminate. apply ty_eqb_eq in Hwt. subst a.
    cbn [arg_ty]. rewrite resolve_aty_of_ty. cbn [rmap]. eexists _, _, _. split; reflexivity.
  - (* unwrap_right *)
    destruct ats as [|[a b| | | | | |] [|? ?]]; try discriminate. apply ty_eqb_eq in Hwt. subst b.
    cbn [arg_ty]. rewrite resolve_aty_of_ty. cbn [rmap]. eexists _, _, _. split; reflexivity.
  - (* unwrap *)
    destruct ats as [|[|a| | | | |] [|? ?]]; try discriminate. apply ty_eqb_eq in Hwt. subst a.
    eexists _, _, _. split; reflexivity.
  - (* is_none *)
    destruct ats as [|[|a| | | | |] [|? ?]]; try discriminate. apply ty_eqb_eq in Hwt. subst t.
    cbn [arg_ty]. rewrite resolve_aty_of_ty. cbn [rmap]. eexists _, _, _. split; reflexivity.
  - (* assert *)
    destruct ats as [|[| |  | | | |] [|? ?]]; try discriminate. apply is_unit_eq in Hwt. subst t.
    eexists _, _, _. split; reflexivity.
  - (* panic *)
    destruct ats; [|discriminate]. eexists _, _, _. split; reflexivity.
  - (* dbg *)
    destruct ats as [|a [|? ?]]; try discriminate. apply ty_eqb_eq in Hwt. subst a.
    eexists _, _, _. split; reflexivity.
  - (* cast *)
    destruct ats as [|a [|? ?]]; try discriminate. apply andb_true_iff in Hwt as [H1 H2]. apply ty_eqb_eq in H1. subst a.
    rewrite resolve_aty_of_ty. cbn [rmap]. eexists _, _, _. split; [reflexivity|]. cbn [call_plan]. rewrite H2. reflexivity.
Qed.

(* calls that carry a function: the same, given that the table has the callee under its name *)
Lemma fn_plan k ps body ats t :
  match k with
  | KCustom => tys_eqb ats (map snd ps) && ty_eqb (ty_of body) t
  | KFold kk => match ps with
      | [(_,E); (_,A)] => Nat.leb 1 kk && tys_eqb ats [TList E kk; A] && ty_eqb (ty_of body) A && ty_eqb t A
      | _ => false end
  | KFor w => match ps, t with
      | [(_,A); (_,C); (_,TUInt w')], TEither B A' =>
          Nat.eqb w w' && ty_eqb A A' && tys_eqb ats [A; C] && ty_eqb (ty_of body) t
      | _, _ => false end
  end = true ->
  fkind_ok k = true -> in_table (ps, body) ->
  exists cn, analyze_callname jlook balias al fn (erase_fkind k (fname (ps, body))) = Ok cn /\
             call_plan jsig cn t (length ats) = Ok (ats, None, None, EFn t k ps body).
Proof.
  intros Hwt Hok Hin. unfold in_table in Hin. destruct k as [|kk|w]; cbn [erase_fkind analyze_callname]; rewrite Hin.
  - apply andb_true_iff in Hwt as [H1 H2]. apply tys_eqb_eq in H1. subst ats.
    eexists. split; [reflexivity|]. cbn [call_plan]. rewrite !map_length, Nat.eqb_refl, H2. reflexivity.
  - destruct ps as [|[x1 E] [|[x2 A] [|? ?]]]; try discriminate.
    apply andb_true_iff in Hwt as [Hwt H4]. apply andb_true_iff in Hwt as [Hwt H3].
    apply andb_true_iff in Hwt as [H1 H2]. apply tys_eqb_eq in H2. apply ty_eqb_eq in H3. apply ty_eqb_eq in H4.
    subst ats t. destruct kk as [|kk]; [discriminate|]. rewrite <- H3, ty_eqb_refl.
    eexists. split; [reflexivity|]. cbn [call_plan length Nat.eqb negb]. rewrite ty_eqb_refl. reflexivity.
  - destruct ps as [|[x1 A] [|[x2 C] [|[x3 c3] [|? ?]]]]; try discriminate; [|destruct c3; discriminate].
    destruct c3 as [| | |w'| | |]; try discriminate. destruct t as [B A'| | | | | |]; try discriminate.
    apply andb_true_iff in Hwt as [Hwt H4]. apply andb_true_iff in Hwt as [Hwt H3].
    apply andb_true_iff in Hwt as [H1 H2]. apply Nat.eqb_eq in H1. apply ty_eqb_eq in H2. apply tys_eqb_eq in H3.
    apply ty_eqb_eq in H4. subst w' A' ats. cbn [fkind_ok] in Hok.
    rewrite H4, ty_eqb_refl, Hok.
    eexists. split; [reflexivity|]. cbn [call_plan length Nat.eqb negb]. rewrite H4, ty_eqb_refl. reflexivity.
Qed.

(* ====================================================================================== *)
(** * Completeness for expressions *)
Theorem analyze_expr_complete e : cpl e.
Proof.
  induction e using expr_ind'; intros G s Hwt Hok Hc Hv Hw.
  - (* block *)
    rewrite wt_block in Hwt. rewrite src_ok_block in Hok. apply andb_true_iff in Hok as [Hok1 Hok2].
    unfold calls_ok in Hc. cbn [dfns wnames] in Hc, Hw. apply Forall_app in Hc as [Hc1 Hc2].
    set (s1 := set_vars s (push_scope (vars s))).
    assert (Hv1 : vars_ok G s1) by (destruct Hv as [Hv _]; split; [exact Hv|discriminate]).
    assert (Hw1 : wp_ok s1 (flat_map (fun sm => wnames (snd sm)) stmts ++
                            match last with Some l => wnames l | None => [] end))
      by (eapply wp_same; [..|exact Hw]; reflexivity).
    destruct (stmts_complete stmts H t last G s1 _ Hwt Hok1 Hc1 Hv1 Hw1) as (G2 & s2 & E2 & Hl & Hv2 & Hb2).
    pose proof (wp_next _ _ _ _ Hw1 Hb2) as Hw2.
    assert (Hlast : exists s3, match last with
              | Some l => rbind (AE (erase l) t s2) (fun '(l', s3) => Ok (Some l', s3))
              | None => if is_unit t then Ok (None, s2) else Err
              end = Ok (last, s3) /\ vars_ok G2 s3 /\
              wb s2 s3 (match last with Some l => wnames l | None => [] end)).
    { cbn [wt_blk] in Hl. destruct last as [l|].
      - apply andb_true_iff in Hl as [Hl1 Hl2]. apply ty_eqb_eq in Hl2. cbn [opt_P] in H0.
        destruct (H0 G2 s2 Hl1 Hok2 Hc2 Hv2 Hw2) as (s3 & E3 & Hb3). rewrite Hl2 in E3.
        exists s3. rewrite E3. cbn [rbind]. split; [reflexivity|]. split; [|exact Hb3].
        eapply vars_ok_le; [exact Hv2|]. eapply AE_le; exact E3.
      - exists s2. rewrite Hl. split; [reflexivity|]. split; [exact Hv2|]. apply wb_refl, Hw2. }
    destruct Hlast as (s3 & E3 & Hv3 & Hb3).
    destruct (vars s3) as [|m3 r3] eqn:Ev3; [destruct Hv3 as [_ Hne]; congruence|].
    exists (set_vars s3 r3). split.
    + rewrite erase_block. cbn [analyze_expr ty_of]. fold s1. rewrite E2. cbn [rbind].
      destruct last as [l|]; rewrite E3; cbn [rbind]; rewrite Ev3; reflexivity.
    + eapply wb_same; [..|eapply wb_trans; [exact Hb2|exact Hb3]]; reflexivity.
  - (* constant *)
    cbn [WT.wt] in Hwt. apply andb_true_iff in Hwt as [Hwf Hty]. apply ty_eqb_eq in Hty. subst t.
    cbn [Erase.src_ok] in Hok. unfold const_ok in Hok. cbn [erase_expr ty_of].
    destruct (erase_const v) as [p|] eqn:Ec; [|discriminate].
    exists s. split; [now apply const_complete|]. apply wb_refl, Hw.
  - (* witness *)
    cbn [WT.wt] in Hwt. destruct (W n) as [t'|] eqn:EW; [|discriminate]. apply ty_eqb_eq in Hwt. subst t'.
    cbn [wnames] in Hw. destruct Hw as (Hg & Hf & _ & Hm).
    destruct Hm as [Hm|Hm]; [|discriminate].
    exists (set_wits s ((n, t) :: wits s)). split.
    + cbn [erase_expr ty_of analyze_expr]. unfold insert_witness. rewrite Hm. cbn [negb].
      rewrite (Hf n (or_introl eq_refl)). reflexivity.
    + split.
      * destruct Hg as [Hg1 Hg2]. split; [|exact Hg2]. intros n0 t0. cbn [wits set_wits lookupN].
        destruct (N.eqb n0 n) eqn:En; [|apply Hg1]. apply N.eqb_eq in En. subst n0. congruence.
      * intros n0. cbn [wits set_wits lookupN wnames In]. destruct (N.eqb n0 n) eqn:En; [|auto].
        apply N.eqb_eq in En. auto.
  - (* parameter *)
    cbn [WT.wt] in Hwt. destruct (args n) as [v|] eqn:Ea; [|discriminate].
    apply andb_true_iff in Hwt as [Hwf Hty]. apply ty_eqb_eq in Hty. subst t.
    cbn [wnames] in Hw. destruct Hw as (Hg & _). cbn [erase_expr ty_of analyze_expr]. unfold insert_parameter.
    destruct (lookupN (params s) n) as [t'|] eqn:El.
    + destruct Hg as [Hg1 Hg2]. destruct (Hg2 n t' El) as (v' & Ev' & _ & Hty'). rewrite Ea in Ev'.
      injection Ev' as <-. subst t'. rewrite ty_eqb_refl. exists s. split; [reflexivity|]. apply wb_refl. now split.
    + exists (set_params s ((n, type_of v) :: params s)). split; [reflexivity|]. split; [|auto].
      destruct Hg as [Hg1 Hg2]. split; [exact Hg1|]. intros n0 t0. cbn [params set_params lookupN].
      destruct (N.eqb n0 n) eqn:En; [|apply Hg2]. apply N.eqb_eq in En. subst n0.
      intros E. injection E as <-. eauto.
  - (* variable *)
    cbn [WT.wt] in Hwt. destruct (lookupN G x) as [t'|] eqn:El; [|discriminate]. apply ty_eqb_eq in Hwt. subst t'.
    destruct Hv as [Hc' Hne]. rewrite (Hc' x), <- get_variable_concat in El.
    destruct (vars s) as [|m r] eqn:Ev; [congruence|].
    exists (set_vars s (((x, t) :: m) :: r)). split.
    + cbn [erase_expr ty_of analyze_expr]. rewrite Ev, El, ty_eqb_refl. reflexivity.
    + eapply wb_same; [..|apply wb_refl, Hw]; reflexivity.
  - (* parentheses *)
    cbn [WT.wt Erase.src_ok] in Hwt, Hok. destruct (IHe G s Hwt Hok Hc Hv Hw) as (s' & E & Hb).
    exists s'. cbn [erase_expr ty_of analyze_expr]. rewrite E. auto.
  - (* tuple *)
    cbn [WT.wt Erase.src_ok] in Hwt, Hok. apply andb_true_iff in Hwt as [Hty Hwt]. apply ty_eqb_eq in Hty. subst t.
    destruct (map2_complete es H G s Hwt Hok Hc Hv Hw) as (s' & E & Hb & _).
    exists s'. cbn [erase_expr ty_of analyze_expr]. rewrite !map_length, Nat.eqb_refl. cbn [negb].
    rewrite E. auto.
  - (* array *)
    cbn [WT.wt Erase.src_ok] in Hwt, Hok. destruct t as [| | | | |a n|]; try discriminate.
    apply andb_true_iff in Hwt as [Hn Hwt]. apply Nat.eqb_eq in Hn. subst n.
    apply forallb_and in Hwt as [Hwt Hty]. apply all_ty_repeat in Hty.
    destruct (map2_complete es H G s Hwt Hok Hc Hv Hw) as (s' & E & Hb & _).
    exists s'. cbn [erase_expr ty_of analyze_expr]. rewrite !map_length, Nat.eqb_refl. cbn [negb].
    rewrite <- Hty, E. auto.
  - (* list *)
    cbn [WT.wt Erase.src_ok] in Hwt, Hok. destruct t as [| | | | | |a k]; try discriminate.
    apply andb_true_iff in Hwt as [Hk Hwt]. apply andb_true_iff in Hk as [Hk Hlen].
    apply forallb_and in Hwt as [Hwt Hty]. apply all_ty_repeat in Hty.
    destruct (map2_complete es H G s Hwt Hok Hc Hv Hw) as (s' & E & Hb & _).
    exists s'. cbn [erase_expr ty_of analyze_expr]. destruct k as [|k]; [discriminate|].
    apply Nat.ltb_lt in Hlen. rewrite !map_length. apply lt_pow2_spec in Hlen. rewrite Hlen. cbn [negb].
    rewrite <- Hty, E. auto.
  - (* left *)
    cbn [WT.wt Erase.src_ok] in Hwt, Hok. destruct t; try discriminate.
    apply andb_true_iff in Hwt as [Hwt Hty]. apply ty_eqb_eq in Hty.
    destruct (IHe G s Hwt Hok Hc Hv Hw) as (s' & E & Hb). rewrite Hty in E.
    exists s'. cbn [erase_expr ty_of analyze_expr]. rewrite E. auto.
  - (* right *)
    cbn [WT.wt Erase.src_ok] in Hwt, Hok. destruct t; try discriminate.
    apply andb_true_iff in Hwt as [Hwt Hty]. apply ty_eqb_eq in Hty.
    destruct (IHe G s Hwt Hok Hc Hv Hw) as (s' & E & Hb). rewrite Hty in E.
    exists s'. cbn [erase_expr ty_of analyze_expr]. rewrite E. auto.
  - (* none *)
    cbn [WT.wt] in Hwt. destruct t; try discriminate. exists s. split; [reflexivity|]. apply wb_refl, Hw.
  - (* some *)
    cbn [WT.wt Erase.src_ok] in Hwt, Hok. destruct t; try discriminate.
    apply andb_true_iff in Hwt as [Hwt Hty]. apply ty_eqb_eq in Hty.
    destruct (IHe G s Hwt Hok Hc Hv Hw) as (s' & E & Hb). rewrite Hty in E.
    exists s'. cbn [erase_expr ty_of analyze_expr]. rewrite E. auto.
  - (* builtin call *)
    cbn [WT.wt Erase.src_ok] in Hwt, Hok. apply andb_true_iff in Hwt as [Hwt Hb]. apply andb_true_iff in Hok as [Hbo Hok].
    destruct (builtin_plan b (map ty_of es) t Hb Hbo) as (cn & pre & post & Hcn & Hp). rewrite map_length in Hp.
    exact (call_complete _ _ cn pre post _ es t Hcn Hp H G s Hwt Hok Hc Hv Hw).
  - (* call of a function *)
    rename e into body. cbn [WT.wt Erase.src_ok] in Hwt, Hok. apply andb_true_iff in Hwt as [Hwt Hk]. apply andb_true_iff in Hwt as [Hwt _].
    apply andb_true_iff in Hok as [Hok Hoke]. apply andb_true_iff in Hok as [Hok _]. apply andb_true_iff in Hok as [Hok _].
    apply andb_true_iff in Hok as [Hko _].
    unfold calls_ok in Hc. cbn [dfns] in Hc. inversion Hc as [|? ? Hin Hc']; subst.
    destruct (fn_plan k ps body (map ty_of es) t Hk Hko Hin) as (cn & Hcn & Hp). rewrite map_length in Hp.
    exact (call_complete _ _ cn None None _ es t Hcn Hp H G s Hwt Hoke Hc' Hv Hw).
  - (* match *)
    cbn [WT.wt Erase.src_ok] in Hwt, Hok.
    apply andb_true_iff in Hwt as [Hwt Htr]. apply andb_true_iff in Hwt as [Hwt Htl].
    apply andb_true_iff in Hwt as [Hws Harms]. apply ty_eqb_eq in Htl. apply ty_eqb_eq in Htr.
    apply andb_true_iff in Hok as [Hok Hokr]. apply andb_true_iff in Hok as [Hok Hokl].
    apply andb_true_iff in Hok as [Hnamed Hoks].
    unfold calls_ok in Hc. cbn [dfns wnames] in Hc, Hw.
    apply Forall_app in Hc as [Hcs Hc]. apply Forall_app in Hc as [Hcl Hcr].
    destruct (IHe1 G s Hws Hoks Hcs Hv (wp_split _ _ _ Hw)) as (s1 & E1 & Hb1).
    pose proof (vars_ok_le _ _ _ Hv (AE_le _ _ _ _ _ E1)) as Hv1.
    pose proof (wp_next _ _ _ _ Hw Hb1) as Hw1.
    assert (Harm : exists lp rp al' ar',
              erase_arms (ty_of e1) xl xr = (lp, rp) /\
              rbind (scrutinee_type lp rp) (fun sa => resolve sa) = Ok (ty_of e1) /\
              typed_var lp = match xl with Some i => Some (i, aty_of_ty al') | None => None end /\
              typed_var rp = match xr with Some i => Some (i, aty_of_ty ar') | None => None end /\
              wt (arm_ctx xl al' G) e2 = true /\ wt (arm_ctx xr ar' G) e3 = true).
    { destruct (ty_of e1) as [a b|a| | | | |] eqn:Ety; try discriminate; cbn [arms_named erase_arms] in *.
      - apply andb_true_iff in Harms as [Ha1 Ha2]. destruct xl as [i|]; [|discriminate]. destruct xr as [j|]; [|discriminate].
        exists (MLeft i (aty_of_ty a)), (MRight j (aty_of_ty b)), a, b. cbn [arm_name scrutinee_type rbind typed_var].
        pose proof (resolve_aty_of_ty balias al (TEither a b)) as R. cbn [aty_of_ty] in R. rewrite R. repeat split; assumption.
      - destruct xl as [i|]; [discriminate|]. apply andb_true_iff in Harms as [Ha1 Ha2]. destruct xr as [j|]; [|discriminate].
        exists MNone, (MSome j (aty_of_ty a)), a, a. cbn [arm_name scrutinee_type rbind typed_var].
        pose proof (resolve_aty_of_ty balias al (TOption a)) as R. cbn [aty_of_ty] in R. rewrite R. repeat split; assumption.
      - destruct xl as [i|]; [discriminate|]. destruct xr as [j|]; [discriminate|]. apply andb_true_iff in Harms as [Ha1 Ha2].
        exists MFalse, MTrue, TBool, TBool. cbn [scrutinee_type rbind typed_var Analyze.resolve]. repeat split; assumption. }
    destruct Harm as (lp & rp & al' & ar' & Earms & Escr & Htl' & Htr' & Hwl & Hwr).
    destruct (arm_complete lp xl al' e2 IHe2 Htl' G s1 Hwl Hokl Hcl Hv1 (wp_split _ _ _ Hw1)) as (s2 & E2 & Hb2 & Hle2 & Hxl).
    pose proof (vars_ok_le _ _ _ Hv1 Hle2) as Hv2. pose proof (wp_next _ _ _ _ Hw1 Hb2) as Hw2.
    destruct (arm_complete rp xr ar' e3 IHe3 Htr' G s2 Hwr Hokr Hcr Hv2 Hw2) as (s3 & E3 & Hb3 & _ & Hxr).
    exists s3. split; [|eapply wb_trans; [exact Hb1|eapply wb_trans; eassumption]].
    cbn [erase_expr ty_of]. rewrite Earms. cbn [analyze_expr].
    destruct (scrutinee_type lp rp) as [sa| |]; cbn [rbind] in Escr |- *; try discriminate.
    rewrite Escr. cbn [rbind]. rewrite E1. cbn [rbind]. rewrite Htl in E2. rewrite E2. cbn [rbind].
    rewrite Htr in E3. rewrite E3. cbn [rbind]. rewrite Hxl, Hxr. reflexivity.
Qed.
End ExprC.

(* ====================================================================================== *)
(** * Programs *)

(* ---------- what typing and the static rules say about the inlined functions ---------- *)
Definition fn_wt (d:fdef) : Prop :=
  wt (fst d) (snd d) = true /\ src_ok (snd d) = true /\ nodup_keys (fst d) = true /\ wnames (snd d) = [].

Definition facts_at (e:expr) : Prop := forall G, wt G e = true -> src_ok e = true -> Forall fn_wt (afns e).
Lemma afns_facts_list es : Forall facts_at es -> forall G,
  forallb (fun e => wt G e) es = true -> forallb src_ok es = true -> Forall fn_wt (flat_map afns es).
Proof.
  induction 1 as [|e es He _ IH]; intros G Hwt Hok; cbn [flat_map]; [constructor|].
  apply forallb_cons_inv in Hwt as [H1 H2]. apply forallb_cons_inv in Hok as [H3 H4].
  apply Forall_app. split; [eapply He; eassumption|eapply IH; eassumption].
Qed.
Lemma afns_facts e : facts_at e.
Proof.
  induction e using expr_ind'; intros G Hwt Hok; cbn [afns]; try (now constructor);
    [|cbn [WT.wt Erase.src_ok] in Hwt, Hok..].
  - (* block *)
    rewrite wt_block in Hwt. rewrite src_ok_block in Hok. apply andb_true_iff in Hok as [Hok1 Hok2].
    revert G Hwt Hok1. induction H as [|sm ss Hsm _ IH]; intros G Hwt Hok1; cbn [flat_map app].
    + cbn [wt_blk] in Hwt. destruct last as [l|]; [|constructor].
      apply andb_true_iff in Hwt as [Hwt _]. exact (H0 G Hwt Hok2).
    + apply forallb_cons_inv in Hok1 as [Hs Hok1]. rewrite <- app_assoc. apply Forall_app.
      destruct sm as [[p|] e]; cbn [snd stmt_ok wt_blk] in *.
      * apply andb_true_iff in Hwt as [Hwt1 Hwt2]. apply andb_true_iff in Hs as [Hs _].
        destruct (pat_ctx p (ty_of e)) as [c|]; [|discriminate]. split; [exact (Hsm G Hwt1 Hs)|exact (IH _ Hwt2 Hok1)].
      * apply andb_true_iff in Hwt as [Hwt1 Hwt2]. apply andb_true_iff in Hwt1 as [Hwt1 _].
        split; [exact (Hsm G Hwt1 Hs)|exact (IH _ Hwt2 Hok1)].
  - eauto.
  - apply andb_true_iff in Hwt as [_ Hwt]. eapply afns_facts_list; eassumption.
  - destruct t; try discriminate. apply andb_true_iff in Hwt as [_ Hwt]. apply forallb_and in Hwt as [Hwt _].
    eapply afns_facts_list; eassumption.
  - destruct t; try discriminate. apply andb_true_iff in Hwt as [_ Hwt]. apply forallb_and in Hwt as [Hwt _].
    eapply afns_facts_list; eassumption.
  - destruct t; try discriminate. apply andb_true_iff in Hwt as [Hwt _]. eauto.
  - destruct t; try discriminate. apply andb_true_iff in Hwt as [Hwt _]. eauto.
  - destruct t; try discriminate. apply andb_true_iff in Hwt as [Hwt _]. eauto.
  - apply andb_true_iff in Hwt as [Hwt _]. apply andb_true_iff in Hok as [_ Hok]. eapply afns_facts_list; eassumption.
  - apply andb_true_iff in Hwt as [Hwt _]. apply andb_true_iff in Hwt as [Hwe Hwb].
    apply andb_true_iff in Hok as [Hok Hoke]. apply andb_true_iff in Hok as [Hok Hnw]. apply andb_true_iff in Hok as [Hok Hob].
    apply andb_true_iff in Hok as [_ Hnd].
    apply Forall_app. split; [exact (IHe _ Hwb Hob)|]. constructor.
    + unfold fn_wt. cbn [fst snd]. repeat split; try assumption. destruct (wnames e); [reflexivity|discriminate].
    + eapply afns_facts_list; eassumption.
  - apply andb_true_iff in Hwt as [Hwt _]. apply andb_true_iff in Hwt as [Hwt _]. apply andb_true_iff in Hwt as [Hws Harms].
    apply andb_true_iff in Hok as [Hok Hokr]. apply andb_true_iff in Hok as [Hok Hokl]. apply andb_true_iff in Hok as [_ Hoks].
    apply Forall_app. split; [exact (IHe1 _ Hws Hoks)|]. apply Forall_app.
    destruct (ty_of e1); try discriminate.
    + apply andb_true_iff in Harms as [H1 H2]. split; eauto.
    + destruct xl; [discriminate|]. apply andb_true_iff in Harms as [H1 H2]. split; eauto.
    + destruct xl; [discriminate|]. destruct xr; [discriminate|]. apply andb_true_iff in Harms as [H1 H2]. split; eauto.
Qed.

(* ---------- [afns] lists callees before callers ---------- *)
Fixpoint closed_from (done l:list fdef) : Prop :=
  match l with [] => True | d::r => incl (dfns (snd d)) done /\ closed_from (d::done) r end.
Lemma closed_mono l : forall d1 d2, incl d1 d2 -> closed_from d1 l -> closed_from d2 l.
Proof.
  induction l as [|d r IH]; intros d1 d2 Hi; cbn [closed_from]; [auto|]. intros [H1 H2].
  split; [eapply incl_tran; eassumption|]. eapply IH; [|exact H2]. now apply incl_cons_mono.
Qed.
Lemma closed_app l1 : forall done l2,
  closed_from done l1 -> closed_from (rev l1 ++ done) l2 -> closed_from done (l1 ++ l2).
Proof.
  induction l1 as [|d r IH]; intros done l2 H1 H2; cbn [app]; [exact H2|]. cbn [closed_from] in *.
  destruct H1 as [H1 H1']. split; [exact H1|]. apply IH; [exact H1'|]. cbn [rev] in H2. now rewrite <- app_assoc in H2.
Qed.
Definition cl (l:list fdef) : Prop := forall done, closed_from done l.
Lemma cl_app l1 l2 : cl l1 -> cl l2 -> cl (l1 ++ l2).
Proof. intros H1 H2 done. apply closed_app; [apply H1|apply H2]. Qed.
Lemma cl_flat_map {A} (f:A -> list fdef) l : Forall (fun a => cl (f a)) l -> cl (flat_map f l).
Proof. induction 1; cbn [flat_map]; [intros done; exact I|]. now apply cl_app. Qed.

Lemma incl_flat_map {A B} (f g:A -> list B) l : Forall (fun a => incl (f a) (g a)) l -> incl (flat_map f l) (flat_map g l).
Proof. induction 1; cbn [flat_map]; [apply incl_refl|]. now apply incl_app_app. Qed.
Lemma dfns_afns e : incl (dfns e) (afns e).
Proof.
  induction e using expr_ind'; cbn [dfns afns]; try apply incl_refl; try assumption; try (now apply incl_flat_map).
  - apply incl_app_app.
    + apply incl_flat_map. exact H.
    + destruct last; [exact H0|apply incl_refl].
  - apply incl_appr. apply incl_cons_mono. now apply incl_flat_map.
  - apply incl_app_app; [assumption|]. now apply incl_app_app.
Qed.
Lemma afns_closed e : cl (afns e).
Proof.
  induction e using expr_ind'; cbn [afns]; try (intros done; exact I); try assumption; try (now apply cl_flat_map).
  - apply cl_app; [now apply cl_flat_map|]. destruct last; [exact H0|intros done; exact I].
  - intros done. apply closed_app; [apply IHe|]. cbn [closed_from snd]. split.
    + apply incl_appl. intros d Hd. apply in_rev. rewrite rev_involutive. now apply dfns_afns.
    + now apply cl_flat_map.
  - apply cl_app; [assumption|]. now apply cl_app.
Qed.

(* ---------- state-passing traversal of an appended list ---------- *)
Lemma map_st_app {A B S} (F:A -> S -> res (B*S)) l1 : forall l2 s b1 s1 b2 s2,
  map_st F l1 s = Ok (b1, s1) -> map_st F l2 s1 = Ok (b2, s2) -> map_st F (l1 ++ l2) s = Ok (b1 ++ b2, s2).
Proof.
  induction l1 as [|a l1 IH]; intros l2 s b1 s1 b2 s2 H1 H2; cbn [map_st app] in *.
  - injection H1 as <- <-. exact H2.
  - destruct (F a s) as [[b s']| |]; cbn [rbind] in *; try discriminate.
    destruct (map_st F l1 s') as [[bs s'']| |] eqn:E; cbn [rbind] in *; try discriminate.
    injection H1 as <- <-. rewrite (IH _ _ _ _ _ _ E H2). reflexivity.
Qed.
Lemma mains_app a b : mains (a ++ b) = mains a ++ mains b.
Proof. induction a as [|[m|] a IH]; cbn [mains app]; [reflexivity| |exact IH]. now rewrite IH. Qed.

(* ---------- the function items ---------- *)
Notation AI := (analyze_item jlook jsig balias main_name).
Notation erase_fn := (erase_fn jname fname spn).
Notation dedup := (dedup fname).

(* the global state after the functions [done] were defined *)
Definition ginv (g:genv) (done:list fdef) : Prop :=
  (forall d, In d done -> lookupN (g_fn g) (fname d) = Some d) /\
  (forall f, lookupN (g_fn g) f <> None -> In f (map fname done)) /\
  (forall n, lookupN (g_wits g) n = None) /\
  g_good W args g.

Section Items.
Variable All : list fdef.
Hypothesis Hall : Forall fn_wt All.
Hypothesis Hinj : forall d1 d2, In d1 All -> In d2 All -> fname d1 = fname d2 -> d1 = d2.
Hypothesis Hnm : forall d, In d All -> fname d <> main_name.

Lemma fn_item_complete d done g : In d All -> incl (dfns (snd d)) done -> ~ In (fname d) (map fname done) ->
  ginv g done -> exists g', AI (erase_fn d) g = Ok (None, g') /\ ginv g' (d :: done) /\ g_al g' = g_al g.
Proof.
  intros Hd Hcl Hns (Hl & Hs & Hw & Hg). destruct d as [ps body]. cbn [snd] in Hcl.
  rewrite Forall_forall in Hall. destruct (Hall _ Hd) as (Hwt & Hok & Hnd & Hnw). cbn [fst snd] in *.
  set (s0 := mkSt [ps] (g_params g) (g_wits g) (g_tlog g)).
  assert (Hc : calls_ok (g_fn g) body).
  { unfold calls_ok, in_table. apply Forall_forall. intros d' Hd'. apply Hl, Hcl, Hd'. }
  assert (Hv0 : vars_ok ps s0).
  { split; [|discriminate]. cbn [s0 vars concat]. rewrite app_nil_r. apply ctx_eq_refl. }
  assert (Hw0 : wp_ok false s0 (wnames body)).
  { rewrite Hnw. split; [exact Hg|]. split; [intros n []|]. split; [constructor|now right]. }
  destruct (analyze_expr_complete (g_al g) (g_fn g) false body ps s0 Hwt Hok Hc Hv0 Hw0) as (s1 & E1 & Hg1 & Hb1).
  pose proof (AE_le _ _ _ _ _ _ _ _ E1) as [_ Hvs]. cbn [s0 vars] in Hvs.
  apply vs_eq_cons_inv in Hvs as (m1 & r1 & Ev1 & _).
  assert (Hnone : lookupN (g_fn g) (fname (ps, body)) = None).
  { destruct (lookupN (g_fn g) (fname (ps, body))) eqn:E; [|reflexivity]. exfalso. apply Hns, Hs. congruence. }
  eexists. split; [|split].
  - cbn [analyze_item Erase.erase_fn fst snd]. unfold analyze_function.
    rewrite (proj2 (N.eqb_neq _ _) (Hnm _ Hd)). cbn [negb]. rewrite resolve_params. cbn [rbind].
    rewrite Hnd. cbn [negb]. rewrite resolve_aty_of_ty. cbn [rbind]. fold s0. rewrite E1. cbn [rbind].
    rewrite Ev1. cbn [pop_scope rbind]. rewrite Hnone. reflexivity.
  - split; [|split; [|split]]; cbn [g_fn g_wits].
    + intros d' [<-|Hd']; cbn [lookupN]; [now rewrite N.eqb_refl|].
      destruct (N.eqb (fname d') (fname (ps, body))) eqn:En; [|now apply Hl].
      exfalso. apply Hns. apply N.eqb_eq in En. rewrite <- En. now apply in_map.
    + intros f. cbn [lookupN map]. destruct (N.eqb f (fname (ps, body))) eqn:En.
      * apply N.eqb_eq in En. now left.
      * intros H. right. now apply Hs.
    + intros n. destruct (lookupN (wits s1) n) eqn:E; [|reflexivity]. exfalso.
      rewrite Hnw in Hb1. destruct (Hb1 n) as [H|[]]; [congruence|]. apply H. apply Hw.
    + eapply good_same; [..|exact Hg1]; reflexivity.
  - reflexivity.
Qed.

Lemma fn_items_complete l : forall done g, incl l All -> incl done All -> closed_from done l -> ginv g done ->
  exists items g' done', map_st AI (map erase_fn (dedup (map fname done) l)) g = Ok (items, g') /\
    mains items = [] /\ ginv g' done' /\ incl l done' /\ incl done done'.
Proof.
  induction l as [|d r IH]; intros done g Hl Hdn Hcl Hg.
  - exists [], g, done. cbn [Erase.dedup map map_st mains].
    split; [reflexivity|]. split; [reflexivity|]. split; [exact Hg|]. split; [intros x []|apply incl_refl].
  - cbn [closed_from] in Hcl. destruct Hcl as [Hcl1 Hcl2]. apply incl_cons_inv in Hl as [Hd Hl].
    cbn [Erase.dedup]. destruct (memN (fname d) (map fname done)) eqn:Em.
    + apply memN_In, in_map_iff in Em. destruct Em as (d' & En & Hd').
      assert (d' = d) by (apply Hinj; auto). subst d'.
      destruct (IH done g Hl Hdn) as (items & g' & done' & E & Hm & Hg' & Hi1 & Hi2); [|exact Hg|].
      { eapply closed_mono; [|exact Hcl2]. now apply incl_cons. }
      exists items, g', done'. split; [exact E|]. split; [exact Hm|]. split; [exact Hg'|]. split; [|exact Hi2].
      apply incl_cons; [now apply Hi2|exact Hi1].
    + assert (Hns : ~ In (fname d) (map fname done)) by (intros Hin; apply memN_In in Hin; congruence).
      destruct (fn_item_complete d done g Hd Hcl1 Hns Hg) as (g1 & E1 & Hg1 & _).
      destruct (IH (d :: done) g1 Hl) as (items & g' & done' & E & Hm & Hg' & Hi1 & Hi2); [now apply incl_cons|exact Hcl2|exact Hg1|].
      exists (None :: items), g', done'. cbn [map map_st]. rewrite E1. cbn [rbind]. cbn [map] in E. rewrite E. cbn [rbind].
      split; [reflexivity|]. split; [exact Hm|]. split; [exact Hg'|]. split.
      * apply incl_cons; [apply Hi2; now left|exact Hi1].
      * intros x Hx. apply Hi2. now right.
Qed.
End Items.

(* ====================================================================================== *)
(** * Completeness for programs *)

(* the names chosen for the inlined functions: one name per function, none of them `main` *)
Definition fname_ok (main:expr) : Prop :=
  (forall d1 d2, In d1 (afns main) -> In d2 (afns main) -> fname d1 = fname d2 -> d1 = d2) /\
  (forall d, In d (afns main) -> fname d <> main_name).

Theorem analyze_complete main :
  wt_program jsig W args main = true ->
  src_ok_main jlook jname main = true ->
  fname_ok main ->
  exists ps ws tr,
    analyze_program jlook jsig balias main_name (erase_program jname fname spn main_name main) = Ok (main, ps, ws, tr) /\
    (forall n t, lookupN ws n = Some t -> W n = Some t) /\
    args_consistent args ps.
Proof.
  unfold wt_program, src_ok_main. intros Hwt Hok [Hinj Hnm].
  apply andb_true_iff in Hwt as [Hwt Hu]. apply is_unit_eq in Hu.
  apply andb_true_iff in Hok as [Hok Hnd]. apply nodupN_NoDup in Hnd.
  assert (Hg0 : ginv genv0 []).
  { split; [intros d []|]. split; [intros f H; now contradiction H|]. split; [reflexivity|].
    split; intros n t H; discriminate. }
  destruct (fn_items_complete (afns main) (afns_facts main [] Hwt Hok) Hinj Hnm (afns main) [] genv0
              (incl_refl _) (incl_nil_l _) (afns_closed main []) Hg0)
    as (items & g & done & E & Hm & (Hl & Hs & Hw & Hg) & Hi & _).
  set (s0 := mkSt [[]] (g_params g) (g_wits g) (g_tlog g)).
  assert (Hc : calls_ok (g_fn g) main).
  { unfold calls_ok, in_table. apply Forall_forall. intros d Hd. apply Hl, Hi. now apply dfns_afns. }
  assert (Hv0 : vars_ok [] s0) by (split; [apply ctx_eq_refl|discriminate]).
  assert (Hw0 : wp_ok true s0 (wnames main)).
  { split; [exact Hg|]. split; [intros n _; apply Hw|]. split; [exact Hnd|now left]. }
  destruct (analyze_expr_complete (g_al g) (g_fn g) true main [] s0 Hwt Hok Hc Hv0 Hw0) as (s1 & E1 & Hg1 & _).
  rewrite Hu in E1.
  pose proof (AE_le _ _ _ _ _ _ _ _ E1) as [_ Hvs]. cbn [s0 vars] in Hvs.
  apply vs_eq_cons_inv in Hvs as (m1 & r1 & Ev1 & _).
  set (g' := mkGenv (g_al g) (g_fn g) (params s1) (wits s1) (tlog s1)).
  assert (Emain : map_st AI [IFunction main_name [] None (erase main)] g = Ok ([Some main], g')).
  { cbn [map_st analyze_item]. unfold analyze_function. rewrite N.eqb_refl. cbn [negb rbind].
    fold s0. unfold TUnit. rewrite E1. cbn [rbind]. rewrite Ev1. cbn [pop_scope rbind]. reflexivity. }
  assert (Eprog : analyze_program jlook jsig balias main_name (erase_program jname fname spn main_name main)
                  = Ok (main, params s1, wits s1, rev (tlog s1))).
  { unfold analyze_program, erase_program. cbn [map] in E. rewrite (map_st_app _ _ _ _ _ _ _ _ E Emain). cbn [rbind].
    rewrite mains_app, Hm. reflexivity. }
  exists (params s1), (wits s1), (rev (tlog s1)). split; [exact Eprog|].
  destruct Hg1 as [Hg1 Hg2]. split; [exact Hg1|].
  intros n t Hin. apply Hg2. apply In_lookupN; [|exact Hin].
  now apply (params_wits_nodup _ _ _ _ _ _ _ _ _ Eprog).
Qed.
End Complete.

Print Assumptions analyze_expr_complete.
Print Assumptions analyze_complete.

(* ---------- the canonical names satisfy [fname_ok]: completeness without a hypothesis on names ---------- *)
Lemma index_of_inj l d1 d2 : In d1 l -> In d2 l -> index_of d1 l = index_of d2 l -> d1 = d2.
Proof.
  induction l as [|x r IH]; cbn [index_of In]; [tauto|]. intros H1 H2.
  destruct (fdef_eq_dec d1 x) as [E1|N1], (fdef_eq_dec d2 x) as [E2|N2]; try congruence; try lia.
  intros E. apply N.succ_inj in E. destruct H1 as [H1|H1]; [congruence|]. destruct H2 as [H2|H2]; [congruence|]. auto.
Qed.
Lemma fname_of_ok main_name main : fname_ok main_name (fname_of main_name main) main.
Proof.
  split.
  - intros d1 d2 H1 H2 E. unfold fname_of in E. apply (index_of_inj (afns main)); [assumption..|lia].
  - intros d _. unfold fname_of. lia.
Qed.

Theorem analyze_complete_canonical jlook jsig balias main_name W args jname spn main :
  wt_program jsig W args main = true ->
  src_ok_main jlook jname main = true ->
  exists ps ws tr,
    analyze_program jlook jsig balias main_name
      (erase_program jname (fname_of main_name main) spn main_name main) = Ok (main, ps, ws, tr) /\
    (forall n t, lookupN ws n = Some t -> W n = Some t) /\
    args_consistent args ps.
Proof. intros Hwt Hok. apply analyze_complete; [assumption..|apply fname_of_ok]. Qed.
Print Assumptions analyze_complete_canonical.

(* ====================================================================================== *)
(** * The converse: whatever the analysis produces obeys the static rules [src_ok_main]
      (so the side conditions of completeness are exactly right: none of them is too strong) *)
Lemma NoDup_nodupN l : NoDup l -> nodupN l = true.
Proof.
  induction 1 as [|x l Hn _ IH]; cbn [nodupN]; [reflexivity|]. rewrite IH, andb_true_r. apply negb_true_iff.
  destruct (memN x l) eqn:E; [|reflexivity]. apply memN_In in E. contradiction.
Qed.
Lemma bytes_of_map bs : bytes_of (map (Value.AUInt 3) bs) = Some bs.
Proof. induction bs as [|b bs IH]; cbn [map bytes_of]; [reflexivity|]. now rewrite IH. Qed.
Lemma parse_decimal_k k s n : parse_decimal k s = Ok n -> k <= 8.
Proof. destruct k as [|[|[|[|[|[|[|[|[|k]]]]]]]]]; cbn [parse_decimal]; intros H; try discriminate; lia. Qed.
Lemma parse_hex_uint_k k s n : parse_hex_uint k s = Ok n -> k <= 8.
Proof.
  intros H. destruct (Nat.le_gt_cases k 8) as [Hk|Hk]; [exact Hk|].
  rewrite (parse_hex_uint_not_a_type k s Hk) in H. discriminate.
Qed.

Section Image.
Variable jlook : N -> option N.
Variable jsig : N -> option (list ty * ty).
Variable balias : N -> option ty.
Variable main_name : N.
Variable jname : N -> N.
(* [jname] picks, for every jet that has a name, one of its names *)
Hypothesis Hjname : forall n j, jlook n = Some j -> jlook (jname j) = Some j.
Notation src_ok := (src_ok jlook jname).
Notation stmt_ok := (stmt_ok jlook jname).

Lemma analyze_lit_img l t e : analyze_lit l t = Ok e -> src_ok e = true /\ wnames e = [].
Proof.
  assert (Hu : forall k n, k <= 8 -> src_ok (EConst t (Value.AUInt k n)) = true).
  { intros k n Hk. cbn [Erase.src_ok]. unfold const_ok. cbn [erase_const]. apply Nat.leb_le in Hk. now rewrite Hk. }
  destruct l as [s|s|s]; cbn [analyze_lit]; intros H.
  - destruct t; try discriminate. rb H. injection H as <-. split; [|reflexivity]. eapply Hu, parse_decimal_k, E.
  - destruct t; try discriminate. rb H. injection H as <-. split; [|reflexivity]. apply Hu.
    now apply parse_binary_correct in E.
  - destruct t as [| | |k| |t0 n|]; try discriminate.
    + rb H. injection H as <-. split; [|reflexivity]. eapply Hu, parse_hex_uint_k, E.
    + destruct t0 as [| | |[|[|[|[|k]]]]| | |]; try discriminate. rb H. injection H as <-. split; [|reflexivity].
      cbn [Erase.src_ok]. unfold const_ok. cbn [erase_const]. now rewrite bytes_of_map.
Qed.

Section ExprI.
Variable al : list (N*ty).
Variable fn : list (N*fdef).
Variable is_main : bool.
Notation AE := (analyze_expr jlook jsig balias al fn is_main).

(* the functions of the table obey the rules for functions *)
Definition fn_src : Prop := forall f ps body, lookupN fn f = Some (ps, body) ->
  src_ok body = true /\ nodup_keys ps = true /\ wnames body = [].

Definition img_fn (F : ty -> st -> res (expr*st)) : Prop :=
  forall t s e' s', F t s = Ok (e', s') ->
    (fn_src -> src_ok e' = true) /\
    map fst (wits s') = rev (wnames e') ++ map fst (wits s) /\
    (is_main = false -> wnames e' = []).

Section ListsI.
Variable F : pexpr -> ty -> st -> res (expr*st).
Lemma map2_img l : Forall (fun e => img_fn (F e)) l ->
  forall tys s bs s', map2_st F l tys s = Ok (bs, s') ->
    (fn_src -> forallb src_ok bs = true) /\
    map fst (wits s') = rev (flat_map wnames bs) ++ map fst (wits s) /\
    (is_main = false -> flat_map wnames bs = []).
Proof.
  induction 1 as [|e l He _ IH]; intros tys s bs s' H.
  - cbn in H. injection H as <- <-. auto.
  - destruct tys as [|t tys]; cbn [map2_st] in H; [injection H as <- <-; auto|].
    rb H. destruct a as [b s1]. rb H. destruct a as [bs1 s2]. injection H as <- <-.
    apply He in E as (H1 & H2 & H3). apply IH in E0 as (H4 & H5 & H6). cbn [forallb flat_map]. split; [|split].
    + intros Hf. now rewrite H1, H4.
    + rewrite H5, H2, rev_app_distr, app_assoc. reflexivity.
    + intros Hm. now rewrite H3, H6.
Qed.
Lemma stmts_img stmts :
  Forall (fun sm => img_fn (F (snd sm)) /\ forall t s e' s', F (snd sm) t s = Ok (e', s') -> ty_of e' = t) stmts ->
  forall s ss' s2, map_st (stmt_step balias al F) stmts s = Ok (ss', s2) ->
    (fn_src -> forallb stmt_ok ss' = true) /\
    map fst (wits s2) = rev (flat_map (fun sm => wnames (snd sm)) ss') ++ map fst (wits s) /\
    (is_main = false -> flat_map (fun sm => wnames (snd sm)) ss' = []).
Proof.
  induction 1 as [|sm stmts [Hsm Hty] _ IH]; intros s ss' s2 H.
  - cbn in H. injection H as <- <-. auto.
  - cbn [map_st] in H. rb H. destruct a as [b s1']. rb H. destruct a as [bs sF]. injection H as <- <-.
    apply IH in E0 as (H4 & H5 & H6). cbn [forallb flat_map].
    assert (Hb : (fn_src -> stmt_ok b = true) /\ map fst (wits s1') = rev (wnames (snd b)) ++ map fst (wits s) /\
                 (is_main = false -> wnames (snd b) = [])).
    { destruct sm as [[[p a]|] e]; cbn [snd] in *; cbn [stmt_step] in E.
      - rb E. rename a0 into te. rb E. destruct a0 as [e' s1]. rb E. rename a0 into c. rb E. injection E as <- <-.
        pose proof (Hty _ _ _ _ E1) as Ht. apply Hsm in E1 as (H1 & H2 & H3). cbn [snd AnalyzeComplete.stmt_ok].
        split; [|split; [exact H2|exact H3]]. intros Hf. rewrite (H1 Hf), Ht. cbn [andb].
        unfold is_of_type in E2. destruct (pat_ctx p te); [|discriminate]. destruct (nodup_keys c0); [reflexivity|discriminate].
      - rb E. destruct a as [e' s1]. injection E as <- <-. apply Hsm in E0 as (H1 & H2 & H3). cbn [snd AnalyzeComplete.stmt_ok]. auto. }
    destruct Hb as (H1 & H2 & H3). split; [|split].
    + intros Hf. now rewrite H1, H4.
    + rewrite H5, H2, rev_app_distr, app_assoc. reflexivity.
    + intros Hm. now rewrite H3, H6.
Qed.
Lemma arm_img mp e : img_fn (F e) -> img_fn (arm_step balias al F mp e).
Proof.
  intros He t s e' s' H. unfold arm_step in H.
  rb H. rename a into s2. rb H. destruct a as [e1 s3]. rb H. injection H as <- <-.
  apply He in E0 as (H1 & H2 & H3). split; [exact H1|]. split; [|exact H3]. cbn [wits set_vars]. rewrite H2. f_equal.
  destruct (typed_var mp) as [[x a0]|].
  - rb E. rb E. injection E as <-. reflexivity.
  - injection E as <-. reflexivity.
Qed.
End ListsI.

(* the node built by a call plan *)
Lemma call_plan_img name cn t n tys pre post build :
  analyze_callname jlook balias al fn name = Ok cn -> call_plan jsig cn t n = Ok (tys, pre, post, build) ->
  forall as', wnames (build as') = flat_map wnames as' /\
              (fn_src -> forallb src_ok as' = true -> src_ok (build as') = true).
Proof.
  intros Hcn Hp as'. destruct name; cbn [analyze_callname] in Hcn.
  - destruct (jlook n0) as [j|] eqn:Ej; [|discriminate]. injection Hcn as <-. cbn [call_plan] in Hp.
    destruct (jsig j) as [[ps r]|]; [|discriminate].
    apply negb_if_ok in Hp as [_ Hp]. apply negb_if_ok in Hp as [_ Hp]. injection Hp as <- <- <- <-.
    split; [reflexivity|]. intros _ Ha. cbn [Erase.src_ok builtin_ok]. rewrite (Hjname _ _ Ej), N.eqb_refl. exact Ha.
  - rb Hcn. injection Hcn as <-. cbn [call_plan] in Hp. apply negb_if_ok in Hp as [_ Hp]. injection Hp as <- <- <- <-.
    split; [reflexivity|]. intros _ Ha. exact Ha.
  - rb Hcn. injection Hcn as <-. cbn [call_plan] in Hp. apply negb_if_ok in Hp as [_ Hp]. injection Hp as <- <- <- <-.
    split; [reflexivity|]. intros _ Ha. exact Ha.
  - rb Hcn. injection Hcn as <-. cbn [call_plan] in Hp. apply negb_if_ok in Hp as [_ Hp].
    apply negb_if_ok in Hp as [_ Hp]. injection Hp as <- <- <- <-. split; [reflexivity|]. intros _ Ha. exact Ha.
  - injection Hcn as <-. cbn [call_plan] in Hp. apply negb_if_ok in Hp as [_ Hp]. injection Hp as <- <- <- <-.
    split; [reflexivity|]. intros _ Ha. exact Ha.
  - injection Hcn as <-. cbn [call_plan] in Hp. apply negb_if_ok in Hp as [_ Hp].
    apply negb_if_ok in Hp as [_ Hp]. injection Hp as <- <- <- <-. split; [reflexivity|]. intros _ Ha. exact Ha.
  - injection Hcn as <-. cbn [call_plan] in Hp. apply negb_if_ok in Hp as [_ Hp]. injection Hp as <- <- <- <-.
    split; [reflexivity|]. intros _ Ha. exact Ha.
  - injection Hcn as <-. cbn [call_plan] in Hp. apply negb_if_ok in Hp as [_ Hp]. injection Hp as <- <- <- <-.
    split; [reflexivity|]. intros _ Ha. exact Ha.
  - rb Hcn. injection Hcn as <-. cbn [call_plan] in Hp. apply negb_if_ok in Hp as [_ Hp].
    apply negb_if_ok in Hp as [_ Hp]. injection Hp as <- <- <- <-. split; [reflexivity|]. intros _ Ha. exact Ha.
  - destruct (lookupN fn f) as [[ps body]|] eqn:Ef; [|discriminate]. injection Hcn as <-. cbn [call_plan] in Hp.
    apply negb_if_ok in Hp as [_ Hp]. apply negb_if_ok in Hp as [_ Hp]. injection Hp as <- <- <- <-.
    split; [reflexivity|]. intros Hf Ha. destruct (Hf _ _ _ Ef) as (H1 & H2 & H3).
    cbn [Erase.src_ok fkind_ok]. now rewrite H1, H2, H3, Ha.
  - destruct k as [|k]; [discriminate|].
    destruct (lookupN fn f) as [[ps body]|] eqn:Ef; [|discriminate].
    destruct ps as [|[x1 e1] [|[x2 a2] [|? ?]]]; try discriminate.
    destruct (ty_eqb a2 (ty_of body)); [|discriminate]. injection Hcn as <-. cbn [call_plan] in Hp.
    apply negb_if_ok in Hp as [_ Hp]. apply negb_if_ok in Hp as [_ Hp]. injection Hp as <- <- <- <-.
    split; [reflexivity|]. intros Hf Ha. destruct (Hf _ _ _ Ef) as (H1 & H2 & H3).
    cbn [Erase.src_ok fkind_ok]. now rewrite H1, H2, H3, Ha.
  - destruct (lookupN fn f) as [[ps body]|] eqn:Ef; [|discriminate].
    destruct ps as [|[x1 a1] [|[x2 c2] [|[x3 c3] [|? ?]]]]; try discriminate.
    destruct (ty_of body) as [b r| | | | | |]; try discriminate.
    destruct (ty_eqb r a1); [|discriminate].
    destruct c3 as [| | |w| | |]; try discriminate. destruct (Nat.leb w 4) eqn:Ew; [|discriminate].
    injection Hcn as <-. cbn [call_plan] in Hp.
    apply negb_if_ok in Hp as [_ Hp]. apply negb_if_ok in Hp as [_ Hp]. injection Hp as <- <- <- <-.
    split; [reflexivity|]. intros Hf Ha. destruct (Hf _ _ _ Ef) as (H1 & H2 & H3).
    cbn [Erase.src_ok fkind_ok]. now rewrite Ew, H1, H2, H3, Ha.
Qed.

Lemma AE_ty p t s e' s' : AE p t s = Ok (e', s') -> ty_of e' = t.
Proof. intros H. now apply (analyze_expr_sound jlook jsig balias (fun _ => None) (fun _ => None) al fn is_main p) in H. Qed.

Theorem analyze_expr_img e : img_fn (AE e).
Proof.
  induction e using pexpr_ind'; intros t s e' s' Heq; cbn [analyze_expr] in Heq.
  - (* block *)
    rb Heq. destruct a as [ss' s2]. rb Heq. destruct a as [last' s3]. rb Heq. injection Heq as <- <-.
    apply (stmts_img _ stmts) in E as (H1 & H2 & H3).
    2:{ eapply Forall_impl; [|exact H]. cbn beta. intros sm Hsm. split; [exact Hsm|].
        intros t0 s0 e0 s0' Ety. exact (AE_ty _ _ _ _ _ Ety). }
    assert (Hl : (fn_src -> match last' with Some l => src_ok l = true | None => True end) /\
                 map fst (wits s3) = rev (match last' with Some l => wnames l | None => [] end) ++ map fst (wits s2) /\
                 (is_main = false -> match last' with Some l => wnames l | None => [] end = [])).
    { destruct last as [l|].
      - rb E0. destruct a0 as [l' s3']. injection E0 as <- <-. cbn in H0. now apply H0 in E.
      - destruct (is_unit t); [|discriminate]. injection E0 as <- <-. auto. }
    destruct Hl as (H4 & H5 & H6). cbn [wits set_vars wnames]. split; [|split].
    + intros Hf. rewrite src_ok_block, (H1 Hf). specialize (H4 Hf). destruct last'; [now rewrite H4|reflexivity].
    + rewrite H5, H2, rev_app_distr, app_assoc. reflexivity.
    + intros Hm. now rewrite H3, H6.
  - destruct t; try discriminate. injection Heq as <- <-. auto.
  - rb Heq. injection Heq as <- <-. apply analyze_lit_img in E as [H1 H2]. rewrite H2. auto.
  - (* witness *)
    rb Heq. injection Heq as <- <-. unfold insert_witness in E. destruct is_main; cbn [negb] in E; [|discriminate].
    destruct (lookupN (wits s) n); [discriminate|]. injection E as <-. cbn [wits set_wits wnames map fst rev app].
    split; [auto|]. split; [reflexivity|discriminate].
  - (* parameter *)
    rb Heq. injection Heq as <- <-. unfold insert_parameter in E. destruct (lookupN (params s) n) as [t'|].
    + destruct (ty_eqb t' t); [|discriminate]. injection E as <-. auto.
    + injection E as <-. auto.
  - (* variable *)
    destruct (get_variable (vars s) x); [|discriminate]. destruct (negb (ty_eqb t t0)); [discriminate|].
    rb Heq. injection Heq as <- <-. auto.
  - rb Heq. destruct a as [e1 s1]. injection Heq as <- <-. now apply IHe in E.
  - destruct t; try discriminate. destruct (negb (Nat.eqb (length es) (length ts))); [discriminate|].
    rb Heq. destruct a as [es' s1]. injection Heq as <- <-. now apply (map2_img _ _ H) in E.
  - destruct t; try discriminate. destruct (negb (Nat.eqb (length es) n)); [discriminate|].
    rb Heq. destruct a as [es' s1]. injection Heq as <- <-. now apply (map2_img _ _ H) in E.
  - destruct t; try discriminate. destruct k; [discriminate|]. destruct (negb (lt_pow2 (S k) (length es))); [discriminate|].
    rb Heq. destruct a as [es' s1]. injection Heq as <- <-. now apply (map2_img _ _ H) in E.
  - destruct t; try discriminate. rb Heq. destruct a as [e1 s1]. injection Heq as <- <-. now apply IHe in E.
  - destruct t; try discriminate. rb Heq. destruct a as [e1 s1]. injection Heq as <- <-. now apply IHe in E.
  - destruct t; try discriminate. injection Heq as <- <-. auto.
  - destruct t; try discriminate. rb Heq. destruct a as [e1 s1]. injection Heq as <- <-. now apply IHe in E.
  - (* call *)
    rb Heq. rename a into cn. rb Heq. destruct a as [[[tys pre] post] build]. cbn zeta in Heq.
    rb Heq. destruct a as [args' s2]. injection Heq as <- <-.
    destruct (call_plan_img _ _ _ _ _ _ _ _ E E0 args') as [Hn Hs].
    apply (map2_img _ _ H) in E1 as (H1 & H2 & H3). rewrite Hn, track_opt_wits. rewrite track_opt_wits in H2. auto.
  - (* match *)
    rb Heq. rename a into sa. rb Heq. rename a into sty. rb Heq. destruct a as [sc' s1].
    rb Heq. destruct a as [el' s2]. rb Heq. destruct a as [er' s3]. injection Heq as <- <-.
    pose proof (AE_ty _ _ _ _ _ E1) as Hty.
    pose proof (scrutinee_resolve _ _ _ _ _ _ E E0) as Hs.
    apply IHe1 in E1 as (H1 & H2 & H3).
    apply (arm_img _ _ _ IHe2) in E2 as (H4 & H5 & H6). apply (arm_img _ _ _ IHe3) in E3 as (H7 & H8 & H9).
    cbn [wnames]. split; [|split].
    + intros Hf. cbn [Erase.src_ok]. rewrite (H1 Hf), (H4 Hf), (H7 Hf), Hty, !andb_true_r. unfold arm_var.
      destruct (typed_var lp) as [[xl tl]|]; destruct (typed_var rp) as [[xr tr]|]; cbn [option_map fst].
      * destruct Hs as (a & b & -> & _). reflexivity.
      * contradiction.
      * destruct Hs as (b & -> & _). reflexivity.
      * now rewrite Hs.
    + rewrite H8, H5, H2, !rev_app_distr, !app_assoc. reflexivity.
    + intros Hm. now rewrite H3, H6, H9.
Qed.
End ExprI.

(* ---------- items and the program ---------- *)
Definition g_src (g:genv) : Prop := fn_src (g_fn g).
Definition mains_ok (r:option expr) : Prop := match r with Some m => src_ok m = true | None => True end.
Definition mains_wits (r:option expr) : list N := match r with Some m => wnames m | None => [] end.

Lemma item_img it g r g' :
  analyze_item jlook jsig balias main_name it g = Ok (r, g') -> g_src g ->
  g_src g' /\ mains_ok r /\ map fst (g_wits g') = rev (mains_wits r) ++ map fst (g_wits g).
Proof.
  destruct it as [n a|name ps ret body|]; cbn [analyze_item]; intros H Hf.
  - rb H. injection H as <- <-. split; [exact Hf|split; [exact I|reflexivity]].
  - unfold analyze_function in H. destruct (negb (N.eqb name main_name)).
    + rb H. rename a into ps'. destruct (nodup_keys ps') eqn:End; cbn [negb] in H; [|discriminate].
      rb H. rename a into rt. cbn zeta in H. rb H. destruct a as [body' s1]. rb H.
      destruct (lookupN (g_fn g) name); [discriminate|]. injection H as <- <-.
      apply analyze_expr_img in E1 as (H1 & H2 & H3). specialize (H3 eq_refl). rewrite H3 in H2.
      split; [|split; [exact I|exact H2]].
      intros f ps0 body0. cbn [g_fn lookupN]. destruct (N.eqb f name); [|apply Hf].
      intros Hl. injection Hl as <- <-. auto.
    + destruct ps; [|discriminate]. rb H. cbn zeta in H. rb H. destruct a0 as [body' s1]. rb H. injection H as <- <-.
      apply analyze_expr_img in E0 as (H1 & H2 & _). split; [exact Hf|]. split; [exact (H1 Hf)|exact H2].
  - injection H as <- <-. split; [exact Hf|split; [exact I|reflexivity]].
Qed.

Lemma items_img p : forall g items g',
  map_st (analyze_item jlook jsig balias main_name) p g = Ok (items, g') -> g_src g ->
  Forall (fun m => src_ok m = true) (mains items) /\
  map fst (g_wits g') = rev (flat_map wnames (mains items)) ++ map fst (g_wits g).
Proof.
  induction p as [|it p IH]; intros g items g' H Hf; cbn [map_st] in H.
  - injection H as <- <-. split; [constructor|reflexivity].
  - rb H. destruct a as [r g1]. rb H. destruct a as [items1 g2]. injection H as <- <-.
    apply item_img in E as (Hf1 & Hr & Hw1); [|exact Hf]. apply IH in E0 as (Hs & Hw2); [|exact Hf1].
    destruct r as [m|]; cbn [mains mains_ok mains_wits flat_map] in *.
    + split; [constructor; assumption|]. rewrite Hw2, Hw1, rev_app_distr, app_assoc. reflexivity.
    + split; [exact Hs|]. rewrite Hw2, Hw1. reflexivity.
Qed.

Theorem analyze_image p main ps ws tr :
  analyze_program jlook jsig balias main_name p = Ok (main, ps, ws, tr) ->
  src_ok_main jlook jname main = true.
Proof.
  intros H. pose proof (params_wits_nodup _ _ _ _ _ _ _ _ _ H) as [_ Hnd].
  unfold analyze_program in H. rb H. destruct a as [items g].
  apply items_img in E as (Hs & Hw); [|intros f ps0 body0 Hl; discriminate].
  destruct (mains items) as [|m [|? ?]]; try discriminate. injection H as <- <- <- <-.
  inversion Hs as [|? ? Hm _]; subst. unfold src_ok_main. rewrite Hm. cbn [andb].
  cbn [flat_map genv0 g_wits map] in Hw. rewrite !app_nil_r in Hw. rewrite Hw in Hnd.
  apply NoDup_nodupN. apply NoDup_rev in Hnd. now rewrite rev_involutive in Hnd.
Qed.
End Image.
Print Assumptions analyze_image.

(* ====================================================================================== *)
(** * The front end accepts EXACTLY the well-typed programs that obey the static rules *)
Theorem accepts_exactly jlook jsig balias main_name jname W args main :
  (forall n j, jlook n = Some j -> jlook (jname j) = Some j) ->
  (exists p ps ws tr,
     analyze_program jlook jsig balias main_name p = Ok (main, ps, ws, tr) /\
     (forall n t, lookupN ws n = Some t -> W n = Some t) /\ args_consistent args ps)
  <->
  wt_program jsig W args main = true /\ src_ok_main jlook jname main = true.
Proof.
  intros Hj. split.
  - intros (p & ps & ws & tr & H & HW & Ha). split.
    + eapply analyze_sound; eassumption.
    + eapply analyze_image; eassumption.
  - intros [Hwt Hok].
    destruct (analyze_complete_canonical jlook jsig balias main_name W args jname (fun _ => 0%N) main Hwt Hok)
      as (ps & ws & tr & H). eauto.
Qed.
Print Assumptions accepts_exactly.

(* a typed AST that breaks a static rule is not the analysis of ANY parse tree *)
Corollary not_in_image jlook jsig balias main_name jname main :
  (forall n j, jlook n = Some j -> jlook (jname j) = Some j) ->
  src_ok_main jlook jname main = false ->
  forall p ps ws tr, analyze_program jlook jsig balias main_name p <> Ok (main, ps, ws, tr).
Proof. intros Hj Hs p ps ws tr H. apply (analyze_image _ _ _ _ _ Hj) in H. congruence. Qed.

(* ====================================================================================== *)
(** * Examples: the hypotheses are satisfiable, and the rules of [src_ok] are not implied by typing *)
Module CompleteExamples.
Import Analyze.Examples.
Local Open Scope N_scope.
(* jet index 7 (add_8) is printed as name id 100; all spans 0; main = 0; canonical function names *)
Definition jn (j:N) : N := 100.
Definition sp0 (e:expr) : N := 0.
Definition EP (m:expr) : pprogram := erase_program jn (fname_of 0 m) sp0 0 m.
Lemma jn_ok : forall n j, jl n = Some j -> jl (jn j) = Some j.
Proof. intros n j. unfold jl, jn. destruct (n =? 100); intros H; [injection H as <-; reflexivity|discriminate]. Qed.
Definition W1 : N -> option ty := lookupN [(60, TUInt 3)].
Definition args1 (n:N) : option value := if n =? 70 then Some (Value.AUInt 3 5) else None.

(* the typed AST of Analyze.Examples.ex_ok_shape: let with a tuple pattern, a call of a user function whose
   body calls a jet, a witness, assert!, a match on a bool, dbg!, a parameter *)
Definition main1 : expr :=
  EBlock TUnit
    [ (Some (PTup [PId 4; PId 5]),
       EFn (TTuple [TBool; TUInt 3]) KCustom [(1, TUInt 3); (2, TUInt 3)]
         (EBlock (TTuple [TBool; TUInt 3]) []
            (Some (ECall (TTuple [TBool; TUInt 3]) (BJet 7) [EVar (TUInt 3) 1; EVar (TUInt 3) 2])))
         [EConst (TUInt 3) (Value.AUInt 3 1); EWitness (TUInt 3) 60]);
      (None, ECall TUnit BAssert
               [EMatch TBool (EVar TBool 4) None (EConst TBool (Value.ABool true))
                                            None (EConst TBool (Value.ABool false))]);
      (Some (PId 7), ECall (TUInt 3) BDebug [EParam (TUInt 3) 70]) ] None.
Example main1_wt : wt_program js W1 args1 main1 = true. Proof. vm_compute. reflexivity. Qed.
Example main1_src_ok : src_ok_main jl jn main1 = true. Proof. vm_compute. reflexivity. Qed.
(* the erased program: the inlined function became item 1 *)
Example main1_erased : EP main1 =
  [ IFunction 1 [(1, u8); (2, u8)] (Some (PTree.ATuple [PTree.ABool; u8]))
      (PBlock [] (Some (PCall 0 (PJet 100) [PVar 1; PVar 2])));
    IFunction 0 [] None
      (PBlock
         [ (Some (PTup [PId 4; PId 5], PTree.ATuple [PTree.ABool; u8]),
            PCall 0 (PCustom 1) [PLit (LDec [49]); PWitness 60]);
           (None, PCall 0 PAssert [PMatch (PVar 4) MFalse (PBool true) MTrue (PBool false)]);
           (Some (PId 7, u8), PCall 0 PDebug [PParam 70]) ] None) ].
Proof. vm_compute. reflexivity. Qed.
(* erase, then analyse: the same typed AST *)
Example main1_roundtrip :
  A (EP main1) = Ok (main1, [(70, TUInt 3)], [(60, TUInt 3)], [(0, KJet); (0, KAssert); (0, KDebug (TUInt 3))]).
Proof. vm_compute. reflexivity. Qed.
(* the same by the theorem *)
Example main1_by_theorem : exists ps ws tr, A (EP main1) = Ok (main1, ps, ws, tr).
Proof.
  destruct (analyze_complete_canonical jl js ba 0 W1 args1 jn sp0 main1 main1_wt main1_src_ok) as (ps & ws & tr & H & _).
  eauto.
Qed.

(* the typed AST of Analyze.Examples.ex_ok_shape2: byte-array literal, Left, match on an Either with a cast
   in one arm, a list, unwrap_left in parentheses *)
Definition main2 : expr :=
  EBlock TUnit
    [ (Some (PId 7), EConst (TArray (TUInt 3) 2) (Value.AArray [Value.AUInt 3 1; Value.AUInt 3 255] (TUInt 3)));
      (Some (PId 11), ELeft (TEither (TUInt 3) (TUInt 4)) (EConst (TUInt 3) (Value.AUInt 3 2)));
      (Some (PId 12),
       EMatch (TUInt 4) (EVar (TEither (TUInt 3) (TUInt 4)) 11)
         (Some 1) (ECall (TUInt 4) (BCast (TTuple [TUInt 3; TUInt 3]))
                     [ETuple (TTuple [TUInt 3; TUInt 3]) [EVar (TUInt 3) 1; EVar (TUInt 3) 1]])
         (Some 2) (EVar (TUInt 4) 2));
      (Some (PId 13), EList (TList (TUInt 3) 2) [EConst (TUInt 3) (Value.AUInt 3 1); EConst (TUInt 3) (Value.AUInt 3 2)]);
      (Some (PId 14), EParen (ECall (TUInt 3) BUnwrapLeft [EVar (TEither (TUInt 3) (TUInt 4)) 11])) ] None.
Example main2_wt : wt_program js (fun _ => None) (fun _ => None) main2 = true. Proof. vm_compute. reflexivity. Qed.
Example main2_src_ok : src_ok_main jl jn main2 = true. Proof. vm_compute. reflexivity. Qed.
Example main2_roundtrip : A (EP main2) = Ok (main2, [], [], [(0, KUnwrapLeft (TEither (TUInt 3) (TUInt 4)))]).
Proof. vm_compute. reflexivity. Qed.

(* a source program with nested functions (one of them called twice), fold, for_while, a u128 literal, an array
   pattern, is_none, unwrap_right, unwrap, panic!, Some / None, a byte-array literal:
   analyse, erase the result, analyse again: the same typed AST, parameters and witnesses *)
Definition u128 := PTree.AUInt 7.
Definition p3 : pprogram :=
  [ IFunction 20 [(1, u8); (2, u16)] (Some u16) (body (PVar 2));
    IFunction 21 [(1, u8); (2, u8); (4, PTree.AUInt 4)] (Some (AEither u8 u8))
       (body (PMatch (PCall 1 (PIsNone u8) [PNone]) MFalse (PRight (PVar 1)) MTrue (PLeft (PVar 2))));
    IFunction 22 [(1, u8)] (Some u16) (body (PCall 2 (PFold 20 2) [PList [PVar 1; PVar 1]; PLit (LDec [48])]));
    main_of
     [ (Some (PId 30, u128), PLit (LHex (repeat 102 32)));
       (Some (PArr [PId 31; PIgn], PTree.AArray u16 2),
        PArray [PCall 3 (PCustom 22) [PWitness 60]; PCall 4 (PCustom 22) [PLit (LDec [55])]]);
       (Some (PId 32, AEither u8 u8), PCall 5 (PForWhile 21) [PParam 70; PLit (LDec [51])]);
       (Some (PId 33, AOption u8), PSome (PCall 6 (PUnwrapRight u8) [PVar 32]));
       (Some (PId 34, u8), PMatch (PVar 33) MNone (PCall 7 PPanic []) (MSome 35 u8) (PCall 8 PUnwrap [PSome (PVar 35)]));
       (Some (PId 36, PTree.AArray u8 2), PLit (LHex [48;49;70;102]));
       (None, PCall 9 PAssert [PBool true]) ] ].
Definition same (a b:expr) : bool := if expr_eq_dec a b then true else false.
Example p3_roundtrip :
  match A p3 with
  | Ok (m, ps, ws, _) =>
      match A (EP m) with
      | Ok (m', ps', ws', _) =>
          same m m' && wt_program js W1 args1 m && src_ok_main jl jn m
          && Nat.eqb (length (EP m)) 4        (* three function items (the twice-called one once) and main *)
      | _ => false end
  | _ => false end = true.
Proof. vm_compute. reflexivity. Qed.

(* ---------- typing alone does not imply the static rules: well-typed ASTs that no parse tree produces ---------- *)
Definition W2 : N -> option ty := lookupN [(60, TUInt 3)].
Definition no_args : N -> option value := fun _ => None.
Definition unit_block : expr := EBlock TUnit [] None.
Definition one : expr := EConst (TUInt 3) (Value.AUInt 3 1).
Definition rejected (jsig : N -> option (list ty * ty)) (m:expr) : Prop :=
  wt_program jsig W2 no_args m = true /\
  forall p ps ws tr, analyze_program jl jsig ba 0 p <> Ok (m, ps, ws, tr).
Ltac rej := split; [vm_compute; reflexivity|apply (not_in_image _ _ _ _ jn _ jn_ok); vm_compute; reflexivity].

(* R-wit-once: let x: u8 = witness::w60; let y: u8 = witness::w60; *)
Example wt_not_src_witness_twice :
  rejected js (EBlock TUnit [(Some (PId 6), EWitness (TUInt 3) 60); (Some (PId 7), EWitness (TUInt 3) 60)] None).
Proof. rej. Qed.
(* R-wit-fn: a witness inside a function other than main *)
Example wt_not_src_witness_in_fn :
  rejected js (EBlock TUnit [(Some (PId 6), EFn (TUInt 3) KCustom [] (EWitness (TUInt 3) 60) [])] None).
Proof. rej. Qed.
(* R-pat: let (x, x): (u8, u8) = (1, 1); *)
Example wt_not_src_dup_pattern :
  rejected js (EBlock TUnit [(Some (PTup [PId 6; PId 6]), ETuple (TTuple [TUInt 3; TUInt 3]) [one; one])] None).
Proof. rej. Qed.
(* R-param: fn f(a: u8, a: u8) -> u8 { a } *)
Example wt_not_src_dup_param :
  rejected js (EBlock TUnit [(Some (PId 6), EFn (TUInt 3) KCustom [(1, TUInt 3); (1, TUInt 3)] (EVar (TUInt 3) 1) [one; one])] None).
Proof. rej. Qed.
(* R-for: for_while with a u32 counter *)
Example wt_not_src_for_while_u32 :
  rejected js (EBlock TUnit
    [(Some (PId 6), EFn (TEither (TUInt 3) (TUInt 3)) (KFor 5) [(1, TUInt 3); (2, TUInt 3); (4, TUInt 5)]
                      (ERight (TEither (TUInt 3) (TUInt 3)) (EVar (TUInt 3) 1)) [one; one])] None).
Proof. rej. Qed.
(* R-arm: a Left arm without an identifier (WT.v allows [None] for every arm; the source syntax has no such pattern) *)
Example wt_not_src_arm_wildcard :
  rejected js (EBlock TUnit
    [(None, EMatch TUnit (ELeft (TEither (TUInt 3) (TUInt 3)) one) None unit_block (Some 2) unit_block)] None).
Proof. rej. Qed.
(* R-const: a constant that no literal denotes: the unit value, an Either value, an integer of 512 bits *)
Example wt_not_src_const_unit : rejected js (EBlock TUnit [(None, EConst TUnit (Value.ATuple []))] None).
Proof. rej. Qed.
Example wt_not_src_const_left :
  rejected js (EBlock TUnit [(Some (PId 6), EConst (TEither (TUInt 3) TBool) (Value.ALeft (Value.AUInt 3 1) TBool))] None).
Proof. rej. Qed.
Example wt_not_src_const_u512 : rejected js (EBlock TUnit [(Some (PId 6), EConst (TUInt 9) (Value.AUInt 9 0))] None).
Proof. rej. Qed.
(* R-jet: a jet that has a signature but no name (as verify / check_sig_verify) *)
Definition js2 (j:N) : option (list ty * ty) := if j =? 9 then Some ([], TUnit) else js j.
Example wt_not_src_unnamed_jet : rejected js2 (EBlock TUnit [(None, ECall TUnit (BJet 9) [])] None).
Proof. rej. Qed.
End CompleteExamples.

(* ---------- axioms used by the main theorems: none ---------- *)
Print Assumptions analyze_expr_complete.
Print Assumptions analyze_complete.
Print Assumptions analyze_complete_canonical.
Print Assumptions analyze_image.
Print Assumptions accepts_exactly.
