(* C07: structural values inhabit the structural type, and reconstruct inverts structural *)
From Coq Require Import List Arith NArith Lia Bool.
Import ListNotations.
Require Import SV.Base.Util SV.Base.BT SV.Base.BTLemmas SV.Simp.Core SV.Layout.Ty SV.Layout.Value SV.Proofs.LayoutLaws.

(* ---------- induction principles for the nested datatypes ---------- *)
Section TyInd.
Variable P : ty -> Prop.
Hypothesis HE : forall a b, P a -> P b -> P (TEither a b).
Hypothesis HO : forall a, P a -> P (TOption a).
Hypothesis HB : P TBool.
Hypothesis HU : forall k, P (TUInt k).
Hypothesis HT : forall ts, Forall P ts -> P (TTuple ts).
Hypothesis HA : forall a n, P a -> P (TArray a n).
Hypothesis HL : forall a k, P a -> P (TList a k).
Fixpoint ty_ind' (t:ty) : P t :=
  match t with
  | TEither a b => HE a b (ty_ind' a) (ty_ind' b)
  | TOption a => HO a (ty_ind' a)
  | TBool => HB
  | TUInt k => HU k
  | TTuple ts => HT ts ((fix go l : Forall P l := match l with [] => Forall_nil _ | x::l' => Forall_cons _ (ty_ind' x) (go l') end) ts)
  | TArray a n => HA a n (ty_ind' a)
  | TList a k => HL a k (ty_ind' a)
  end.
End TyInd.

Section ValInd.
Variable P : value -> Prop.
Hypothesis HLeft : forall v tr, P v -> P (ALeft v tr).
Hypothesis HRight : forall tl v, P v -> P (ARight tl v).
Hypothesis HNone : forall t, P (ANone t).
Hypothesis HSome : forall v, P v -> P (ASome v).
Hypothesis HBool : forall b, P (ABool b).
Hypothesis HUInt : forall k n, P (AUInt k n).
Hypothesis HTuple : forall vs, Forall P vs -> P (ATuple vs).
Hypothesis HArray : forall vs t, Forall P vs -> P (AArray vs t).
Hypothesis HList : forall vs t k, Forall P vs -> P (AList vs t k).
Fixpoint value_ind' (v:value) : P v :=
  let go := (fix go l : Forall P l := match l with [] => Forall_nil _ | x::l' => Forall_cons _ (value_ind' x) (go l') end) in
  match v with
  | ALeft v tr => HLeft v tr (value_ind' v)
  | ARight tl v => HRight tl v (value_ind' v)
  | ANone t => HNone t
  | ASome v => HSome v (value_ind' v)
  | ABool b => HBool b
  | AUInt k n => HUInt k n
  | ATuple vs => HTuple vs (go vs)
  | AArray vs t => HArray vs t (go vs)
  | AList vs t k => HList vs t k (go vs)
  end.
End ValInd.

Lemma ty_eqb_eq a : forall b, ty_eqb a b = true -> a = b.
Proof.
  induction a using ty_ind'; intros b0 E; destruct b0; cbn in E; try discriminate.
  - apply andb_true_iff in E as [E1 E2]. f_equal; auto.
  - f_equal; auto.
  - reflexivity.
  - apply Nat.eqb_eq in E. congruence.
  - f_equal. revert ts0 E. induction H as [|t ts Ht Hts IH]; intros [|u us] E; try discriminate; auto.
    apply andb_true_iff in E as [E1 E2]. f_equal; auto.
  - apply andb_true_iff in E as [E1 E2]. apply Nat.eqb_eq in E2. f_equal; auto.
  - apply andb_true_iff in E as [E1 E2]. apply Nat.eqb_eq in E2. f_equal; auto.
Qed.

(* ---------- integers ---------- *)
Fixpoint ubits (k:nat) (n:N) : list bool :=
  match k with
  | 0 => [N.odd n]
  | S k' => let w := N.of_nat (2^k') in ubits k' (N.shiftr n w) ++ ubits k' (N.land n (N.ones w))
  end.

Lemma ubits_length k : forall n, length (ubits k n) = 2^k.
Proof. induction k; intros n; cbn [ubits]; [reflexivity|]. rewrite app_length, !IHk. cbn [Nat.pow]. lia. Qed.

Lemma bt_pow2_app {A} (f:A->A->A) d j l1 l2 : length l1 = 2^j -> length l2 = 2^j ->
  bt f d (l1 ++ l2) = f (bt f d l1) (bt f d l2).
Proof.
  intros H1 H2. pose proof (pow2_pos j). apply bt_app; try lia.
  rewrite H1, H2. replace (2^j + 2^j) with (2^(S j)) by (cbn [Nat.pow]; lia). now rewrite half_pow2.
Qed.

Lemma uint_sval_bits k : forall n, uint_sval k n = bt VP VU (map sbit (ubits k n)).
Proof.
  induction k; intros n; cbn [uint_sval ubits]; [reflexivity|].
  rewrite map_app, (bt_pow2_app VP VU k) by (rewrite map_length; apply ubits_length).
  now rewrite !IHk.
Qed.

Lemma sbit_vty b : vty (sbit b) (SSum SUnit SUnit) = true. Proof. destruct b; reflexivity. Qed.
Lemma uint_sval_vty k : forall n, vty (uint_sval k n) (two_two_n k) = true.
Proof. induction k; intros n; cbn [uint_sval two_two_n]; [apply sbit_vty|]. cbn [vty]. now rewrite !IHk. Qed.

Lemma filter_bits_sbit bs : filter_bits (map sbit bs) = bs.
Proof. induction bs as [|[|] bs IH]; cbn; congruence. Qed.

Lemma bits_to_N_acc bs : forall acc, fold_left (fun acc (b:bool) => (2*acc + (if b then 1 else 0))%N) bs acc
   = (acc * 2^(N.of_nat (length bs)) + bits_to_N bs)%N.
Proof.
  unfold bits_to_N. induction bs as [|b bs IH]; intros acc.
  - cbn. lia.
  - cbn [fold_left length]. rewrite IH. rewrite (IH (2*0 + _)%N).
    rewrite Nat2N.inj_succ, N.pow_succ_r'. lia.
Qed.
Lemma bits_to_N_app l1 l2 : bits_to_N (l1 ++ l2) = (bits_to_N l1 * 2^(N.of_nat (length l2)) + bits_to_N l2)%N.
Proof. unfold bits_to_N at 1. rewrite fold_left_app. fold (bits_to_N l1). apply bits_to_N_acc. Qed.

Lemma ubits_value k : forall n, bits_to_N (ubits k n) = (n mod 2^(N.of_nat (2^k)))%N.
Proof.
  induction k; intros n.
  - cbn [ubits]. unfold bits_to_N. cbn [fold_left Nat.pow]. change (N.of_nat 1) with 1%N. rewrite N.pow_1_r.
    rewrite <- N.bit0_mod, N.bit0_odd. destruct (N.odd n); reflexivity.
  - cbn [ubits]. rewrite bits_to_N_app, ubits_length, !IHk.
    set (w := N.of_nat (2^k)).
    rewrite N.land_ones, N.shiftr_div_pow2.
    rewrite N.mod_mod by (apply N.pow_nonzero; lia).
    replace (N.of_nat (2^S k)) with (w + w)%N by (subst w; cbn [Nat.pow]; lia).
    rewrite N.pow_add_r.
    rewrite (N.mod_mul_r n (2^w) (2^w)) by (apply N.pow_nonzero; lia). lia.
Qed.

Lemma as_product_VP a b : as_product (VP a b) = Some (a,b). Proof. reflexivity. Qed.

Lemma uint_roundtrip k n : (n < 2 ^ N.of_nat (2^k))%N -> as_integer (uint_sval k n) k = Some n.
Proof.
  intros Hn. unfold as_integer. rewrite uint_sval_bits.
  replace (2^k) with (length (map sbit (ubits k n))) at 1 by (rewrite map_length; apply ubits_length).
  rewrite (bt_unfold_bt VP VU as_product as_product_VP).
  rewrite filter_bits_sbit, ubits_length, Nat.eqb_refl, ubits_value.
  now rewrite N.mod_small.
Qed.

(* ---------- blocks and partitions ---------- *)
Lemma vty_bt vs ss : Forall2 (fun v s => vty v s = true) vs ss -> vty (bt VP VU vs) (bt SProd SUnit ss) = true.
Proof.
  apply (bt_rel (fun v s => vty v s = true)); [reflexivity|].
  intros a b a' b' H1 H2. cbn. now rewrite H1, H2.
Qed.

Lemma F2_repeat {A B} (R:A->B->Prop) l x : Forall (fun a => R a x) l -> Forall2 R l (repeat x (length l)).
Proof. induction 1; cbn; constructor; auto. Qed.

Lemma sval_block_full l size : 1 <= length l -> sval_block l size = VR (bt VP VU l).
Proof. destruct l; cbn; [lia|reflexivity]. Qed.

Lemma vty_part T j : forall svs, Forall (fun v => vty v T = true) svs -> length svs < 2^(S j) ->
  vty (part_fold sval_block VP j svs) (part_fold sty_block SProd j (repeat T (2^(S j) - 1))) = true.
Proof.
  induction j; intros svs HF HL.
  - cbn [part_fold]. cbn in HL. destruct svs as [|x [|y svs]]; cbn in HL; try lia; cbn.
    + reflexivity.
    + inversion HF; subst. assumption.
  - cbn [part_fold]. rewrite repeat_length.
    pose proof (pow2_pos j).
    assert (E: 2 ^ S (S j) - 1 = 2^(S j) + (2^(S j) - 1)) by (cbn [Nat.pow]; lia).
    destruct (Nat.ltb_spec (2 ^ S (S j) - 1) (2 ^ S j)) as [Hlt|Hge]; [exfalso; lia|].
    rewrite firstn_repeat, skipn_repeat. rewrite Nat.min_l by (rewrite E; lia).
    replace (2 ^ S (S j) - 1 - 2 ^ S j) with (2 ^ S j - 1) by (rewrite E; lia).
    destruct (Nat.ltb_spec (length svs) (2^(S j))) as [Hl|Hg].
    + cbn [vty sval_block sty_block]. cbn [vty]. apply IHj; assumption.
    + assert (Hlen: length (firstn (2^(S j)) svs) = 2^(S j)) by (rewrite firstn_length; lia).
      rewrite sval_block_full by (pose proof (pow2_pos (S j)); lia). cbn [vty sty_block]. apply andb_true_iff. split.
      * apply vty_bt. rewrite <- Hlen at 2. apply F2_repeat.
        rewrite <- (firstn_skipn (2^(S j)) svs) in HF. apply Forall_app in HF. tauto.
      * apply IHj.
        -- rewrite <- (firstn_skipn (2^(S j)) svs) in HF. apply Forall_app in HF. tauto.
        -- rewrite skipn_length. cbn [Nat.pow] in *. lia.
Qed.

Lemma as_list_part j : forall l, length l < 2^(S j) -> as_list j (part_fold sval_block VP j l) = Some l.
Proof.
  induction j; intros l HL.
  - cbn in HL. destruct l as [|x [|y l]]; cbn in HL; try lia; reflexivity.
  - cbn [part_fold as_list].
    destruct (Nat.ltb_spec (length l) (2^(S j))) as [Hl|Hg].
    + cbn [as_product sval_block as_block as_option]. rewrite IHj by assumption. reflexivity.
    + assert (Hlen: length (firstn (2^(S j)) l) = 2^(S j)) by (rewrite firstn_length; lia).
      rewrite sval_block_full by (pose proof (pow2_pos (S j)); lia). cbn [as_product as_block as_option].
      rewrite <- Hlen at 1. rewrite (bt_unfold_bt VP VU as_product as_product_VP).
      rewrite IHj.
      * cbn. now rewrite firstn_skipn.
      * rewrite skipn_length. cbn [Nat.pow] in *. lia.
Qed.

(* ---------- the two theorems ---------- *)
Theorem structural_has_type v : value_wf v = true -> vty (structural v) (struct_ty (type_of v)) = true.
Proof.
  induction v using value_ind'; intros W; cbn [value_wf] in W; cbn [structural type_of struct_ty vty]; auto.
  - destruct b; reflexivity.
  - apply uint_sval_vty.
  - apply vty_bt. rewrite map_map. rewrite forallb_forall in W.
    induction H as [|x xs Hx Hxs IH]; cbn; constructor.
    + apply Hx, W; now left.
    + apply IH. intros y Hy; apply W; now right.
  - apply vty_bt. rewrite forallb_forall in W.
    rewrite <- (map_length structural vs) at 1. apply F2_repeat.
    apply Forall_forall. intros sv Hin. apply in_map_iff in Hin as (x & <- & Hx).
    specialize (W x Hx). apply andb_true_iff in W as [W1 W2]. apply ty_eqb_eq in W2. rewrite <- W2.
    rewrite Forall_forall in H. now apply H.
  - apply andb_true_iff in W as [W Wk]. apply andb_true_iff in W as [W Wl].
    apply Nat.ltb_lt in Wl. apply Nat.leb_le in Wk.
    replace (2^k - 1) with (2^(S (k-1)) - 1) by (replace (S (k-1)) with k by lia; reflexivity).
    apply vty_part.
    + rewrite forallb_forall in W. apply Forall_forall. intros sv Hin. apply in_map_iff in Hin as (x & <- & Hx).
      specialize (W x Hx). apply andb_true_iff in W as [W1 W2]. apply ty_eqb_eq in W2. rewrite <- W2.
      rewrite Forall_forall in H. now apply H.
    + rewrite map_length. replace (S (k-1)) with k by lia. exact Wl.
Qed.

Lemma mapM_recon t vs : Forall (fun v => reconstruct (type_of v) (structural v) = Some v /\ type_of v = t) vs ->
  mapM (reconstruct t) (map structural vs) = Some vs.
Proof. induction 1 as [|x xs [Hx Ht] Hxs IH]; cbn; [reflexivity|]. rewrite <- Ht at 1. now rewrite Hx, IH. Qed.

Theorem reconstruct_structural v : value_wf v = true -> reconstruct (type_of v) (structural v) = Some v.
Proof.
  induction v using value_ind'; intros W; cbn [value_wf] in W; cbn [structural type_of reconstruct].
  - now rewrite IHv.
  - now rewrite IHv.
  - reflexivity.
  - cbn [as_option]. now rewrite IHv.
  - destruct b; reflexivity.
  - apply N.ltb_lt in W. now rewrite uint_roundtrip.
  - replace (length (map type_of vs)) with (length (map structural vs)) by (now rewrite !map_length).
    rewrite (bt_unfold_bt VP VU as_product as_product_VP).
    rewrite forallb_forall in W.
    match goal with |- option_map _ ?X = _ => assert (E: X = Some vs) end.
    { induction H as [|x xs Hx Hxs IH]; cbn [map]; [reflexivity|].
      rewrite Hx by (apply W; now left). rewrite IH by (intros y Hy; apply W; now right). reflexivity. }
    now rewrite E.
  - rewrite <- (map_length structural vs).
    rewrite (bt_unfold_bt VP VU as_product as_product_VP).
    rewrite forallb_forall in W.
    rewrite (mapM_recon t vs); [reflexivity|].
    apply Forall_forall. intros x Hx. specialize (W x Hx). apply andb_true_iff in W as [W1 W2].
    split; [|now apply ty_eqb_eq]. rewrite Forall_forall in H. now apply H.
  - apply andb_true_iff in W as [W Wk]. apply andb_true_iff in W as [W Wl].
    apply Nat.ltb_lt in Wl. apply Nat.leb_le in Wk.
    rewrite as_list_part by (rewrite map_length; replace (S (k-1)) with k by lia; exact Wl).
    rewrite forallb_forall in W.
    rewrite (mapM_recon t vs); [reflexivity|].
    apply Forall_forall. intros x Hx. specialize (W x Hx). apply andb_true_iff in W as [W1 W2].
    split; [|now apply ty_eqb_eq]. rewrite Forall_forall in H. now apply H.
Qed.
