(* C09: the task-stack construction of for_while and its semantics *)
From Coq Require Import List Arith NArith Lia Bool.
Import ListNotations.
Require Import SV.Base.BT SV.Simp.Core SV.Layout.Ty SV.Layout.Value SV.Comp.ForWhile SV.Lang.Sem.

(* ---------- the stack equals its recursive description ---------- *)
Fixpoint seq_tasks (n:nat) : list task := match n with 0 => [F0] | S m => seq_tasks m ++ seq_tasks m ++ [Adapt] end.

Lemma seq_len n : length (seq_tasks n) = 2 * 2^n - 1.
Proof. induction n; cbn [seq_tasks]; [reflexivity|]. rewrite !app_length, IHn. cbn [length Nat.pow].
  assert (0 < 2^n) by (apply Nat.neq_0_lt_0, Nat.pow_nonzero; lia). lia. Qed.

Lemma firstn_app_exact {A} (a b:list A) n : n = length a -> firstn n (a ++ b) = a.
Proof. intros ->. rewrite firstn_app, Nat.sub_diag, firstn_O, app_nil_r. apply firstn_all. Qed.
Lemma skipn_app_ge {A} (a b:list A) n : length a <= n -> skipn n (a ++ b) = skipn (n - length a) b.
Proof. intros H. rewrite skipn_app, skipn_all2 by lia. reflexivity. Qed.
Lemma skipn_rep {A} (x:A) k r : skipn k (repeat x r) = repeat x (r - k).
Proof. revert r; induction k; intros r; cbn; [now rewrite Nat.sub_0_r|]. destruct r; cbn; auto. Qed.

Lemma stack_step_seq j rest : 1 <= j -> 2^j <= rest ->
  stack_step (2^j - 1) (seq_tasks (j-1) ++ repeat F0 rest) = seq_tasks j ++ repeat F0 (rest - 2^j).
Proof.
  intros Hj Hr. unfold stack_step, set_nth.
  set (S1 := seq_tasks (j-1)).
  assert (P: 0 < 2^j) by (apply Nat.neq_0_lt_0, Nat.pow_nonzero; lia).
  assert (L: length S1 = 2^j - 1).
  { subst S1. rewrite seq_len. destruct j; [lia|]. cbn [Nat.pow]. replace (S j - 1) with j by lia. lia. }
  rewrite (firstn_app_exact S1 _ (2^j-1)) by lia.
  rewrite (skipn_app_ge S1) by lia. rewrite skipn_rep.
  set (R := repeat F0 (rest - (2 * (2 ^ j - 1) - length S1))).
  assert (L2: length (S1 ++ S1) = 2 * (2^j - 1)) by (rewrite app_length; lia).
  rewrite app_assoc.
  rewrite (firstn_app_exact (S1 ++ S1)) by lia.
  rewrite (skipn_app_ge (S1 ++ S1)) by lia. subst R. rewrite skipn_rep.
  destruct j as [|j']; [lia|]. cbn [seq_tasks]. subst S1. replace (S j' - 1) with j' in * by lia.
  rewrite <- !app_assoc. cbn [app]. do 3 f_equal. f_equal. lia.
Qed.

Lemma stack_loop_seq iters : forall j rest, 1 <= j ->
  rest = 2 * 2^(j-1+iters) - 1 - (2 * 2^(j-1) - 1) ->
  stack_loop iters j (seq_tasks (j-1) ++ repeat F0 rest) = seq_tasks (j-1+iters).
Proof.
  induction iters as [|m IHm]; intros j rest Hj Hrest.
  - cbn [stack_loop]. rewrite Nat.add_0_r in *. replace rest with 0 by lia. cbn. now rewrite app_nil_r.
  - cbn [stack_loop].
    assert (P: 0 < 2^(j-1)) by (apply Nat.neq_0_lt_0, Nat.pow_nonzero; lia).
    assert (E: 2^j = 2 * 2^(j-1)) by (destruct j; [lia|]; cbn [Nat.pow]; replace (S j - 1) with j by lia; lia).
    assert (Q: 2^(j-1+S m) = 2 * 2^(j-1+m)) by (replace (j-1+S m) with (S (j-1+m)) by lia; reflexivity).
    assert (R: 2^(j-1) <= 2^(j-1+m)) by (apply Nat.pow_le_mono_r; lia).
    rewrite stack_step_seq by lia.
    assert (Q2: 2^(j+m) = 2 * 2^(j-1+m)) by (replace (j+m) with (S (j-1+m)) by lia; reflexivity).
    specialize (IHm (S j) (rest - 2^j)).
    replace (S j - 1) with j in IHm by lia.
    rewrite IHm; [f_equal; lia | lia |]. lia.
Qed.

Theorem build_stack_spec n : build_stack n = seq_tasks n.
Proof.
  unfold build_stack.
  assert (P: 0 < 2^n) by (apply Nat.neq_0_lt_0, Nat.pow_nonzero; lia).
  pose proof (stack_loop_seq n 1 (2*2^n-2)) as H. cbn [Nat.sub Nat.add seq_tasks app] in H.
  replace (2 * 2^n - 1) with (S (2*2^n-2)) by lia. cbn [repeat].
  apply H; [lia|]. cbn. lia.
Qed.

(* ---------- semantics ---------- *)
Section S.
Variable jet : N -> sval -> option sval.
Variable wit : N -> option sval.
Notation ev := (eval jet wit).

Fixpoint FW (n:nat) (f:term) : term := match n with 0 => fw0 f | S m => FW m (FW m (adapt f)) end.

Lemma apply_stack_app a b f : apply_stack (a ++ b) f = apply_stack a (apply_stack b f).
Proof. unfold apply_stack. rewrite rev_app_distr, fold_left_app. reflexivity. Qed.

Lemma apply_seq n : forall f, apply_stack (seq_tasks n) f = FW n f.
Proof. induction n; intros f; cbn [seq_tasks FW]; [reflexivity|].
  rewrite !apply_stack_app, !IHn. reflexivity. Qed.

Lemma for_while_FW n f : for_while n f = FW n f.
Proof. unfold for_while. rewrite build_stack_spec. apply apply_seq. Qed.

(* counter value: the 2^n-bit big-endian number i *)
Fixpoint cnt (n:nat) (i:nat) : sval :=
  match n with 0 => if Nat.eqb (i mod 2) 0 then VL VU else VR VU
  | S m => VP (cnt m (i / 2^(2^m))) (cnt m (i mod 2^(2^m))) end.

Lemma loop_add G k1 : forall k2 i a,
  loop G (k1 + k2) i a = match loop G k1 i a with Val (VR a') => loop G k2 (i + k1) a' | r => r end.
Proof.
  induction k1; intros k2 i a; cbn [loop Nat.add]. { now rewrite Nat.add_0_r. }
  destruct (G a i) as [[| b | a' | ? ?]| |]; auto.
  rewrite IHk1. replace (S i + k1) with (i + S k1) by lia. reflexivity.
Qed.

Lemma loop_not_unit G K : forall i a, loop G K i a <> Val VU.
Proof. induction K; intros i a; cbn [loop]; [discriminate|]. destruct (G a i) as [[| | |]| |]; try discriminate. apply IHK. Qed.
Lemma loop_not_pair G K x y : forall i a, loop G K i a <> Val (VP x y).
Proof. induction K; intros i a; cbn [loop]; [discriminate|]. destruct (G a i) as [[| | |]| |]; try discriminate. apply IHK. Qed.

(* nested loops = a single loop *)
Lemma loop_nest (G:sval->nat->out) K : 0 < K -> forall kh h a,
  loop (fun a hi => loop (fun a lo => G a (hi*K+lo)) K 0 a) kh h a = loop G (kh*K) (h*K) a.
Proof.
  intros HK. induction kh; intros h a; cbn [loop Nat.mul]; auto.
  rewrite loop_add.
  assert (E: forall k lo a, loop (fun a lo => G a (h*K+lo)) k lo a = loop G k (h*K+lo) a).
  { induction k; intros lo a0; cbn [loop]; auto. destruct (G a0 (h*K+lo)) as [[| | a' |]| |]; auto.
    rewrite IHk. f_equal. lia. }
  rewrite E, Nat.add_0_r.
  destruct (loop G K (h*K) a) as [[| b | a' | x y]| |] eqn:EL; auto.
  - exfalso. eapply loop_not_unit; eauto.
  - rewrite IHkh. f_equal. cbn. lia.
  - exfalso. eapply loop_not_pair; eauto.
Qed.

(* What the generated code computes exactly: every iteration but the very last one has its result
   inspected (a non-sum there gets stuck); the result of the last iteration is passed through unexamined. *)
Fixpoint loopU (G:sval->nat->out) (k:nat) (i:nat) (a:sval) : out :=
  match k with
  | 0 => Val (VR a)
  | S k' => match k' with
      | 0 => G a i
      | S _ => match G a i with
               | Val (VL b) => Val (VL b)
               | Val (VR a') => loopU G k' (S i) a'
               | Val _ => Stuck | Failed => Failed | Stuck => Stuck end
      end
  end.

Definition check (o:out) : out :=
  match o with Val (VL _) | Val (VR _) => o | Val _ => Stuck | _ => o end.

Lemma loopU_step G k i a : loopU G (S (S k)) i a =
  match G a i with Val (VL b) => Val (VL b) | Val (VR a') => loopU G (S k) (S i) a' | Val _ => Stuck | Failed => Failed | Stuck => Stuck end.
Proof. reflexivity. Qed.

Lemma loopU_one G i a : loopU G 1 i a = G a i.
Proof. reflexivity. Qed.

Lemma loop_check G k : forall i a, loop G (S k) i a = check (loopU G (S k) i a).
Proof.
  induction k; intros i a.
  - cbn [loop loopU]. destruct (G a i) as [[| | |]| |]; reflexivity.
  - rewrite loopU_step. cbn [loop]. destruct (G a i) as [[| b | a' |]| |]; try reflexivity. apply IHk.
Qed.

Lemma loopU_add G k1 : forall k2 i a,
  loopU G (k1 + S k2) i a = match loop G k1 i a with Val (VR a') => loopU G (S k2) (i + k1) a' | r => r end.
Proof.
  induction k1; intros k2 i a.
  - cbn [Nat.add loop]. now rewrite Nat.add_0_r.
  - replace (S k1 + S k2) with (S (S (k1 + k2))) by lia. rewrite loopU_step. cbn [loop].
    destruct (G a i) as [[| b | a' | ? ?]| |]; auto.
    replace (S (k1 + k2)) with (k1 + S k2) by lia. rewrite IHk1.
    replace (S i + k1) with (i + S k1) by lia. reflexivity.
Qed.

Lemma loopU_shift G h K : forall k lo a, loopU (fun a lo => G a (h*K+lo)) k lo a = loopU G k (h*K+lo) a.
Proof.
  induction k as [|k IH]; intros lo a; [reflexivity|].
  destruct k as [|k]; [reflexivity|]. rewrite !loopU_step.
  destruct (G a (h*K+lo)) as [[| | a' |]| |]; auto. rewrite IH. f_equal. lia.
Qed.

Lemma loopU_ext G1 G2 k : forall i a, (forall a j, i <= j < i + k -> G1 a j = G2 a j) -> loopU G1 k i a = loopU G2 k i a.
Proof.
  induction k as [|k IH]; intros i a E; [reflexivity|].
  destruct k as [|k]; [cbn; apply E; lia|]. rewrite !loopU_step. rewrite E by lia.
  destruct (G2 a i) as [[| | a' |]| |]; auto. apply IH; intros; apply E; lia.
Qed.

(* nested loops = a single loop *)
Lemma loopU_nest (G:sval->nat->out) K : forall kh h a,
  loopU (fun a hi => loopU (fun a lo => G a (hi*(S K)+lo)) (S K) 0 a) (S kh) h a = loopU G (S kh * S K) (h * S K) a.
Proof.
  induction kh; intros h a.
  - rewrite loopU_one. rewrite loopU_shift. rewrite Nat.mul_1_l, Nat.add_0_r. reflexivity.
  - rewrite loopU_step.
    replace (S (S kh) * S K) with (S K + S (kh * S K + K)) by lia.
    rewrite loopU_add. rewrite loop_check.
    rewrite loopU_shift, Nat.add_0_r.
    destruct (loopU G (S K) (h * S K) a) as [[| b | a' | x y]| |] eqn:EL; cbn [check]; auto.
    rewrite IHkh. f_equal; lia.
Qed.

Lemma fw0_sem f a c :
  ev (fw0 f) (VP a c) = loopU (fun a i => ev f (VP a (VP c (cnt 0 i)))) 2 0 a.
Proof.
  rewrite loopU_step. cbn [loopU].
  unfold fw0, cnt. change (0 mod 2) with 0. change (1 mod 2) with 1. cbn [Nat.eqb].
  cbn [eval OH IH bit_false bit_true bind].
  destruct (ev f (VP a (VP c (VL VU)))) as [r0| |]; cbn [bind eval]; try reflexivity.
Qed.

Lemma adapt_sem f a c hi lo : ev (adapt f) (VP a (VP (VP c hi) lo)) = ev f (VP a (VP c (VP hi lo))).
Proof. reflexivity. Qed.

Lemma pow_pos k : 0 < 2^k. Proof. apply Nat.neq_0_lt_0, Nat.pow_nonzero; lia. Qed.

Lemma cnt_split n hi lo : lo < 2^(2^n) -> cnt (S n) (hi * 2^(2^n) + lo) = VP (cnt n hi) (cnt n lo).
Proof. intros H. cbn [cnt]. pose proof (pow_pos (2^n)).
  rewrite Nat.div_add_l, Nat.div_small, Nat.add_0_r by lia.
  rewrite Nat.add_comm, Nat.mod_add, Nat.mod_small by lia. reflexivity. Qed.

(* unconditional: what for_while computes *)
Theorem FW_sem n : forall f a c,
  ev (FW n f) (VP a c) = loopU (fun a i => ev f (VP a (VP c (cnt n i)))) (2^(2^n)) 0 a.
Proof.
  induction n as [|n IHn]; intros f a c.
  - apply fw0_sem.
  - cbn [FW]. rewrite IHn.
    set (K := 2^(2^n)).
    assert (HK: 0 < K) by apply pow_pos.
    replace (2^(2^(S n))) with (K*K).
    2:{ subst K. rewrite <- Nat.pow_add_r. f_equal. cbn [Nat.pow]. lia. }
    destruct K as [|K'] eqn:EK; [lia|].
    pose proof (loopU_nest (fun a i => ev f (VP a (VP c (cnt (S n) i)))) K' K' 0 a) as H.
    rewrite Nat.mul_0_l in H. rewrite <- H.
    apply loopU_ext. intros a0 hi _.
    rewrite IHn. fold K. rewrite EK.
    apply loopU_ext. intros a1 lo Hlo. rewrite adapt_sem. rewrite <- EK. subst K.
    rewrite cnt_split by lia. reflexivity.
Qed.

(* the counter is the integer value i at type u(2^n) *)
Lemma cnt_uint n : forall i, cnt n i = uint_sval n (N.of_nat i).
Proof.
  induction n; intros i.
  - cbn [cnt uint_sval sbit].
    assert (E: N.odd (N.of_nat i) = negb (Nat.eqb (i mod 2) 0)).
    { rewrite <- N.bit0_odd. pose proof (N.bit0_mod (N.of_nat i)) as B.
      assert (M: (N.of_nat i mod 2 = N.of_nat (i mod 2))%N) by (rewrite Nat2N.inj_mod; reflexivity).
      pose proof (Nat.mod_upper_bound i 2 ltac:(lia)).
      destruct (N.testbit (N.of_nat i) 0); cbn in B; destruct (Nat.eqb_spec (i mod 2) 0); cbn; auto; lia. }
    rewrite E. destruct (Nat.eqb (i mod 2) 0); reflexivity.
  - cbn [cnt uint_sval]. rewrite !IHn. f_equal; f_equal.
    + rewrite N.shiftr_div_pow2. rewrite Nat2N.inj_div, Nat2N.inj_pow. reflexivity.
    + rewrite N.land_ones. rewrite Nat2N.inj_mod, Nat2N.inj_pow. reflexivity.
Qed.

Theorem for_while_exact n f a c :
  ev (for_while n f) (VP a c) = loopU (fun a i => ev f (VP a (VP c (uint_sval n (N.of_nat i))))) (2^(2^n)) 0 a.
Proof.
  rewrite for_while_FW, FW_sem.
  apply loopU_ext. intros a0 j _. now rewrite cnt_uint.
Qed.
End S.

(* loopU coincides with the checked loop when every produced result is a sum (which typing guarantees) *)
Lemma loopU_eq_loop G k : (forall a i, match G a i with Val (VL _) | Val (VR _) => True | Val _ => False | _ => True end) ->
  forall i a, loopU G (S k) i a = loop G (S k) i a.
Proof.
  intros Hs. induction k; intros i a.
  - cbn [loopU loop]. specialize (Hs a i). destruct (G a i) as [[| | |]| |]; try contradiction; reflexivity.
  - rewrite loopU_step. cbn [loop]. specialize (Hs a i). destruct (G a i) as [[| | |]| |]; try contradiction; try reflexivity. apply IHk.
Qed.
