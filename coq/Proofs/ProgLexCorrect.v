(* Correctness of the lexer Text/ProgLex.v against the program printer model Text/ProgPrint.v: the printed
   TEXT, read character by character, gives back exactly the tokens of the layout -- the printer never fuses
   two tokens, never splits one, and never writes a name / keyword / number in a way that lexes differently.

   Everything is stated for an arbitrary spelling [ns : N -> list N] and an arbitrary interning function
   [intern : list N -> N] (Section variables; there are NO Section hypotheses).  What is needed of them is
   part of the decidable predicate [name_ok ns intern t] on the tokens that carry a name:
       TIdent n             ident_ok (ns n), ns n is not in [reserved_words], intern (ns n) = n
       TBuiltin n           ns n is one of [builtin_alias_names],            intern (ns n) = n
       TJet n               jetname_ok (ns n),                               intern (ns n) = n
       TWitness n, TParam n ident_ok (ns n),                                 intern (ns n) = n
   [names_ok ns intern l] = all tokens of the layout l, [prog_names_ok ns intern p] = all tokens of
   [tokens_program p] (= the tokens of [lay_program p]).

   Part 1  characters, words, [skip_trivia]
   Part 2  one token: [scan1] reads the spelling of a token followed by text that does not continue it
             scan1_tok
   Part 3  a layout: [scan] reads [render ns l] as the raw forms of its tokens       scan_render
           [resolve] turns the raw forms back into the tokens                        resolve_generic
           (a)  lex_render :
                  sep_ok l = true -> names_ok ns intern l = true -> ctx_ok (toks_of l) = true ->
                  lex intern (render ns l) = Some (toks_of l)
                [sep_ok]  no two adjacent tokens fuse, whitespace items are non-empty WHITESPACE
                [ctx_ok]  literals are digit strings of their class, u-types are u1 .. u256, array sizes / list
                          bounds stand in their windows and decimal literals do not, `mod` is followed by
                          a module name (the context the two-phase lexer looks at, see Text/ProgLex.v)
   Part 4  the printer never puts two tokens that would fuse next to each other
           (b)  lay_program_sep_ok : prog_wf p = true -> sep_ok (lay_program p) = true
                (true of every tree: lay_program_sep_ok_all)
   Part 5  numbers and literals of a well-formed tree are in their context
                tokens_program_ctx_ok : prog_wf p = true -> ctx_ok (tokens_program p) = true
   Part 6  (c)  print_parse_text :
                  prog_wf p = true -> prog_names_ok ns intern p = true ->
                  parse_text intern (print_program ns p) = Some (erase_program p)
                print_lex, print_parse_text_sp0, print_text_injective
   Part 7  examples (texts of the real printer), the need for [names_ok], Print Assumptions

   FINDING recorded in Part 7 (names_ok_needed): Left / Right / Some are legal function names, and
   `Left (1)` (with a space) is a call of the function Left; the printer writes it back as `Left(1)`, which
   is the expression Left(1) (confirmed on the real parser / printer: parse, print, parse gives a different
   tree).  This is why these three words are in [reserved_words]; the other reserved words are there because
   the lexer is context free (Text/ProgLex.v, CONTEXT DEPENDENCE (3)), not because of the printer. *)
From Coq Require Import List Arith NArith Bool Lia.
From Coq Require String Ascii.
From Coq Require Import ZifyBool ZifyNat ZifyN.
Require Import SV.Layout.Ty SV.Text.Literal SV.Text.TyPrint SV.Text.ValParse.
Require Import SV.Proofs.U256Correct SV.Proofs.PrintCorrect.
Require Import SV.Lang.Ast SV.Front.PTree SV.Text.ProgPrint SV.Proofs.ProgPrintCorrect SV.Text.ProgLex.
Require SV.Gen.Aliases.
Import ListNotations.
Local Open Scope N_scope.

(** * Part 1: characters and words *)

Lemma leqb_eq : forall a b, leqb a b = true <-> a = b.
Proof.
  induction a as [|x a IH]; intros [|y b]; cbn [leqb]; split; intros H; try reflexivity; try discriminate.
  - apply andb_prop in H as [H1 H2]. apply N.eqb_eq in H1. apply IH in H2. now subst.
  - inversion H; subst. rewrite N.eqb_refl. now apply IH.
Qed.

Lemma leqb_refl : forall a, leqb a a = true.
Proof. intros a. now apply leqb_eq. Qed.

Lemma mem_In : forall w l, mem w l = true -> In w l.
Proof.
  intros w l H. unfold mem in H. apply existsb_exists in H as (x & Hin & Hx). apply leqb_eq in Hx. now subst.
Qed.

Lemma digit_not_alpha : forall c, is_digit c = true -> is_alpha c = false.
Proof. unfold is_digit, is_alpha. intros c H. lia. Qed.

Lemma alpha_ident : forall c, is_alpha c = true -> is_ident_char c = true.
Proof. unfold is_ident_char. intros c H. rewrite H. now rewrite orb_true_r. Qed.

Lemma nonident_facts : forall c, is_ident_char c = false ->
  is_alpha c = false /\ is_digit c = false /\ c <> 95 /\ c <> 98 /\ c <> 120.
Proof. unfold is_ident_char, is_digit, is_alpha. intros c H. lia. Qed.

Lemma digit_facts : forall c, is_digit c = true ->
  is_ident_char c = true /\ is_dec_body c = true /\ is_hex_body c = true /\ c <> 95 /\ c <> 98 /\ c <> 120.
Proof. unfold is_ident_char, is_dec_body, is_hex_body, is_hex_digit, is_digit. intros c H. lia. Qed.

Lemma forallb_Forall : forall {A} (f : A -> bool) l, forallb f l = true -> Forall (fun x => f x = true) l.
Proof. intros A f l H. apply Forall_forall. intros x Hx. exact (forallb_In f l x H Hx). Qed.

Lemma strip_us_id : forall s, Forall (fun c => c <> 95) s -> strip_us s = s.
Proof.
  intros s H. induction H as [|c s Hc _ IH]; [reflexivity|]. unfold strip_us in *. cbn [filter].
  destruct (c =? 95) eqn:E; [apply N.eqb_eq in E; contradiction|]. cbn [negb]. now rewrite IH.
Qed.

Lemma has_us_false : forall s, Forall (fun c => c <> 95) s -> has_us s = false.
Proof.
  intros s H. induction H as [|c s Hc _ IH]; [reflexivity|]. unfold has_us in *. cbn [existsb].
  rewrite IH. destruct (c =? 95) eqn:E; [apply N.eqb_eq in E; contradiction|reflexivity].
Qed.

(** ** whitespace and comments *)

Lemma skip_trivia_ws : forall w s, forallb is_ws w = true -> skip_trivia TNorm (w ++ s) = skip_trivia TNorm s.
Proof.
  induction w as [|c w IH]; intros s H; [reflexivity|]. cbn [forallb] in H. apply andb_prop in H as [Hc Hw].
  cbn [app skip_trivia]. rewrite Hc. now apply IH.
Qed.

Lemma skip_trivia_tok : forall c s, is_ws c = false -> c <> 47 -> skip_trivia TNorm (c :: s) = Some (c :: s).
Proof.
  intros c s Hws Hc. cbn [skip_trivia]. rewrite Hws. destruct (c =? 47) eqn:E; [apply N.eqb_eq in E; contradiction|].
  reflexivity.
Qed.

(** * Part 2: one token *)

(* what [scan] produces for a token: the context-dependent tokens in their raw form *)
Definition generic (ns : N -> list N) (t : tok) : rtok :=
  match t with
  | TModName w => RWordWP w
  | TNum n => RDigits (dec_N n)
  | TDec s => RDigits s
  | TIdent n =>
      if leqb (ns n) k_witness then RWordWP true
      else if leqb (ns n) k_param then RWordWP false
      else RT t
  | _ => RT t
  end.

(* the first character of the text after a token whose spelling ends in the way k *)
Definition follow1 (k : tail_kind) (c : N) : Prop :=
  match k with
  | KW => is_ident_char c = false /\ c <> 33 /\ c <> 60       (* not a word character, not `!`, not `<` *)
  | KEq => c <> 62
  | KGt => c <> 58
  | KColon => c <> 58
  | KP => True
  end.

(* the text after a token: its first character, and after a word no `::` *)
Definition follow (k : tail_kind) (rest : list N) : Prop :=
  match rest with
  | [] => True
  | c :: r => follow1 k c /\ (k = KW -> c = 58 -> match r with d :: _ => d <> 58 | [] => True end)
  end.

(* the first character of a token whose spelling begins in the way h *)
Definition head_char (h : head_kind) (c : N) : Prop :=
  match h with
  | HW => is_ident_char c = true
  | HGt => c = 62
  | HColon => c = 58
  | HLt => c = 60
  | HP => is_ident_char c = false /\ c <> 58 /\ c <> 62 /\ is_ws c = false /\ c <> 47 /\ c <> 33 /\ c <> 60
  end.

Lemma head_char_start : forall h c, head_char h c -> is_ws c = false /\ c <> 47.
Proof.
  intros [] c H; cbn [head_char] in H; try (subst; split; [reflexivity|discriminate]).
  - unfold is_ident_char, is_digit, is_alpha in H. unfold is_ws. lia.
  - tauto.
Qed.

(* two tokens that may be adjacent: the first character of the second does not continue the first *)
Lemma adj_follow : forall a b c, adj_ok a b = true -> head_char (tok_head b) c -> follow1 (tok_tail a) c.
Proof.
  intros a b c H Hc. unfold adj_ok in H.
  destruct (tok_tail a), (tok_head b); try discriminate H; cbn [head_char follow1] in *; try exact I;
    unfold is_ident_char, is_digit, is_alpha in *; lia.
Qed.

Lemma ws_follow : forall k c, is_ws c = true -> follow1 k c.
Proof.
  intros k c H. unfold is_ws in H.
  destruct k; cbn [follow1]; unfold is_ident_char, is_digit, is_alpha; try exact I; lia.
Qed.

Lemma follow_stops : forall rest, follow KW rest -> stops is_ident_char rest.
Proof. intros [|c r] H; [exact I|]. exact (proj1 (proj1 H)). Qed.

Lemma strip_prefix_app_none : forall p q r, strip_prefix p r = None -> strip_prefix (p ++ q) r = None.
Proof.
  induction p as [|c p IH]; intros q r H; [discriminate H|].
  destruct r as [|d r]; cbn [app strip_prefix] in *; [reflexivity|]. destruct (c =? d); [now apply IH|reflexivity].
Qed.

Lemma strip1_none : forall c r, match r with [] => True | d :: _ => d <> c end -> strip_prefix [c] r = None.
Proof.
  intros c [|d r] H; [reflexivity|]. cbn [strip_prefix].
  destruct (c =? d) eqn:E; [apply N.eqb_eq in E; congruence|reflexivity].
Qed.

Lemma follow_lt : forall rest, follow KW rest -> strip_prefix s_lt rest = None.
Proof. intros [|c r] H; [reflexivity|]. apply strip1_none. exact (proj2 (proj2 (proj1 H))). Qed.

Lemma follow_bang : forall rest, follow KW rest -> strip_prefix s_bang rest = None.
Proof. intros [|c r] H; [reflexivity|]. apply strip1_none. exact (proj1 (proj2 (proj1 H))). Qed.

Lemma follow_cc : forall rest, follow KW rest -> strip_prefix s_cc rest = None.
Proof.
  intros [|c [|d r]] H; [reflexivity| |]; cbn [s_cc strip_prefix].
  - destruct (58 =? c); reflexivity.
  - destruct (58 =? c) eqn:E1; [|reflexivity]. destruct (58 =? d) eqn:E2; [|reflexivity].
    apply N.eqb_eq in E1, E2. subst. destruct H as [_ H]. specialize (H eq_refl eq_refl). congruence.
Qed.

Section OneToken.
  Variable ns : N -> list N.
  Variable intern : list N -> N.

  Lemma scan1_word : forall c w rest,
    is_alpha c = true -> Forall (fun x => is_ident_char x = true) w -> stops is_ident_char rest ->
    scan1 intern c (w ++ rest) = Some (word_tok intern (c :: w) rest).
  Proof.
    intros c w rest Hc Hw Hr. unfold scan1. rewrite Hc. rewrite (span_app is_ident_char w rest Hw Hr). reflexivity.
  Qed.

  (* a word with a fixed classification *)
  Lemma scan1_fixed : forall c w t rest,
    is_alpha c = true -> forallb is_ident_char w = true ->
    (forall r, word_tok intern (c :: w) r = (RT t, r)) ->
    follow KW rest ->
    scan1 intern c (w ++ rest) = Some (RT t, rest).
  Proof.
    intros c w t rest Hc Hw Ht Hr. rewrite scan1_word; [now rewrite Ht|exact Hc|now apply forallb_Forall|].
    now apply follow_stops.
  Qed.

  (** ** identifiers *)

  Lemma assoc_word_none : forall w tbl, existsb (leqb w) (map fst tbl) = false -> assoc_word w tbl = None.
  Proof.
    intros w tbl. induction tbl as [|[w' t] tbl IH]; intros H; [reflexivity|].
    cbn [map existsb fst] in H. apply orb_false_elim in H as [H1 H2]. cbn [assoc_word]. rewrite H1. now apply IH.
  Qed.

  Lemma if_same : forall {A} (b : bool) (x : A), (if b then x else x) = x.
  Proof. intros A [] x; reflexivity. Qed.

  (* a word that is not reserved, followed by text that is none of the punctuations `::` `<` `!`, is an
     identifier (the bare words witness / param in their raw form) *)
  Lemma word_tok_ident : forall w r,
    reserved w = false ->
    strip_prefix s_cc r = None -> strip_prefix s_lt r = None -> strip_prefix s_bang r = None ->
    word_tok intern w r
    = (if leqb w k_witness then RWordWP true else if leqb w k_param then RWordWP false else RT (TIdent (intern w)), r).
  Proof.
    intros w r H Hcc Hlt Hbang. unfold reserved, reserved_words, mem in H.
    rewrite !existsb_app in H. apply orb_false_elim in H as [H1 H]. apply orb_false_elim in H as [H2 H3].
    cbn [existsb] in H1. apply orb_false_elim in H1 as [HL H1]. apply orb_false_elim in H1 as [HR H1].
    apply orb_false_elim in H1 as [HS _].
    assert (Hplain : plain_word intern w = TIdent (intern w)).
    { unfold plain_word. rewrite (assoc_word_none w kw_table H2). unfold mem. now rewrite H3. }
    pose proof (strip_prefix_app_none s_cc [60] r Hcc) as Hcclt. change (s_cc ++ [60]) with s_cclt in Hcclt.
    pose proof (strip_prefix_app_none s_bang [91] r Hbang) as Hbb. change (s_bang ++ [91]) with s_bangbr in Hbb.
    unfold word_tok.
    destruct (leqb w w_jet) eqn:Ej.
    { apply leqb_eq in Ej. subst w. rewrite Hcc, Hplain. reflexivity. }
    destruct (leqb w k_witness) eqn:Ew.
    { unfold scoped_name. now rewrite Hcc. }
    destruct (leqb w k_param) eqn:Ep.
    { unfold scoped_name. now rewrite Hcc. }
    unfold suffix_table. cbn [find_suffix]. rewrite HL, HR, HS, Hlt, Hcclt, Hbang, Hbb.
    rewrite !if_same. now rewrite Hplain.
  Qed.

  Lemma ident_ok_split : forall w, ident_ok w = true ->
    exists c w', w = c :: w' /\ is_alpha c = true /\ Forall (fun x => is_ident_char x = true) w'.
  Proof.
    intros [|c w'] H; [discriminate|]. cbn [ident_ok] in H. apply andb_prop in H as [H1 H2].
    exists c, w'. split; [reflexivity|]. split; [exact H1|now apply forallb_Forall].
  Qed.

  (** ** numbers *)

  Lemma scan_dec_digits : forall d ds rest,
    Forall (fun c => is_digit c = true) ds -> stops is_ident_char rest ->
    scan_dec d (ds ++ rest) = (RDigits (d :: ds), rest).
  Proof.
    intros d ds rest Hds Hr. unfold scan_dec.
    rewrite (span_app is_dec_body ds rest).
    - rewrite has_us_false; [reflexivity|]. eapply Forall_impl; [|exact Hds]. intros c Hc. now apply digit_facts in Hc.
    - eapply Forall_impl; [|exact Hds]. intros c Hc. now apply digit_facts in Hc.
    - destruct rest as [|c r]; [exact I|]. cbn [stops] in *.
      unfold is_dec_body. apply nonident_facts in Hr as (_ & H2 & H3 & _). rewrite H2. apply N.eqb_neq in H3. now rewrite H3.
  Qed.

  Lemma scan_number_digits : forall d ds rest,
    is_digit d = true -> Forall (fun c => is_digit c = true) ds -> stops is_ident_char rest ->
    scan_number d (ds ++ rest) = (RDigits (d :: ds), rest).
  Proof.
    intros d ds rest Hd Hds Hr. unfold scan_number.
    assert (Hnext : match ds ++ rest with [] => True | c :: _ => c <> 98 /\ c <> 120 end).
    { destruct ds as [|c ds]; cbn [app].
      - destruct rest as [|c r]; [exact I|]. cbn [stops] in Hr. apply nonident_facts in Hr. tauto.
      - inversion Hds; subst. apply digit_facts in H1. tauto. }
    rewrite <- (scan_dec_digits d ds rest Hds Hr).
    destruct (d =? 48); [|reflexivity]. destruct (ds ++ rest) as [|c r]; [reflexivity|].
    destruct Hnext as [H1 H2]. apply N.eqb_neq in H1, H2. now rewrite H1, H2.
  Qed.

  Lemma nonempty_cons : forall {A} (l : list A), nonempty l = true -> exists x l', l = x :: l'.
  Proof. intros A [|x l'] H; [discriminate|eauto]. Qed.

  Lemma scan_number_bin : forall s rest,
    bin_ok s = true -> stops is_ident_char rest -> scan_number 48 (98 :: s ++ rest) = (RT (TBin s), rest).
  Proof.
    intros s rest Hs Hr. unfold bin_ok in Hs. apply andb_prop in Hs as [Hne Hs]. apply forallb_Forall in Hs.
    unfold scan_number. change (48 =? 48) with true. change (98 =? 98) with true. cbv iota.
    rewrite (span_app is_bin_body s rest).
    - rewrite strip_us_id.
      + apply nonempty_cons in Hne as (x & l' & ->). reflexivity.
      + eapply Forall_impl; [|exact Hs]. intros c Hc. unfold is_bin_digit in Hc. lia.
    - eapply Forall_impl; [|exact Hs]. intros c Hc. unfold is_bin_body. now rewrite Hc.
    - destruct rest as [|c r]; [exact I|]. cbn [stops] in *.
      unfold is_bin_body, is_bin_digit. unfold is_ident_char, is_digit, is_alpha in Hr. lia.
  Qed.

  Lemma scan_number_hex : forall s rest,
    hex_ok s = true -> stops is_ident_char rest -> scan_number 48 (120 :: s ++ rest) = (RT (THex s), rest).
  Proof.
    intros s rest Hs Hr. unfold hex_ok in Hs. apply andb_prop in Hs as [Hne Hs]. apply forallb_Forall in Hs.
    unfold scan_number. change (48 =? 48) with true. change (120 =? 98) with false. change (120 =? 120) with true. cbv iota.
    rewrite (span_app is_hex_body s rest).
    - rewrite strip_us_id.
      + apply nonempty_cons in Hne as (x & l' & ->). reflexivity.
      + eapply Forall_impl; [|exact Hs]. intros c Hc. unfold is_hex_digit, is_digit in Hc. lia.
    - eapply Forall_impl; [|exact Hs]. intros c Hc. unfold is_hex_body. now rewrite Hc.
    - destruct rest as [|c r]; [exact I|]. cbn [stops] in *.
      unfold is_hex_body, is_hex_digit, is_digit. unfold is_ident_char, is_digit, is_alpha in Hr. lia.
  Qed.

  Lemma dec_N_digits : forall n, exists d ds,
    dec_N n = d :: ds /\ is_digit d = true /\ Forall (fun c => is_digit c = true) ds.
  Proof.
    intros n. destruct (dec_N_spec n) as (Hd & Hne & _). apply all_digits_is_digit in Hd.
    destruct (dec_N n) as [|d ds]; [congruence|]. inversion Hd; subst. eauto.
  Qed.

  (** ** every token *)

  Ltac kw_case :=
    eexists; eexists; split; [reflexivity|]; split;
    [reflexivity| apply scan1_fixed; [reflexivity|reflexivity|intros r; reflexivity|assumption]].

  Ltac punct_case :=
    eexists; eexists; split; [reflexivity|]; split;
    [cbn [head_char]; repeat split; (reflexivity || discriminate) | reflexivity].

  Lemma scan1_uint : forall k rest,
    Nat.leb k 8 = true -> follow KW rest ->
    exists c s', uint_type_name k = c :: s' /\ head_char HW c /\
                 scan1 intern c (s' ++ rest) = Some (RT (TUIntTy k), rest).
  Proof.
    intros k rest Hk Hr.
    do 9 (destruct k as [|k];
          [eexists; eexists; split; [reflexivity|]; split;
           [reflexivity|apply scan1_fixed; [reflexivity|vm_compute; reflexivity|intros r; vm_compute; reflexivity|assumption]]|]).
    discriminate Hk.
  Qed.

  Lemma scan1_builtin : forall w rest,
    mem w builtin_alias_names = true -> follow KW rest ->
    exists c s', w = c :: s' /\ head_char HW c /\
                 scan1 intern c (s' ++ rest) = Some (RT (TBuiltin (intern w)), rest).
  Proof.
    intros w rest Hw Hr. apply mem_In in Hw. unfold builtin_alias_names in Hw. cbn [In] in Hw.
    repeat (destruct Hw as [Hw|Hw];
            [subst w; eexists; eexists; split; [reflexivity|]; split;
             [reflexivity|apply scan1_fixed; [reflexivity|reflexivity|intros r; reflexivity|assumption]]|]).
    contradiction.
  Qed.

  Lemma scan1_ident : forall w rest,
    ident_ok w = true -> reserved w = false -> follow KW rest ->
    exists c s', w = c :: s' /\ head_char HW c /\
                 scan1 intern c (s' ++ rest)
                 = Some (if leqb w k_witness then RWordWP true else if leqb w k_param then RWordWP false
                         else RT (TIdent (intern w)), rest).
  Proof.
    intros w rest Hw Hres Hr. destruct (ident_ok_split w Hw) as (c & w' & -> & Hc & Hw').
    exists c, w'. split; [reflexivity|]. split; [exact (alpha_ident c Hc)|].
    rewrite scan1_word; [|exact Hc|exact Hw'|now apply follow_stops].
    now rewrite word_tok_ident by (first [assumption | now apply follow_cc | now apply follow_lt | now apply follow_bang]).
  Qed.

  (* "witness::" / "param::" *)
  Lemma scan1_scoped : forall (kcc kw : list N) (mk : N -> tok) (wp : bool) c0 w0 nm rest,
    kw = c0 :: w0 -> kcc = kw ++ s_cc -> is_alpha c0 = true -> forallb is_ident_char w0 = true ->
    (forall r, word_tok intern kw r = scoped_name intern mk wp r) ->
    ident_ok nm = true -> follow KW rest ->
    scan1 intern c0 (w0 ++ s_cc ++ nm ++ rest) = Some (RT (mk (intern nm)), rest).
  Proof.
    intros kcc kw mk wp c0 w0 nm rest -> _ Hc0 Hw0 Hword Hnm Hr.
    rewrite scan1_word; [|exact Hc0|now apply forallb_Forall|reflexivity].
    rewrite Hword. destruct (ident_ok_split nm Hnm) as (c & nm' & -> & Hc & Hnm').
    unfold scoped_name. cbn [s_cc app strip_prefix]. rewrite !N.eqb_refl. rewrite Hc.
    rewrite (span_app is_ident_char nm' rest Hnm'); [reflexivity|now apply follow_stops].
  Qed.

  Lemma scan1_modname : forall (kw : list N) (mk : N -> tok) (wp : bool) c0 w0 rest,
    kw = c0 :: w0 -> is_alpha c0 = true -> forallb is_ident_char w0 = true ->
    (forall r, word_tok intern kw r = scoped_name intern mk wp r) ->
    follow KW rest ->
    scan1 intern c0 (w0 ++ rest) = Some (RWordWP wp, rest).
  Proof.
    intros kw mk wp c0 w0 rest -> Hc0 Hw0 Hword Hr.
    rewrite scan1_word; [|exact Hc0|now apply forallb_Forall|now apply follow_stops].
    rewrite Hword. unfold scoped_name. now rewrite (follow_cc rest Hr).
  Qed.

  (* MAIN LEMMA of this part: the spelling of a token, followed by text that does not continue it, is read
     as that token (in its raw form) and the text after it is left *)
  Lemma scan1_tok : forall t rest,
    name_ok ns intern t = true -> lit_ok t = true -> follow (tok_tail t) rest ->
    exists c s', spell ns t = c :: s' /\ head_char (tok_head t) c /\
                 scan1 intern c (s' ++ rest) = Some (generic ns t, rest).
  Proof.
    intros t rest Hn Hl Hr.
    destruct t; cbn [tok_tail tok_head spell generic name_ok lit_ok] in *;
      try (cbv delta [k_fn k_type k_mod k_const k_let k_match k_bool k_None k_false k_true k_unwrap]; kw_case);
      try punct_case.
    - (* TModName *)
      destruct w.
      + exists 119, [105;116;110;101;115;115]. split; [reflexivity|]. split; [reflexivity|].
        apply (scan1_modname k_witness TWitness true); try reflexivity. exact Hr.
      + exists 112, [97;114;97;109]. split; [reflexivity|]. split; [reflexivity|].
        apply (scan1_modname k_param TParam false); try reflexivity. exact Hr.
    - (* TEq *)
      exists 61, []. split; [reflexivity|]. split; [cbn [head_char]; repeat split; (reflexivity || discriminate)|].
      cbn [app]. destruct rest as [|c r]; [reflexivity|]. destruct Hr as [Hr _]. cbn [follow1] in Hr.
      apply N.eqb_neq in Hr.
      change (scan1 intern 61 (c :: r)) with (if c =? 62 then Some (RT TFatArrow, r) else Some (RT TEq, c :: r)).
      now rewrite Hr.
    - (* TGt *)
      exists 62, []. split; [reflexivity|]. split; [reflexivity|].
      cbn [app]. destruct rest as [|c r]; [reflexivity|]. destruct Hr as [Hr _]. cbn [follow1] in Hr.
      assert (H58 : (58 =? c) = false) by (apply N.eqb_neq; congruence).
      change (scan1 intern 62 (c :: r))
        with (match strip_prefix s_ccinto (c :: r) with
              | Some r' => Some (RT TGtInto, r')
              | None => Some (RT TGt, c :: r)
              end).
      cbn [s_ccinto strip_prefix]. rewrite H58. reflexivity.
    - (* TUnderscore *)
      exists 95, []. split; [reflexivity|]. split; [reflexivity|].
      cbn [app]. apply follow_stops in Hr. destruct rest as [|c r]; [reflexivity|]. cbn [stops] in Hr.
      apply nonident_facts in Hr as (_ & H2 & H3 & _). apply N.eqb_neq in H3.
      unfold scan1. change (is_alpha 95) with false. change (is_digit 95) with false.
      change (95 =? 95) with true. cbv iota. unfold scan_underscore. cbn [span]. unfold is_us. rewrite H3, H2. reflexivity.
    - (* TUIntTy *) apply scan1_uint; assumption.
    - (* TBuiltin *)
      apply andb_prop in Hn as [Hm Hi]. apply N.eqb_eq in Hi.
      destruct (scan1_builtin (ns n) rest Hm Hr) as (c & s' & E & Hc & Hs). rewrite Hi in Hs. eauto.
    - (* TJet *)
      apply andb_prop in Hn as [Hj Hi]. apply N.eqb_eq in Hi. unfold jetname_ok in Hj. apply andb_prop in Hj as [Hne Hj].
      exists 106, ([101;116;58;58] ++ ns n). split; [reflexivity|]. split; [reflexivity|].
      change (([101;116;58;58] ++ ns n) ++ rest) with ([101;116] ++ (58 :: 58 :: ns n ++ rest)).
      rewrite scan1_word; [|reflexivity|repeat constructor|reflexivity].
      unfold word_tok. change (leqb [106;101;116] w_jet) with true. cbv iota.
      cbn [s_cc strip_prefix]. rewrite !N.eqb_refl.
      rewrite (span_app is_ident_char (ns n) rest); [|now apply forallb_Forall|now apply follow_stops].
      apply nonempty_cons in Hne as (x & l' & E). rewrite E at 1. rewrite Hi. reflexivity.
    - (* TWitness *)
      apply andb_prop in Hn as [Hj Hi]. apply N.eqb_eq in Hi.
      exists 119, ([105;116;110;101;115;115] ++ s_cc ++ ns n). split; [reflexivity|]. split; [reflexivity|].
      rewrite <- !app_assoc. rewrite <- Hi at 2.
      apply (scan1_scoped k_witness_cc k_witness TWitness true); try reflexivity; assumption.
    - (* TParam *)
      apply andb_prop in Hn as [Hj Hi]. apply N.eqb_eq in Hi.
      exists 112, ([97;114;97;109] ++ s_cc ++ ns n). split; [reflexivity|]. split; [reflexivity|].
      rewrite <- !app_assoc. rewrite <- Hi at 2.
      apply (scan1_scoped k_param_cc k_param TParam false); try reflexivity; assumption.
    - (* TDec *)
      unfold dec_ok in Hl. apply andb_prop in Hl as [Hne Hs]. apply forallb_Forall in Hs.
      apply nonempty_cons in Hne as (d & ds & ->). inversion Hs; subst.
      exists d, ds. split; [reflexivity|]. split; [now apply digit_facts|].
      unfold scan1. rewrite (digit_not_alpha d) by assumption. rewrite H1.
      rewrite scan_number_digits; [reflexivity|assumption|assumption|now apply follow_stops].
    - (* TBin *)
      exists 48, (98 :: s). split; [reflexivity|]. split; [reflexivity|].
      unfold scan1. change (is_alpha 48) with false. change (is_digit 48) with true. cbv iota.
      cbn [app]. rewrite scan_number_bin; [reflexivity|assumption|now apply follow_stops].
    - (* THex *)
      exists 48, (120 :: s). split; [reflexivity|]. split; [reflexivity|].
      unfold scan1. change (is_alpha 48) with false. change (is_digit 48) with true. cbv iota.
      cbn [app]. rewrite scan_number_hex; [reflexivity|assumption|now apply follow_stops].
    - (* TIdent *)
      apply andb_prop in Hn as [Hn Hi]. apply andb_prop in Hn as [Hid Hres]. apply N.eqb_eq in Hi.
      apply negb_true_iff in Hres.
      destruct (scan1_ident (ns n) rest Hid Hres Hr) as (c & s' & E & Hc & Hs). rewrite Hi in Hs. eauto.
    - (* TNum *)
      destruct (dec_N_digits n) as (d & ds & E & Hd & Hds). rewrite E.
      exists d, ds. split; [reflexivity|]. split; [now apply digit_facts|].
      unfold scan1. rewrite (digit_not_alpha d) by assumption. rewrite Hd.
      rewrite scan_number_digits; [reflexivity|assumption|assumption|now apply follow_stops].
  Qed.
End OneToken.

(** * Part 3: a layout *)

Definition lits_ok (l : list litem) : bool := forallb lit_ok (toks_of l).

Lemma toks_of_LW : forall w l, toks_of (LW w :: l) = toks_of l.
Proof. reflexivity. Qed.

Lemma render_cons : forall ns i l, render ns (i :: l) = render_item ns i ++ render ns l.
Proof. reflexivity. Qed.

(* only `:` begins with a colon *)
Lemma head58 : forall b, head_char (tok_head b) 58 -> b = TColon.
Proof.
  intros b H. destruct b; cbn [tok_head head_char] in H; try reflexivity; try discriminate H.
  all: destruct H as (_ & H & _); congruence.
Qed.

Section Layouts.
  Variable ns : N -> list N.
  Variable intern : list N -> N.

  Lemma spell_head : forall t,
    name_ok ns intern t = true -> lit_ok t = true ->
    exists c s', spell ns t = c :: s' /\ head_char (tok_head t) c.
  Proof.
    intros t Hn Hl. destruct (scan1_tok ns intern t [] Hn Hl I) as (c & s' & E & Hc & _). eauto.
  Qed.

  Lemma names_cons : forall b l,
    names_ok ns intern (LT b :: l) = true -> name_ok ns intern b = true /\ names_ok ns intern l = true.
  Proof. intros b l H. unfold names_ok in *. rewrite toks_of_LT in H. cbn [forallb] in H. now apply andb_prop in H. Qed.

  Lemma lits_cons : forall b l, lits_ok (LT b :: l) = true -> lit_ok b = true /\ lits_ok l = true.
  Proof. intros b l H. unfold lits_ok in *. rewrite toks_of_LT in H. cbn [forallb] in H. now apply andb_prop in H. Qed.

  (* the first character after a token does not continue it *)
  Lemma sep_follow1 : forall t l,
    sep_from (Some t) l = true -> names_ok ns intern l = true -> lits_ok l = true ->
    match render ns l with [] => True | c :: _ => follow1 (tok_tail t) c end.
  Proof.
    intros t [|[b|w] l] Hs Hn Hl; [exact I| |].
    - cbn [sep_from] in Hs. apply andb_prop in Hs as [Hadj _].
      apply names_cons in Hn as [Hn _]. apply lits_cons in Hl as [Hl _].
      destruct (spell_head b Hn Hl) as (c & s' & E & Hc).
      rewrite render_cons. cbn [render_item]. rewrite E. cbn [app].
      exact (adj_follow t b c Hadj Hc).
    - cbn [sep_from] in Hs. apply andb_prop in Hs as [Hs _]. apply andb_prop in Hs as [Hne Hws].
      apply nonempty_cons in Hne as (c & w' & ->). cbn [forallb] in Hws. apply andb_prop in Hws as [Hc _].
      rewrite render_cons. cbn [render_item app]. now apply ws_follow.
  Qed.

  (* the text after a token does not continue it *)
  Lemma sep_follow : forall t l,
    sep_from (Some t) l = true -> names_ok ns intern l = true -> lits_ok l = true ->
    follow (tok_tail t) (render ns l).
  Proof.
    intros t l Hs Hn Hl. pose proof (sep_follow1 t l Hs Hn Hl) as H1.
    destruct l as [|[b|w] l]; [exact I| |].
    - cbn [sep_from] in Hs. apply andb_prop in Hs as [_ Hs'].
      apply names_cons in Hn as [Hnb Hn]. apply lits_cons in Hl as [Hlb Hl].
      destruct (spell_head b Hnb Hlb) as (c & s' & E & Hc).
      rewrite render_cons in *. cbn [render_item] in *. rewrite E in *. cbn [app follow] in *.
      split; [exact H1|]. intros _ ->. apply head58 in Hc. subst b. cbn [spell] in E. inversion E; subst s'.
      cbn [app]. exact (sep_follow1 TColon l Hs' Hn Hl).
    - cbn [sep_from] in Hs. apply andb_prop in Hs as [Hs _]. apply andb_prop in Hs as [Hne Hws].
      apply nonempty_cons in Hne as (c & w' & ->). cbn [forallb] in Hws. apply andb_prop in Hws as [Hc _].
      rewrite render_cons in *. cbn [render_item app follow] in *. split; [exact H1|].
      intros _ ->. discriminate Hc.
  Qed.

  Lemma scan_ws : forall fuel w s, forallb is_ws w = true -> scan intern fuel (w ++ s) = scan intern fuel s.
  Proof. intros [|f] w s H; [reflexivity|]. cbn [scan]. now rewrite skip_trivia_ws. Qed.

  (* the scanner reads the text of a layout as the raw forms of its tokens *)
  Lemma scan_render : forall l prev fuel,
    sep_from prev l = true -> names_ok ns intern l = true -> lits_ok l = true ->
    (length (toks_of l) < fuel)%nat ->
    scan intern fuel (render ns l) = Some (map (generic ns) (toks_of l)).
  Proof.
    induction l as [|[t|w] l IH]; intros prev fuel Hs Hn Hl Hf.
    - destruct fuel as [|f]; [cbn in Hf; lia|]. reflexivity.
    - rewrite toks_of_LT in Hf. cbn [length] in Hf. destruct fuel as [|f]; [lia|].
      assert (Hs' : sep_from (Some t) l = true).
      { cbn [sep_from] in Hs. now apply andb_prop in Hs as [_ Hs]. }
      apply names_cons in Hn as [Hnt Hn]. apply lits_cons in Hl as [Hlt Hl].
      pose proof (sep_follow t l Hs' Hn Hl) as Hfol.
      destruct (scan1_tok ns intern t (render ns l) Hnt Hlt Hfol) as (c & s' & E & Hc & Hscan).
      destruct (head_char_start _ _ Hc) as [Hws H47].
      rewrite render_cons. cbn [render_item]. rewrite E. cbn [app scan].
      rewrite (skip_trivia_tok c _ Hws H47). rewrite Hscan.
      rewrite (IH (Some t) f Hs' Hn Hl) by lia. rewrite toks_of_LT. reflexivity.
    - cbn [sep_from] in Hs. apply andb_prop in Hs as [Hs Hs']. apply andb_prop in Hs as [_ Hws].
      rewrite render_cons. cbn [render_item]. rewrite scan_ws by exact Hws.
      rewrite toks_of_LW in *. apply (IH None fuel); assumption.
  Qed.

  Lemma toks_le_render : forall l,
    names_ok ns intern l = true -> lits_ok l = true -> (length (toks_of l) <= length (render ns l))%nat.
  Proof.
    induction l as [|[t|w] l IH]; intros Hn Hl; [cbn; lia| |].
    - apply names_cons in Hn as [Hnt Hn]. apply lits_cons in Hl as [Hlt Hl].
      destruct (spell_head t Hnt Hlt) as (c & s' & E & _).
      rewrite toks_of_LT, render_cons, app_length. cbn [render_item]. rewrite E. cbn [length].
      specialize (IH Hn Hl). lia.
    - rewrite toks_of_LW, render_cons, app_length. specialize (IH Hn Hl). lia.
  Qed.

  (** ** the context-dependent tokens *)

  Lemma peek_generic : forall p ts, num_ctx p (peek (map (generic ns) ts)) = num_ctx p (hd_opt ts None).
  Proof.
    intros p [|t r]; [reflexivity|]. destruct t; try reflexivity; cbn [map generic peek hd_opt];
      try (destruct (leqb (ns n) k_witness); [|destruct (leqb (ns n) k_param)]);
      destruct p as [[]|]; reflexivity.
  Qed.

  Lemma dec_acc_dec_N : forall n, dec_acc 0 (dec_N n) = n.
  Proof. intros n. rewrite dec_acc_value. destruct (dec_N_spec n) as (_ & _ & H). exact H. Qed.

  (* [resolve] undoes [generic]; after `mod` comes a module name *)
  Lemma resolve_generic : forall ts prev,
    forallb (name_ok ns intern) ts = true -> ctx_from prev ts None = true ->
    (is_mod prev = true -> match ts with TModName _ :: _ => True | _ => False end) ->
    resolve intern prev (map (generic ns) ts) = ts.
  Proof.
    induction ts as [|t ts IH]; intros prev Hn H Hprev; [reflexivity|].
    cbn [ctx_from] in H. apply andb_prop in H as [Ht Hr]. cbn [forallb] in Hn. apply andb_prop in Hn as [Hnt Hn].
    cbn [map resolve].
    assert (E : match generic ns t with
                | RT t0 => t0
                | RWordWP w => if is_mod prev then TModName w else TIdent (intern (if w then k_witness else k_param))
                | RDigits s => if num_ctx prev (peek (map (generic ns) ts)) then TNum (dec_acc 0 s) else TDec s
                end = t).
    { destruct t; try reflexivity; cbn [generic tok_ctx name_ok] in *.
      - now rewrite Ht.
      - apply andb_prop in Ht as [_ Ht]. apply negb_true_iff in Ht. now rewrite peek_generic, Ht.
      - apply andb_prop in Hnt as [_ Hi]. apply N.eqb_eq in Hi.
        assert (Hm : is_mod prev = false).
        { destruct (is_mod prev); [|reflexivity]. now specialize (Hprev eq_refl). }
        destruct (leqb (ns n) k_witness) eqn:Ew; [|destruct (leqb (ns n) k_param) eqn:Ep]; try reflexivity; rewrite Hm.
        + apply leqb_eq in Ew. now rewrite <- Ew, Hi.
        + apply leqb_eq in Ep. now rewrite <- Ep, Hi.
      - now rewrite peek_generic, Ht, dec_acc_dec_N. }
    rewrite E. f_equal. apply IH; [exact Hn|exact Hr|].
    intros Hm. destruct t; try discriminate Hm. cbn [tok_ctx] in Ht.
    destruct ts as [|[] ts]; try discriminate Ht. exact I.
  Qed.

  Lemma ctx_lits : forall ts p n, ctx_from p ts n = true -> forallb lit_ok ts = true.
  Proof.
    induction ts as [|t ts IH]; intros p n H; [reflexivity|].
    cbn [ctx_from] in H. apply andb_prop in H as [Ht Hr]. cbn [forallb]. rewrite (IH _ _ Hr), andb_true_r.
    destruct t; try exact Ht; try reflexivity. cbn [tok_ctx] in Ht. now apply andb_prop in Ht as [Ht _].
  Qed.

  (* (a) the text of a layout whose adjacent tokens are separable, whose names are well spelled and
     whose numbers are in their context lexes to exactly the tokens of the layout *)
  Theorem lex_render : forall l,
    sep_ok l = true -> names_ok ns intern l = true -> ctx_ok (toks_of l) = true ->
    lex intern (render ns l) = Some (toks_of l).
  Proof.
    intros l Hs Hn Hc. pose proof (ctx_lits _ _ _ Hc) as Hl. fold (lits_ok l) in Hl.
    unfold lex, scan_text.
    rewrite (scan_render l None _ Hs Hn Hl) by (pose proof (toks_le_render l Hn Hl); lia).
    rewrite resolve_generic; [reflexivity|exact Hn|exact Hc|discriminate].
  Qed.
End Layouts.

(** * Part 4: the printer never puts two tokens that would fuse next to each other *)

(* the token before: nothing / whitespace, or a token that ends in punctuation after which anything may come *)
Definition clean (p : option tok) : bool :=
  match p with None => true | Some a => match tok_tail a with KP => true | _ => false end end.
(* `>` or `>::into` may follow *)
Definition gt_safe (p : option tok) : bool :=
  match p with None => true | Some a => match tok_tail a with KEq => false | _ => true end end.
(* `:` may follow *)
Definition plain (p : option tok) : bool :=
  match p with None => true | Some a => match tok_tail a with KW | KP => true | _ => false end end.

Lemma last_tok_app : forall a b p, last_tok p (a ++ b) = last_tok (last_tok p a) b.
Proof. intros. unfold last_tok. apply fold_left_app. Qed.

Lemma sep_app : forall a b p, sep_from p (a ++ b) = sep_from p a && sep_from (last_tok p a) b.
Proof.
  induction a as [|[t|w] a IH]; intros b p; cbn [app sep_from].
  - reflexivity.
  - rewrite IH, andb_assoc. reflexivity.
  - rewrite IH, !andb_assoc. reflexivity.
Qed.

Lemma sep_nil : forall p, sep_from p [] = true.
Proof. reflexivity. Qed.
Lemma sep_sp : forall p r, sep_from p (sp :: r) = sep_from None r.
Proof. reflexivity. Qed.
Lemma sep_nl : forall p r, sep_from p (nl :: r) = sep_from None r.
Proof. reflexivity. Qed.
Lemma sep_ind : forall p r, sep_from p (ind :: r) = sep_from None r.
Proof. reflexivity. Qed.

Lemma sep_LT_hp : forall p b r, tok_head b = HP -> sep_from p (LT b :: r) = sep_from (Some b) r.
Proof.
  intros [a|] b r H; cbn [sep_from]; [|reflexivity]. unfold adj_ok. rewrite H. now destruct (tok_tail a).
Qed.

Lemma sep_LT_clean : forall p b r, clean p = true -> sep_from p (LT b :: r) = sep_from (Some b) r.
Proof.
  intros [a|] b r H; cbn [sep_from]; [|reflexivity]. unfold adj_ok. unfold clean in H.
  destruct (tok_tail a); try discriminate H. now destruct (tok_head b).
Qed.

Lemma sep_LT_gt : forall p b r, gt_safe p = true -> tok_head b = HGt -> sep_from p (LT b :: r) = sep_from (Some b) r.
Proof.
  intros [a|] b r H Hb; cbn [sep_from]; [|reflexivity]. unfold adj_ok. unfold gt_safe in H. rewrite Hb.
  now destruct (tok_tail a).
Qed.

Lemma sep_LT_colon : forall p r, plain p = true -> sep_from p (LT TColon :: r) = sep_from (Some TColon) r.
Proof.
  intros [a|] r H; cbn [sep_from]; [|reflexivity]. unfold adj_ok. unfold plain in H. cbn [tok_head].
  now destruct (tok_tail a).
Qed.

Ltac last_norm := unfold last_tok; repeat first [rewrite fold_left_app | progress cbn [fold_left]].

(* one step through an explicit item of the layout *)
Ltac sstep :=
  first
    [ rewrite sep_nil
    | rewrite sep_sp | rewrite sep_nl | rewrite sep_ind
    | rewrite sep_LT_hp by reflexivity
    | rewrite sep_LT_clean by (first [reflexivity | assumption])
    | rewrite sep_LT_gt by (first [reflexivity | assumption])
    | rewrite sep_LT_colon by (first [reflexivity | assumption]) ].

Lemma sep_sepl_csp : forall xs,
  Forall (fun x => forall p, clean p = true -> sep_from p x = true) xs ->
  forall p, clean p = true -> sep_from p (sepl csp xs) = true.
Proof.
  induction xs as [|x [|y xs] IH]; intros H p Hp.
  - reflexivity.
  - inversion H; subst. cbn [sepl]. auto.
  - inversion H as [|x0 l0 Hx Hr]; subst. rewrite sepl_cons2, sep_app, (Hx p Hp). cbn [andb].
    unfold csp. cbn [app]. repeat sstep. apply IH; [exact Hr|reflexivity].
Qed.

Lemma sep_sepl_ind : forall xs,
  Forall (fun x => sep_from None x = true) xs -> sep_from None (sepl [ind] xs) = true.
Proof.
  induction xs as [|x [|y xs] IH]; intros H.
  - reflexivity.
  - now inversion H.
  - inversion H as [|x0 l0 Hx Hr]; subst. rewrite sepl_cons2, sep_app, Hx. cbn [andb app]. sstep. now apply IH.
Qed.

Lemma Forall_map_intro : forall {A B} (f : A -> B) (P : B -> Prop) l, Forall (fun x => P (f x)) l -> Forall P (map f l).
Proof. intros A B f P l H. induction H; constructor; auto. Qed.

(** ** types *)

Lemma lay_aty_sep2 : forall t p, clean p = true ->
  sep_from p (lay_aty t) = true /\ gt_safe (last_tok p (lay_aty t)) = true.
Proof.
  induction t as [n|n|a b IHa IHb|a IHa| |k|ts IHts|a n IHa|a k IHa] using aty_ind'; intros p Hp; cbn [lay_aty].
  - split; [now repeat sstep|reflexivity].
  - split; [now repeat sstep|reflexivity].
  - destruct (IHa (Some TEitherLt) eq_refl) as [Ha1 Ha2].
    destruct (IHb (Some TComma) eq_refl) as [Hb1 Hb2]. split.
    + sstep. rewrite sep_app, Ha1. cbn [andb]. sstep. rewrite sep_app, Hb1. cbn [andb]. now repeat sstep.
    + last_norm. reflexivity.
  - destruct (IHa (Some TOptionLt) eq_refl) as [Ha1 Ha2]. split.
    + sstep. rewrite sep_app, Ha1. cbn [andb]. now repeat sstep.
    + last_norm. reflexivity.
  - split; [now repeat sstep|reflexivity].
  - split; [now repeat sstep|reflexivity].
  - split.
    + sstep. rewrite sep_app. rewrite sep_sepl_csp; [|apply Forall_map_intro; eapply Forall_impl; [|exact IHts];
                                                     intros t Ht q Hq; exact (proj1 (Ht q Hq))|reflexivity].
      cbn [andb]. destruct (one ts); cbn [app]; now repeat sstep.
    + last_norm. reflexivity.
  - destruct (IHa (Some TLBrack) eq_refl) as [Ha1 Ha2]. split.
    + sstep. rewrite sep_app, Ha1. cbn [andb]. now repeat sstep.
    + last_norm. reflexivity.
  - destruct (IHa (Some TListLt) eq_refl) as [Ha1 Ha2]. split.
    + sstep. rewrite sep_app, Ha1. cbn [andb]. repeat sstep. reflexivity.
    + last_norm. reflexivity.
Qed.

Lemma lay_aty_sep : forall t p, clean p = true -> sep_from p (lay_aty t) = true.
Proof. intros t p H. exact (proj1 (lay_aty_sep2 t p H)). Qed.
Lemma lay_aty_gt : forall t p, clean p = true -> gt_safe (last_tok p (lay_aty t)) = true.
Proof. intros t p H. exact (proj2 (lay_aty_sep2 t p H)). Qed.

(** ** patterns *)

Lemma lay_pat_sep2 : forall pt p, clean p = true ->
  sep_from p (lay_pat pt) = true /\ plain (last_tok p (lay_pat pt)) = true.
Proof.
  induction pt as [x| |ps IHps|ps IHps] using pat_ind'; intros p Hp; cbn [lay_pat].
  - split; [now repeat sstep|reflexivity].
  - split; [now repeat sstep|reflexivity].
  - split.
    + sstep. rewrite sep_app. rewrite sep_sepl_csp; [|apply Forall_map_intro; eapply Forall_impl; [|exact IHps];
                                                     intros t Ht q Hq; exact (proj1 (Ht q Hq))|reflexivity].
      cbn [andb]. destruct (one ps); unfold csp; cbn [app]; now repeat sstep.
    + last_norm. reflexivity.
  - split.
    + sstep. rewrite sep_app. rewrite sep_sepl_csp; [|apply Forall_map_intro; eapply Forall_impl; [|exact IHps];
                                                     intros t Ht q Hq; exact (proj1 (Ht q Hq))|reflexivity].
      cbn [andb]. now repeat sstep.
    + last_norm. reflexivity.
Qed.

Lemma lay_pat_sep : forall pt p, clean p = true -> sep_from p (lay_pat pt) = true.
Proof. intros t p H. exact (proj1 (lay_pat_sep2 t p H)). Qed.
Lemma lay_pat_plain : forall pt p, clean p = true -> plain (last_tok p (lay_pat pt)) = true.
Proof. intros t p H. exact (proj2 (lay_pat_sep2 t p H)). Qed.

(* through a sub-layout whose separability is known *)
Ltac sthru :=
  first
    [ rewrite sep_app, lay_aty_sep by (first [reflexivity | assumption]); cbn [andb]
    | rewrite sep_app, lay_pat_sep by (first [reflexivity | assumption]); cbn [andb] ].

Ltac sep_solve :=
  repeat first
    [ sstep
    | sthru
    | rewrite sep_LT_gt by (first [apply lay_aty_gt; reflexivity | reflexivity])
    | rewrite sep_LT_colon by (apply lay_pat_plain; reflexivity) ].

(** ** match patterns, call names *)

Lemma lay_mpat_sep : forall m p, clean p = true -> sep_from p (lay_mpat m) = true.
Proof. intros m p Hp. destruct m; cbn [lay_mpat]; sep_solve; reflexivity. Qed.

Lemma lay_callname_sep : forall c p, clean p = true -> sep_from p (lay_callname c) = true.
Proof. intros c p Hp. destruct c; cbn [lay_callname]; sep_solve; reflexivity. Qed.

(** ** expressions *)

Lemma lay_let_sep : forall pt t r, sep_from None (lay_let pt t ++ r) = sep_from None r.
Proof. intros pt t r. unfold lay_let. norm_app. sep_solve. reflexivity. Qed.

Lemma lay_expr_sep : forall e p, clean p = true -> sep_from p (lay_expr e) = true.
Proof.
  induction e as [ss l Hss Hl|b|li|n|n|x|e IHe|es IHes|es IHes|es IHes|e IHe|e IHe| |e IHe
                 |spn name args IHargs|s lp el rp er IHs IHl IHr] using pexpr_ind'; intros p Hp;
    try (cbn [lay_expr]; now repeat sstep);
    try (cbn [lay_expr]; sstep; rewrite sep_app, IHe by reflexivity; cbn [andb]; now repeat sstep);
    try (cbn [lay_expr]; sstep; rewrite sep_app;
         rewrite sep_sepl_csp by (first [apply Forall_map_intro; exact IHes | reflexivity]);
         cbn [andb]; try destruct (one es); unfold csp; cbn [app]; now repeat sstep).
  - (* PBlock *)
    change (lay_expr (PBlock ss l))
      with (LT TLBrace :: nl :: sepl [ind] (map lay_stmt ss ++ match l with Some e1 => [lay_expr e1] | None => [] end)
            ++ [LT TRBrace; nl]).
    repeat sstep. rewrite sep_app. rewrite sep_sepl_ind; [cbn [andb]; now repeat sstep|].
    apply Forall_app. split.
    + apply Forall_map_intro. eapply Forall_impl; [|exact Hss]. intros [[[pt t]|] e1] He; cbn [snd lay_stmt] in *.
      * rewrite lay_let_sep, sep_app, He by reflexivity. cbn [andb]. now repeat sstep.
      * rewrite sep_app, He by reflexivity. cbn [andb]. now repeat sstep.
    + destruct l as [e1|]; constructor; [|constructor]. cbn [popt_P] in Hl. now apply Hl.
  - (* PCall *)
    cbn [lay_expr]. rewrite sep_app, lay_callname_sep by exact Hp. cbn [andb]. sstep. rewrite sep_app.
    rewrite sep_sepl_csp by (first [apply Forall_map_intro; exact IHargs | reflexivity]). cbn [andb]. now repeat sstep.
  - (* PMatch *)
    cbn [lay_expr]. repeat sstep. rewrite sep_app, IHs by reflexivity. cbn [andb]. cbn [app]. repeat sstep.
    rewrite sep_app, lay_mpat_sep by reflexivity. cbn [andb app]. repeat sstep.
    rewrite sep_app, IHl by reflexivity. cbn [andb app]. repeat sstep.
    rewrite sep_app, lay_mpat_sep by reflexivity. cbn [andb app]. repeat sstep.
    rewrite sep_app, IHr by reflexivity. cbn [andb app]. now repeat sstep.
Qed.

(** ** items and programs *)

Lemma lay_param_sep : forall x p, clean p = true -> sep_from p (lay_param x) = true.
Proof. intros [x t] p Hp. unfold lay_param. cbn [fst snd]. sep_solve. apply lay_aty_sep. reflexivity. Qed.

Lemma lay_item_sep : forall i, sep_from None (lay_item i) = true.
Proof.
  destruct i as [n t|name ps ret body| ]; cbn [lay_item].
  - sep_solve. reflexivity.
  - assert (Hps : forall q, clean q = true -> sep_from q (sepl csp (map lay_param ps)) = true).
    { intros q Hq. apply sep_sepl_csp; [|exact Hq].
      apply Forall_map_intro, Forall_forall. intros x _ q' Hq'. now apply lay_param_sep. }
    destruct ret as [t|]; norm_app; repeat sstep; rewrite sep_app, Hps by reflexivity; cbn [andb]; sep_solve;
      now apply lay_expr_sep.
  - reflexivity.
Qed.

(* (b), for every tree *)
Theorem lay_program_sep_ok_all : forall p, sep_ok (lay_program p) = true.
Proof.
  unfold sep_ok, lay_program. induction p as [|i p IH]; [reflexivity|]. cbn [flat_map].
  rewrite <- app_assoc, sep_app, lay_item_sep. cbn [andb app]. sstep. exact IH.
Qed.

(* (b) as asked *)
Corollary lay_program_sep_ok : forall p, prog_wf p = true -> sep_ok (lay_program p) = true.
Proof. intros p _. apply lay_program_sep_ok_all. Qed.

(** * Part 5: numbers and literals of a well-formed tree are in their context *)

Definition lastt (p : option tok) (a : list tok) : option tok := fold_left (fun _ t => Some t) a p.

Lemma hd_opt_app : forall a b n, hd_opt (a ++ b) n = hd_opt a (hd_opt b n).
Proof. intros [|t a] b n; reflexivity. Qed.

Lemma ctx_app : forall a b p n, ctx_from p (a ++ b) n = ctx_from p a (hd_opt b n) && ctx_from (lastt p a) b n.
Proof.
  induction a as [|t a IH]; intros b p n; [reflexivity|].
  cbn [app ctx_from]. rewrite IH, hd_opt_app, andb_assoc. reflexivity.
Qed.

Ltac lastt_norm := unfold lastt; repeat first [rewrite fold_left_app | progress cbn [fold_left]].
Ltac cstep := cbn [ctx_from tok_ctx lit_ok hd_opt andb app num_ctx is_mod negb].

Lemma num_ctx_semi : forall p, num_ctx p (Some TSemi) = false.
Proof. intros [[]|]; reflexivity. Qed.
Lemma num_ctx_rbrace : forall p, num_ctx p (Some TRBrace) = false.
Proof. intros [[]|]; reflexivity. Qed.

Lemma ctx_sepl_any : forall {A} (tk : A -> list tok) xs,
  Forall (fun x => forall p n, ctx_from p (tk x) n = true) xs ->
  forall p n, ctx_from p (sepl [TComma] (map tk xs)) n = true.
Proof.
  intros A tk xs. induction xs as [|x [|y xs] IH]; intros H p n.
  - reflexivity.
  - inversion H; subst. cbn [map sepl]. auto.
  - inversion H as [|x0 l0 Hx Hr]; subst. cbn [map]. rewrite sepl_cons2, ctx_app, Hx. cstep.
    change (tk y :: map tk xs) with (map tk (y :: xs)). now apply IH.
Qed.

(** ** types, patterns *)

Lemma ctx_aty : forall t, aty_wf t = true -> forall p n, ctx_from p (tokens_aty t) n = true.
Proof.
  induction t as [x|x|a b IHa IHb|a IHa| |k|ts IHts|a m IHa|a k IHa] using aty_ind'; intros Hwf p n;
    cbn [aty_wf] in Hwf; cbn [tokens_aty].
  - reflexivity.
  - reflexivity.
  - apply andb_prop in Hwf as [Ha Hb]. cstep. rewrite ctx_app, (IHa Ha). cstep. rewrite ctx_app, (IHb Hb). reflexivity.
  - cstep. rewrite ctx_app, (IHa Hwf). reflexivity.
  - reflexivity.
  - cstep. now rewrite Hwf.
  - cstep. rewrite ctx_app. rewrite ctx_sepl_any.
    + destruct (one ts); reflexivity.
    + rewrite Forall_forall in *. intros t Ht. apply IHts; [exact Ht|]. exact (forallb_In _ _ _ Hwf Ht).
  - apply andb_prop in Hwf as [Ha _]. cstep. rewrite ctx_app, (IHa Ha). reflexivity.
  - apply andb_prop in Hwf as [Ha _]. cstep. rewrite ctx_app, (IHa Ha). reflexivity.
Qed.

Lemma ctx_pat : forall pt p n, ctx_from p (tokens_pat pt) n = true.
Proof.
  induction pt as [x| |ps IHps|ps IHps] using pat_ind'; intros p n; cbn [tokens_pat]; try reflexivity.
  - cstep. rewrite ctx_app, ctx_sepl_any by exact IHps. destruct (one ps); reflexivity.
  - cstep. rewrite ctx_app, ctx_sepl_any by exact IHps. reflexivity.
Qed.

Lemma ctx_mpat : forall m, mpat_wf m = true -> forall p n, ctx_from p (tokens_mpat m) n = true.
Proof.
  intros m Hwf p n. destruct m; cbn [tokens_mpat mpat_wf] in *; try reflexivity;
    cstep; rewrite ctx_app, ctx_aty by exact Hwf; reflexivity.
Qed.

Lemma ctx_callname : forall c, callname_wf c = true -> forall p n, ctx_from p (tokens_callname c) n = true.
Proof.
  intros c Hwf p n. destruct c; cbn [tokens_callname callname_wf] in *; try reflexivity;
    cstep; rewrite ctx_app, ctx_aty by exact Hwf; reflexivity.
Qed.

(** ** expressions *)

(* a decimal literal must not stand in one of the two number windows; a block never is a literal *)
Definition ectx (e : pexpr) (p n : option tok) : Prop := is_block e = false -> num_ctx p n = false.
Definition ctx_at (e : pexpr) : Prop := forall p n, ectx e p n -> ctx_from p (tokens_expr e) n = true.

Lemma ctx_sepl_expr : forall es,
  Forall ctx_at es ->
  forall p n, num_ctx p (Some TComma) = false -> num_ctx p n = false -> num_ctx (Some TComma) n = false ->
  ctx_from p (sepl [TComma] (map tokens_expr es)) n = true.
Proof.
  induction es as [|x [|y es] IH]; intros H p n H1 H2 H3.
  - reflexivity.
  - inversion H as [|x0 l0 Hx _]; subst. cbn [map sepl]. apply Hx. intros _. exact H2.
  - inversion H as [|x0 l0 Hx Hr]; subst. cbn [map]. rewrite sepl_cons2, ctx_app. cstep.
    rewrite (Hx p (Some TComma) (fun _ => H1)). cstep.
    change (tokens_expr y :: map tokens_expr es) with (map tokens_expr (y :: es)). apply IH; auto.
Qed.

Lemma ctx_stmts : forall ss rest n,
  Forall (fun s : option (ppat * aty) * pexpr =>
            ctx_at (snd s) /\ match fst s with Some (_, t) => aty_wf t = true | None => True end) ss ->
  (forall p, ctx_from p rest n = true) ->
  forall p, ctx_from p (flat_map tokens_stmt ss ++ rest) n = true.
Proof.
  induction ss as [|s ss IH]; intros rest n H Hrest p; [apply Hrest|].
  inversion H as [|s0 l0 [He Ht] Hr]; subst. cbn [flat_map]. rewrite <- app_assoc.
  rewrite ctx_app, (IH rest n Hr Hrest), andb_true_r.
  destruct s as [[[pt t]|] e1]; cbn [fst snd tokens_stmt] in *.
  - unfold tokens_let. norm_app. cstep. rewrite ctx_app, ctx_pat. cstep. rewrite ctx_app, ctx_aty by exact Ht. cstep.
    rewrite ctx_app. cstep. rewrite andb_true_r. apply He. intros _. reflexivity.
  - rewrite ctx_app. cstep. rewrite andb_true_r. apply He. intros _. apply num_ctx_semi.
Qed.

Lemma ctx_expr : forall e, expr_wf e = true -> ctx_at e.
Proof.
  induction e as [ss l Hss Hl|b|li|x|x|x|e IHe|es IHes|es IHes|es IHes|e IHe|e IHe| |e IHe
                 |spn name args IHargs|s lp el rp er IHs IHl IHr] using pexpr_ind';
    intros Hwf p n Hpn; cbn [expr_wf] in Hwf.
  - (* PBlock *)
    apply andb_prop in Hwf as [Hwss Hwl].
    change (tokens_expr (PBlock ss l))
      with (TLBrace :: flat_map tokens_stmt ss ++ match l with Some e1 => tokens_expr e1 | None => [] end ++ [TRBrace]).
    cstep. apply ctx_stmts.
    + rewrite Forall_forall in *. intros s Hs. specialize (Hss s Hs).
      pose proof (forallb_In _ _ _ Hwss Hs) as Hws. cbn beta in Hws.
      destruct s as [[[pt t]|] e1]; cbn [fst snd] in *.
      * apply andb_prop in Hws as [Hwt Hwe]. split; [now apply Hss|exact Hwt].
      * split; [now apply Hss|exact I].
    + intros q. destruct l as [e1|]; [|reflexivity]. cbn [popt_P] in Hl.
      rewrite ctx_app. cstep. rewrite andb_true_r. apply (Hl Hwl). intros _. apply num_ctx_rbrace.
  - (* PBool *) destruct b; reflexivity.
  - (* PLit *)
    destruct li; cbn [lit_wf tokens_expr lit_tok] in *; cstep; rewrite Hwf; [|reflexivity|reflexivity].
    rewrite (Hpn eq_refl). reflexivity.
  - reflexivity.
  - reflexivity.
  - reflexivity.
  - (* PParen *) cbn [tokens_expr]. cstep. rewrite ctx_app. cstep. rewrite andb_true_r.
    apply (IHe Hwf). intros _. reflexivity.
  - (* PTuple *)
    cbn [tokens_expr]. cstep. rewrite ctx_app.
    assert (Hall : Forall ctx_at es).
    { rewrite Forall_forall in *. intros e He. apply IHes; [exact He|exact (forallb_In _ _ _ Hwf He)]. }
    destruct (one es); cstep; rewrite andb_true_r; apply ctx_sepl_expr; auto.
  - (* PArray *)
    cbn [tokens_expr]. cstep. rewrite ctx_app.
    assert (Hall : Forall ctx_at es).
    { rewrite Forall_forall in *. intros e He. apply IHes; [exact He|exact (forallb_In _ _ _ Hwf He)]. }
    cstep. rewrite andb_true_r. apply ctx_sepl_expr; auto.
  - (* PList *)
    cbn [tokens_expr]. cstep. rewrite ctx_app.
    assert (Hall : Forall ctx_at es).
    { rewrite Forall_forall in *. intros e He. apply IHes; [exact He|exact (forallb_In _ _ _ Hwf He)]. }
    cstep. rewrite andb_true_r. apply ctx_sepl_expr; auto.
  - (* PLeft *) cbn [tokens_expr]. cstep. rewrite ctx_app. cstep. rewrite andb_true_r.
    apply (IHe Hwf). intros _. reflexivity.
  - (* PRight *) cbn [tokens_expr]. cstep. rewrite ctx_app. cstep. rewrite andb_true_r.
    apply (IHe Hwf). intros _. reflexivity.
  - reflexivity.
  - (* PSome *) cbn [tokens_expr]. cstep. rewrite ctx_app. cstep. rewrite andb_true_r.
    apply (IHe Hwf). intros _. reflexivity.
  - (* PCall *)
    apply andb_prop in Hwf as [Hwn Hwa]. cbn [tokens_expr].
    rewrite ctx_app, ctx_callname by exact Hwn. cstep. rewrite ctx_app. cstep. rewrite andb_true_r.
    apply ctx_sepl_expr; auto.
    rewrite Forall_forall in *. intros e He. apply IHargs; [exact He|exact (forallb_In _ _ _ Hwa He)].
  - (* PMatch *)
    repeat (apply andb_prop in Hwf as [Hwf ?]).
    cbn [tokens_expr]. cstep.
    rewrite ctx_app. cstep. rewrite (IHs Hwf (Some TMatch) (Some TLBrace) (fun _ => eq_refl)). cstep.
    rewrite ctx_app, ctx_mpat by assumption. cstep.
    rewrite ctx_app. cstep. rewrite (IHl ltac:(assumption) (Some TFatArrow) (Some TComma) (fun _ => eq_refl)). cstep.
    rewrite ctx_app, ctx_mpat by assumption. cstep.
    rewrite ctx_app. cstep. rewrite (IHr ltac:(assumption) (Some TFatArrow) (Some TComma) (fun _ => eq_refl)). reflexivity.
Qed.

(** ** items, programs *)

Lemma ctx_param : forall x, aty_wf (snd x) = true -> forall p n, ctx_from p (tokens_param x) n = true.
Proof. intros [x t] Hwf p n. unfold tokens_param. cbn [fst snd] in *. cstep. now apply ctx_aty. Qed.

Lemma ctx_item : forall i, item_wf i = true -> forall p n, ctx_from p (tokens_item i) n = true.
Proof.
  intros i Hwf p n. destruct i as [x t|name ps ret body| ]; cbn [item_wf tokens_item] in *.
  - cstep. rewrite ctx_app, ctx_aty by exact Hwf. reflexivity.
  - apply andb_prop in Hwf as [Hwf Hwb]. apply andb_prop in Hwf as [Hwf Hbl]. apply andb_prop in Hwf as [Hwp Hwr].
    cstep. rewrite ctx_app. rewrite ctx_sepl_any.
    + cstep. assert (Hb : forall q, ctx_from q (tokens_expr body) n = true).
      { intros q. apply ctx_expr; [exact Hwb|]. intros Hb. rewrite Hbl in Hb. discriminate. }
      destruct ret as [t|]; cstep; [rewrite ctx_app, ctx_aty by exact Hwr; cstep|]; apply Hb.
    + apply Forall_forall. intros x Hx. apply ctx_param. exact (forallb_In _ _ _ Hwp Hx).
  - reflexivity.
Qed.

Theorem tokens_program_ctx_ok : forall p, prog_wf p = true -> ctx_ok (tokens_program p) = true.
Proof.
  intros p Hwf. unfold ctx_ok. generalize (@None tok) at 1.
  unfold tokens_program. induction p as [|i p IH]; intros q; [reflexivity|].
  cbn [prog_wf forallb] in Hwf. apply andb_prop in Hwf as [Hi Hp]. cbn [flat_map].
  rewrite ctx_app, (ctx_item i Hi). cbn [andb]. now apply IH.
Qed.

(** * Part 6: the text-level round trip *)

Section TextRoundTrip.
  Variable ns : N -> list N.              (* the spelling of a name *)
  Variable intern : list N -> N.          (* the id of a spelling; must invert ns on the names of the tree *)

  (* the printed text lexes to the token list of the tree *)
  Theorem print_lex : forall p,
    prog_wf p = true -> prog_names_ok ns intern p = true ->
    lex intern (print_program ns p) = Some (tokens_program p).
  Proof.
    intros p Hwf Hn. unfold print_program. rewrite <- (lay_program_tokens p). apply lex_render.
    - now apply lay_program_sep_ok.
    - unfold names_ok. rewrite lay_program_tokens. exact Hn.
    - rewrite lay_program_tokens. now apply tokens_program_ctx_ok.
  Qed.

  (* (c) the printed text of a tree with the properties the parser guarantees and with well-spelled names
     is read back, character by character, as the same tree (up to the span ids of calls) *)
  Theorem print_parse_text : forall p,
    prog_wf p = true -> prog_names_ok ns intern p = true ->
    parse_text intern (print_program ns p) = Some (erase_program p).
  Proof.
    intros p Hwf Hn. unfold parse_text. rewrite (print_lex p Hwf Hn). now apply print_tokens_roundtrip_default.
  Qed.

  (* the same for trees without span ids *)
  Corollary print_parse_text_sp0 : forall p,
    prog_wf p = true -> prog_sp0 p = true -> prog_names_ok ns intern p = true ->
    parse_text intern (print_program ns p) = Some p.
  Proof. intros p Hwf H0 Hn. rewrite print_parse_text by assumption. now rewrite erase_program_sp0. Qed.

  (* printing is injective at the text level *)
  Corollary print_text_injective : forall p q,
    print_program ns p = print_program ns q ->
    prog_wf p = true -> prog_wf q = true -> prog_names_ok ns intern p = true -> prog_names_ok ns intern q = true ->
    erase_program p = erase_program q.
  Proof.
    intros p q Heq Hp Hq Hnp Hnq.
    pose proof (print_parse_text p Hp Hnp) as H1. pose proof (print_parse_text q Hq Hnq) as H2.
    rewrite Heq in H1. rewrite H1 in H2. now inversion H2.
  Qed.
End TextRoundTrip.

(** * Part 7: examples *)

(* the tables of the lexer agree with the spellings of ProgPrint and with the generated alias table *)
Example suffix_table_spells :
  forallb (fun e : list N * list N * tok => leqb (fst (fst e) ++ snd (fst e)) (spell (fun _ => []) (snd e)))
          suffix_table = true.
Proof. vm_compute. reflexivity. Qed.
Example kw_table_spells :
  forallb (fun e : list N * tok => leqb (fst e) (spell (fun _ => []) (snd e))) kw_table = true.
Proof. vm_compute. reflexivity. Qed.
Example builtin_alias_names_tie :
  builtin_alias_names = map (fun e => bytes (fst e)) SV.Gen.Aliases.builtin_aliases.
Proof. vm_compute. reflexivity. Qed.

Module LexExamples.
Import Examples.
Import String.
Local Open Scope string_scope.

(* an interning function for a finite spelling table: the first id with that spelling *)
Definition intern_of (ns : N -> list N) (ids : list N) (w : list N) : N :=
  match find (fun n => leqb (ns n) w) ids with Some n => n | None => 0 end.
Definition ids30 : list N := map N.of_nat (seq 1 30).

(* ex0, ex1, ex2 of Proofs/ProgPrintCorrect.v: trees and texts produced by the real parser and printer.
   ex1 has a type alias, `mod witness {}`, 1-tuples, `<u16>::into(..)`, `unwrap_left::<u8>(..)`,
   `fold::<f, 8>`, `for_while::<f>`, a nested block statement `{ .. };`, a match with a block arm;
   ex2 has blocks as match scrutinee / arms / statements, nested 1-tuples, `[List<Option<bool>, 2>; 0]`. *)
Example ex0_lex : lex (intern_of ex0_ns ids30) ex0_text = Some (tokens_program ex0_prog).
Proof. vm_compute. reflexivity. Qed.
Example ex0_text_roundtrip : parse_text (intern_of ex0_ns ids30) (print_program ex0_ns ex0_prog) = Some (erase_program ex0_prog).
Proof. vm_compute. reflexivity. Qed.
Example ex1_lex : lex (intern_of ex1_ns ids30) ex1_text = Some (tokens_program ex1_prog).
Proof. vm_compute. reflexivity. Qed.
Example ex1_text_roundtrip : parse_text (intern_of ex1_ns ids30) (print_program ex1_ns ex1_prog) = Some (erase_program ex1_prog).
Proof. vm_compute. reflexivity. Qed.
Example ex2_lex : lex (intern_of ex2_ns ids30) ex2_text = Some (tokens_program ex2_prog).
Proof. vm_compute. reflexivity. Qed.
Example ex2_text_roundtrip : parse_text (intern_of ex2_ns ids30) (print_program ex2_ns ex2_prog) = Some (erase_program ex2_prog).
Proof. vm_compute. reflexivity. Qed.

(* the hypotheses of the theorems hold of them, so the round trips above are also instances of (c) *)
Example ex1_hyps :
  prog_wf ex1_prog = true /\ prog_names_ok ex1_ns (intern_of ex1_ns ids30) ex1_prog = true /\
  sep_ok (lay_program ex1_prog) = true /\ ctx_ok (tokens_program ex1_prog) = true.
Proof. vm_compute. repeat split. Qed.
Example ex2_hyps :
  prog_wf ex2_prog = true /\ prog_names_ok ex2_ns (intern_of ex2_ns ids30) ex2_prog = true /\
  sep_ok (lay_program ex2_prog) = true /\ ctx_ok (tokens_program ex2_prog) = true.
Proof. vm_compute. repeat split. Qed.
Example ex1_by_theorem :
  parse_text (intern_of ex1_ns ids30) (print_program ex1_ns ex1_prog) = Some (erase_program ex1_prog).
Proof. apply print_parse_text; vm_compute; reflexivity. Qed.

(* the SOURCE text of ex2 (with a comment, `1_0`, trailing commas, arms in the other order, a module with
   contents) is read as the tree that the real parser built from it *)
Definition ex2_source : list N := bytes
"mod param { const X: u8 = 1; const Y: (u8, bool) = (2, true); }
type A = (); type B = (A,); type C = ((u1, u2), [List<Option<bool>, 2>; 0], Either<(),Either<u256,u128>>,);
fn g(a: A) -> B { (a,) }
fn h() { }
fn main() {
  /* comment */
  let (x,): (u8,) = (1_0,);
  let ((a, _), [], [b,], ()): ((u8, u8), [u8; 0], [u8; 1], ()) = ((1, 2), [], [3,], (),);
  let c: bool = match true { true => false, false => { true }, };
  let d: u8 = match { Left(c) } { Right(r: u8) => { let q: u8 = r; q } Left(l: bool) => match l { false => 0, true => 1, }, };
  {}; {{}}; { {}; };
  let e: u8 = ((((1))));
  let f: List<u8, 2> = list![];
  let i: List<u8, 2> = list![1,];
  let j: u16 = 0xAbCd;
  let k: (u8, u8, u8) = (1, 2, 3);
  match None { Some(v: u8) => {}, None => {} };
  h();
  g(())
}
".
Example ex2_source_parse : parse_text (intern_of ex2_ns ids30) ex2_source = Some (erase_program ex2_prog).
Proof. vm_compute. reflexivity. Qed.

(* ex3: names that begin with keywords, `>>>` runs, numbers in all their contexts
type Lst = List<[u8; 2], 4>;
fn lettuce(u8x: Lst, Nonesuch: (bool,)) -> Either<u8,Option<Option<u8>>> {
    let true_x: u8 = <Either<u8,List<u8, 4>>>::into(u8x);
    let fnord: Option<Option<u8>> = unwrap_right::<Option<Option<u8>>>(witness::None);
    { true_x; 2 };
    let matcher: [u8; 2] = [1, 0xfF];
    match jet::le_8(0b01, param::let_) {
        false => { Left(true_x) },
        true => Right(fold::<lettuce, 8>(matcher, (fnord,))),
    }
} *)
Definition ex3_ns (n : N) : list N :=
  match n with
  | 1 => bytes "Lst" | 2 => bytes "lettuce" | 3 => bytes "u8x" | 4 => bytes "Nonesuch" | 5 => bytes "true_x"
  | 6 => bytes "fnord" | 7 => bytes "None" | 8 => bytes "matcher" | 9 => bytes "le_8" | 10 => bytes "let_"
  | _ => []
  end.
Definition ex3_prog : pprogram :=
  [ ITypeAlias 1 (AList (AArray (AUInt 3) 2) 2);
    IFunction 2 [(3, AAlias 1); (4, ATuple [ABool])] (Some (AEither (AUInt 3) (AOption (AOption (AUInt 3)))))
      (PBlock
         [ (Some (PId 5, AUInt 3), PCall 1 (PCast (AEither (AUInt 3) (AList (AUInt 3) 2))) [PVar 3]);
           (Some (PId 6, AOption (AOption (AUInt 3))),
            PCall 2 (PUnwrapRight (AOption (AOption (AUInt 3)))) [PWitness 7]);
           (None, PBlock [(None, PVar 5)] (Some (PLit (LDec [50]))));
           (Some (PId 8, AArray (AUInt 3) 2), PArray [PLit (LDec [49]); PLit (LHex [102;70])]) ]
         (Some (PMatch (PCall 3 (PJet 9) [PLit (LBin [48;49]); PParam 10])
                       MFalse (PBlock [] (Some (PLeft (PVar 5))))
                       MTrue (PRight (PCall 4 (PFold 2 3) [PVar 8; PTuple [PVar 6]]))))) ].
Definition ex3_text : list N := bytes
"type Lst = List<[u8; 2], 4>;
fn lettuce(u8x: Lst, Nonesuch: (bool,)) -> Either<u8,Option<Option<u8>>> {
let true_x: u8 = <Either<u8,List<u8, 4>>>::into(u8x);
    let fnord: Option<Option<u8>> = unwrap_right::<Option<Option<u8>>>(witness::None);
    {
true_x;
    2}
;
    let matcher: [u8; 2] = [1, 0xfF];
    match jet::le_8(0b01, param::let_){
false => {
Left(true_x)}
,
true => Right(fold::<lettuce, 8>(matcher, (fnord, ))),
}}

".
Example ex3_print : print_program ex3_ns ex3_prog = ex3_text.
Proof. vm_compute. reflexivity. Qed.
Example ex3_lex :
  lex (intern_of ex3_ns ids30) ex3_text = Some (tokens_program ex3_prog).
Proof. vm_compute. reflexivity. Qed.
Example ex3_text_roundtrip :
  parse_text (intern_of ex3_ns ids30) (print_program ex3_ns ex3_prog) = Some (erase_program ex3_prog).
Proof. apply print_parse_text; vm_compute; reflexivity. Qed.

(* ex4: the words of the punctuated literals are identifiers when their punctuation does not follow
   (accepted and round-tripped by the real parser / printer as well: rt = eq) *)
Definition ex4_ns (n : N) : list N :=
  match n with
  | 1 => bytes "list" | 2 => bytes "witness" | 3 => bytes "param" | 4 => bytes "fold" | 5 => bytes "jet"
  | 6 => bytes "Either" | 7 => bytes "assert"
  | _ => []
  end.
Definition ex4_prog : pprogram :=
  [IFunction 1 [(2, AUInt 3); (3, AUInt 3)] (Some (AUInt 3))
     (PBlock [ (Some (PId 4, ATuple [AUInt 3; AUInt 3]), PTuple [PVar 2; PVar 3]);
               (Some (PId 5, AUInt 3), PCall 1 (PCustom 1) [PVar 2; PVar 3]);
               (Some (PId 6, AUInt 3), PVar 5) ]
             (Some (PMatch (PSome (PVar 6)) MNone (PVar 2) (MSome 7 (AUInt 3)) (PVar 7))))].
Example ex4_print : print_program ex4_ns ex4_prog = bytes
"fn list(witness: u8, param: u8) -> u8 {
let fold: (u8, u8) = (witness, param);
    let jet: u8 = list(witness, param);
    let Either: u8 = jet;
    match Some(Either){
None => witness,
Some(assert: u8) => assert,
}}

".
Proof. vm_compute. reflexivity. Qed.
Example ex4_text_roundtrip :
  parse_text (intern_of ex4_ns ids30) (print_program ex4_ns ex4_prog) = Some (erase_program ex4_prog).
Proof. apply print_parse_text; vm_compute; reflexivity. Qed.

(* what the lexer does outside the printed language *)
Example lex_comments_and_boundaries :
  lex (intern_of ex3_ns ids30)
      (bytes "let/*c*/lettuce// to the end of the line
	u8x u8 _ _1_0 0b_1 0x_fF 1_0 [u8;16] List<u8,2> , 2 ] ; 2 } => = > >::into >>::into -> mod witness witness::None Left (")
  = Some [TLet; TIdent 2; TIdent 3; TUIntTy 3; TUnderscore; TDec [49;48]; TBin [49]; THex [102;70]; TDec [49;48];
          TLBrack; TUIntTy 3; TSemi; TNum 16; TRBrack; TListLt; TUIntTy 3; TComma; TNum 2; TGt;
          TComma; TDec [50]; TRBrack; TSemi; TDec [50]; TRBrace; TFatArrow; TEq; TGt; TGtInto; TGt; TGtInto; TArrow;
          TMod; TModName true; TWitness 7; TIdent 0; TLParen].
Proof. vm_compute. reflexivity. Qed.
Example lex_rejects :
  lex (fun _ => 0) (bytes "a /* b") = None /\ lex (fun _ => 0) (bytes "a - b") = None /\
  lex (fun _ => 0) (bytes "a ! b") = None /\ lex (fun _ => 0) (bytes "a / b") = None.
Proof. vm_compute. repeat split. Qed.

(* [names_ok] is needed.  A function may be named Left in the grammar (`fn Left(..)`, and `Left (1)` with a
   space is a call of it), but the printer writes the call without the space and the text is then the
   expression Left(1).  The real parser / printer behave in the same way (rt: DIFF). *)
Definition left_ns (n : N) : list N := match n with 1 => bytes "Left" | 2 => bytes "main" | _ => [] end.
Definition left_prog : pprogram := [IFunction 2 [] None (PBlock [] (Some (PCall 0 (PCustom 1) [PLit (LDec [49])])))].
Example names_ok_needed :
  prog_wf left_prog = true /\ prog_names_ok left_ns (intern_of left_ns ids30) left_prog = false /\
  parse_text (intern_of left_ns ids30) (bytes "fn main() { Left (1) }") = Some left_prog /\
  print_program left_ns left_prog = bytes "fn main() {
Left(1)}

" /\
  parse_text (intern_of left_ns ids30) (print_program left_ns left_prog)
  = Some [IFunction 2 [] None (PBlock [] (Some (PLeft (PLit (LDec [49])))))].
Proof. vm_compute. repeat split. Qed.
End LexExamples.

Print Assumptions lex_render.
Print Assumptions lay_program_sep_ok.
Print Assumptions lay_program_sep_ok_all.
Print Assumptions tokens_program_ctx_ok.
Print Assumptions print_lex.
Print Assumptions print_parse_text.
Print Assumptions print_text_injective.
