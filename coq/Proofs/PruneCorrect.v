(* Shrinking witness values to the inferred type of their node (Wit/Prune.v, named.rs prune_value):
   (a) the shrunk value has the shrunk type;
   (b) a type-correct witness can be shrunk to every shrunk type, and shrinking to the own type changes nothing;
   (c) the stack machine + compact encoding + decoding of the Rust code computes the structural description;
   (d) a program that is well typed with its witness nodes at the smaller types cannot tell the difference:
       its run on the shrunk witnesses is the shrunk image of its run on the full witnesses. *)
From Coq Require Import List Arith NArith Lia Bool.
Import ListNotations.
Require Import SV.Base.Util SV.Simp.Core SV.Simp.Typing SV.Layout.Ty SV.Layout.Value SV.Wit.Consistent SV.Wit.Prune
               SV.Proofs.LayoutRoundtrip SV.Proofs.WitnessCorrect.

(* ================= (a), (b): the structural description ================= *)

Lemma prune_unit v : prune v SUnit = Some VU.
Proof. reflexivity. Qed.

Lemma prune_sum_inv a b v w : prune v (SSum a b) = Some w ->
  (exists x x', v = VL x /\ w = VL x' /\ prune x a = Some x') \/
  (exists y y', v = VR y /\ w = VR y' /\ prune y b = Some y').
Proof.
  intros H. cbn [prune] in H. destruct v as [|x|y|? ?]; try discriminate.
  - destruct (prune x a) as [x'|] eqn:E; [|discriminate]. inversion H; subst. left. exists x, x'. auto.
  - destruct (prune y b) as [y'|] eqn:E; [|discriminate]. inversion H; subst. right. exists y, y'. auto.
Qed.

Lemma prune_prod_inv a b v w : prune v (SProd a b) = Some w ->
  exists x y x' y', v = VP x y /\ w = VP x' y' /\ prune x a = Some x' /\ prune y b = Some y'.
Proof.
  intros H. cbn [prune] in H. destruct v as [| | |x y]; try discriminate.
  destruct (prune x a) as [x'|] eqn:E1; [|discriminate]. destruct (prune y b) as [y'|] eqn:E2; [|discriminate].
  inversion H; subst. exists x, y, x', y'. auto.
Qed.

Lemma prune_prod_intro a b x y x' y' : prune x a = Some x' -> prune y b = Some y' ->
  prune (VP x y) (SProd a b) = Some (VP x' y').
Proof. intros H1 H2. cbn [prune]. rewrite H1, H2. reflexivity. Qed.

(* (a) *)
Theorem prune_typed : forall t' v w, prune v t' = Some w -> vty w t' = true.
Proof.
  induction t' as [|a IHa b IHb|a IHa b IHb]; intros v w H.
  - cbn [prune] in H. inversion H; subst. reflexivity.
  - apply prune_sum_inv in H as [(x & x' & -> & -> & E)|(y & y' & -> & -> & E)]; cbn [vty]; eauto.
  - apply prune_prod_inv in H as (x & y & x' & y' & -> & -> & E1 & E2). cbn [vty].
    rewrite (IHa _ _ E1), (IHb _ _ E2). reflexivity.
Qed.

(* (b) *)
Theorem prune_total : forall t' v t, vty v t = true -> shrinks t' t = true -> exists w, prune v t' = Some w.
Proof.
  induction t' as [|a' IHa b' IHb|a' IHa b' IHb]; intros v t Hv Hs.
  - exists VU. reflexivity.
  - destruct t as [|a b|a b]; cbn [shrinks] in Hs; try discriminate. apply andb_true_iff in Hs as [Sa Sb].
    destruct v as [|x|y|? ?]; cbn [vty] in Hv; try discriminate.
    + destruct (IHa _ _ Hv Sa) as (w & E). exists (VL w). cbn [prune]. rewrite E. reflexivity.
    + destruct (IHb _ _ Hv Sb) as (w & E). exists (VR w). cbn [prune]. rewrite E. reflexivity.
  - destruct t as [|a b|a b]; cbn [shrinks] in Hs; try discriminate. apply andb_true_iff in Hs as [Sa Sb].
    destruct v as [| | |x y]; cbn [vty] in Hv; try discriminate. apply andb_true_iff in Hv as [Hx Hy].
    destruct (IHa _ _ Hx Sa) as (w1 & E1). destruct (IHb _ _ Hy Sb) as (w2 & E2).
    exists (VP w1 w2). now apply prune_prod_intro.
Qed.

Theorem prune_id : forall t v, vty v t = true -> prune v t = Some v.
Proof.
  induction t as [|a IHa b IHb|a IHa b IHb]; intros v Hv; destruct v as [|x|y|x y]; cbn [vty] in Hv; try discriminate.
  - reflexivity.
  - cbn [prune]. rewrite (IHa _ Hv). reflexivity.
  - cbn [prune]. rewrite (IHb _ Hv). reflexivity.
  - apply andb_true_iff in Hv as [Hx Hy]. apply prune_prod_intro; auto.
Qed.

(* the converse of prune_id: only values of the type are left unchanged *)
Corollary prune_id_iff t v : prune v t = Some v <-> vty v t = true.
Proof. split; [apply prune_typed|apply prune_id]. Qed.

Lemma shrinks_refl t : shrinks t t = true.
Proof. induction t; cbn [shrinks]; auto; now rewrite IHt1, IHt2. Qed.

Lemma shrinks_trans : forall t1 t2 t3, shrinks t1 t2 = true -> shrinks t2 t3 = true -> shrinks t1 t3 = true.
Proof.
  induction t1 as [|a IHa b IHb|a IHa b IHb]; intros t2 t3 H12 H23; [reflexivity| |];
    destruct t2 as [|a2 b2|a2 b2]; cbn [shrinks] in H12; try discriminate;
    destruct t3 as [|a3 b3|a3 b3]; cbn [shrinks] in H23; try discriminate;
    apply andb_true_iff in H12 as [? ?]; apply andb_true_iff in H23 as [? ?]; cbn [shrinks];
    apply andb_true_iff; split; eauto.
Qed.

(* shrinking in two steps is shrinking in one step *)
Theorem prune_prune : forall t'' t' v w, shrinks t'' t' = true -> prune v t' = Some w -> prune w t'' = prune v t''.
Proof.
  induction t'' as [|a IHa b IHb|a IHa b IHb]; intros t' v w Hs H; [reflexivity| |];
    destruct t' as [|a' b'|a' b']; cbn [shrinks] in Hs; try discriminate; apply andb_true_iff in Hs as [Sa Sb].
  - apply prune_sum_inv in H as [(x & x' & -> & -> & E)|(y & y' & -> & -> & E)]; cbn [prune].
    + now rewrite (IHa _ _ _ Sa E).
    + now rewrite (IHb _ _ _ Sb E).
  - apply prune_prod_inv in H as (x & y & x' & y' & -> & -> & E1 & E2). cbn [prune].
    now rewrite (IHa _ _ _ Sa E1), (IHb _ _ _ Sb E2).
Qed.

(* a value that can be shrunk to a type can be shrunk to every smaller one *)
Corollary prune_shrinks t'' t' v w : shrinks t'' t' = true -> prune v t' = Some w -> exists u, prune v t'' = Some u.
Proof.
  intros Hs H. destruct (prune_total t'' w t' (prune_typed _ _ _ H) Hs) as (u & E).
  exists u. rewrite <- E. symmetry. eapply prune_prune; eauto.
Qed.

(* ================= (c): the stack machine and the bit encoding ================= *)

(* the compact encoding of the shrunk value, by recursion on the type (specification of the loop) *)
Fixpoint enc (v:sval) (t:sty) {struct t} : option (list bool) :=
  match t with
  | SUnit => Some []
  | SSum a b =>
      match v with
      | VL x => match enc x a with Some p => Some (false :: p) | None => None end
      | VR y => match enc y b with Some p => Some (true :: p) | None => None end
      | _ => None end
  | SProd a b =>
      match v with
      | VP x y => match enc x a, enc y b with Some p, Some q => Some (p ++ q) | _, _ => None end
      | _ => None end
  end.

Fixpoint enc_stack (st:list (sval*sty)) : option (list bool) :=
  match st with
  | [] => Some []
  | (v, t) :: st' => match enc v t, enc_stack st' with Some p, Some q => Some (p ++ q) | _, _ => None end
  end.

Fixpoint stack_size (st:list (sval*sty)) : nat :=
  match st with [] => 0 | (_, t) :: st' => sty_size t + stack_size st' end.

Lemma sty_size_pos t : 1 <= sty_size t.
Proof. destruct t; cbn [sty_size]; lia. Qed.

(* the loop appends the encodings of the stack entries, top first, to the bits collected so far *)
Lemma compact_loop_spec : forall fuel stack bits, stack_size stack <= fuel ->
  compact_loop fuel stack bits = match enc_stack stack with Some p => Some (bits ++ p) | None => None end.
Proof.
  induction fuel as [|f IH]; intros stack bits Hf.
  - destruct stack as [|[v t] st].
    + cbn [compact_loop enc_stack]. now rewrite app_nil_r.
    + cbn [stack_size] in Hf. pose proof (sty_size_pos t). lia.
  - destruct stack as [|[v t] st]; cbn [compact_loop].
    + cbn [enc_stack]. now rewrite app_nil_r.
    + cbn [stack_size] in Hf. destruct t as [|a b|a b]; cbn [sty_size] in Hf.
      * rewrite IH by lia. cbn [enc_stack enc]. destruct (enc_stack st); reflexivity.
      * destruct v as [|x|y|? ?]; cbn [enc_stack enc]; try reflexivity.
        -- rewrite IH by (cbn [stack_size]; lia). cbn [enc_stack].
           destruct (enc x a) as [p|]; [|reflexivity]. destruct (enc_stack st) as [q|]; [|reflexivity].
           rewrite <- app_assoc. reflexivity.
        -- rewrite IH by (cbn [stack_size]; lia). cbn [enc_stack].
           destruct (enc y b) as [p|]; [|reflexivity]. destruct (enc_stack st) as [q|]; [|reflexivity].
           rewrite <- app_assoc. reflexivity.
      * destruct v as [| | |x y]; cbn [enc_stack enc]; try reflexivity.
        rewrite IH by (cbn [stack_size]; lia). cbn [enc_stack].
        destruct (enc x a) as [p|]; [|reflexivity]. destruct (enc y b) as [q|]; [|reflexivity].
        destruct (enc_stack st) as [r|]; [|reflexivity]. rewrite <- app_assoc. reflexivity.
Qed.

Lemma compact_bits_enc v t : compact_bits v t = enc v t.
Proof.
  unfold compact_bits. rewrite compact_loop_spec by (cbn [stack_size]; lia).
  cbn [enc_stack]. destruct (enc v t) as [p|]; [|reflexivity]. cbn [app]. now rewrite app_nil_r.
Qed.

(* more fuel changes nothing *)
Corollary compact_loop_fuel v t fuel : sty_size t <= fuel -> compact_loop fuel [(v, t)] [] = compact_bits v t.
Proof.
  intros H. unfold compact_bits. rewrite !compact_loop_spec by (cbn [stack_size]; lia). reflexivity.
Qed.

(* the encoder succeeds exactly when the value can be shrunk, and the decoder reads the shrunk value back,
   leaving what follows the encoding untouched *)
Lemma enc_prune : forall t v,
  match prune v t with
  | Some w => exists bs, enc v t = Some bs /\ forall rest, of_compact_bits t (bs ++ rest) = Some (w, rest)
  | None => enc v t = None
  end.
Proof.
  induction t as [|a IHa b IHb|a IHa b IHb]; intros v.
  - cbn [prune enc]. exists []. split; [reflexivity|]. intros rest. reflexivity.
  - destruct v as [|x|y|? ?]; cbn [prune enc]; try reflexivity.
    + specialize (IHa x). destruct (prune x a) as [x'|].
      * destruct IHa as (bs & E & D). exists (false :: bs). rewrite E. split; [reflexivity|].
        intros rest. cbn [app of_compact_bits]. rewrite D. reflexivity.
      * rewrite IHa. reflexivity.
    + specialize (IHb y). destruct (prune y b) as [y'|].
      * destruct IHb as (bs & E & D). exists (true :: bs). rewrite E. split; [reflexivity|].
        intros rest. cbn [app of_compact_bits]. rewrite D. reflexivity.
      * rewrite IHb. reflexivity.
  - destruct v as [| | |x y]; cbn [prune enc]; try reflexivity.
    specialize (IHa x). specialize (IHb y). destruct (prune x a) as [x'|].
    + destruct IHa as (p & Ep & Dp). rewrite Ep. destruct (prune y b) as [y'|].
      * destruct IHb as (q & Eq & Dq). rewrite Eq. exists (p ++ q). split; [reflexivity|].
        intros rest. cbn [of_compact_bits]. rewrite <- app_assoc, Dp, Dq. reflexivity.
      * rewrite IHb. reflexivity.
    + rewrite IHa. reflexivity.
Qed.

(* decode (encode w) = w, also in front of more bits *)
Theorem of_compact_bits_compact_bits w t : vty w t = true ->
  exists bs, compact_bits w t = Some bs /\ forall rest, of_compact_bits t (bs ++ rest) = Some (w, rest).
Proof.
  intros H. pose proof (enc_prune t w) as P. rewrite (prune_id _ _ H) in P.
  destruct P as (bs & E & D). exists bs. rewrite compact_bits_enc. auto.
Qed.

(* the same for the shrinking encoder: whatever it emits decodes to the shrunk value *)
Theorem of_compact_bits_compact_bits_prune v t bs rest : compact_bits v t = Some bs ->
  exists w, prune v t = Some w /\ of_compact_bits t (bs ++ rest) = Some (w, rest).
Proof.
  rewrite compact_bits_enc. intros E. pose proof (enc_prune t v) as P. destruct (prune v t) as [w|].
  - destruct P as (bs' & E' & D). rewrite E in E'. inversion E'; subst. exists w. auto.
  - congruence.
Qed.

(* (c) *)
Theorem prune_value_eq_prune v t : prune_value v t = prune v t.
Proof.
  unfold prune_value. rewrite compact_bits_enc. pose proof (enc_prune t v) as P. destruct (prune v t) as [w|].
  - destruct P as (bs & E & D). rewrite E. specialize (D []). rewrite app_nil_r in D. rewrite D. reflexivity.
  - rewrite P. reflexivity.
Qed.

(* the byte-padded variant (what the Rust code literally does) computes the same *)
Theorem prune_value_bytes_eq_prune v t : prune_value_bytes v t = prune v t.
Proof.
  unfold prune_value_bytes, pad8. rewrite compact_bits_enc. pose proof (enc_prune t v) as P. destruct (prune v t) as [w|].
  - destruct P as (bs & E & D). rewrite E, D. reflexivity.
  - rewrite P. reflexivity.
Qed.

Corollary prune_value_typed v t w : prune_value v t = Some w -> vty w t = true.
Proof. rewrite prune_value_eq_prune. apply prune_typed. Qed.

(* ================= (d): a program typed at the shrunk types cannot tell the difference ================= *)

(* w is v shrunk to ty *)
Definition R (ty:sty) (v w:sval) : Prop := prune v ty = Some w.

(* both runs yield values, the second the shrunk image of the first, or both fail; neither is stuck *)
Definition rel_out (b:sty) (o1 o2:out) : Prop :=
  match o1, o2 with Val v, Val w => R b v w | Failed, Failed => True | _, _ => False end.
Definition rel_opt (b:sty) (o1 o2:option sval) : Prop :=
  match o1, o2 with Some v, Some w => R b v w | None, None => True | _, _ => False end.

Lemma R_typed ty v w : R ty v w -> vty w ty = true.
Proof. apply prune_typed. Qed.
Lemma R_refl ty v : vty v ty = true -> R ty v v.
Proof. apply prune_id. Qed.
(* R is a function of its first argument *)
Lemma R_fun ty v w w' : R ty v w -> R ty v w' -> w = w'.
Proof. unfold R. congruence. Qed.
(* on values of the type itself R is equality *)
Lemma R_typed_eq ty v w : vty v ty = true -> R ty v w -> w = v.
Proof. intros H HR. apply prune_id in H. unfold R in HR. congruence. Qed.

Section Semantic.
Variable jsig_s : N -> option (sty * sty).
Variable wty : N -> option sty.               (* the (shrunk) type of every witness node *)
Variable jet : N -> sval -> option sval.
Variable wit1 wit2 : N -> option sval.        (* the full witnesses and the shrunk ones *)

(* where the first run calls a jet, the jet's input satisfies P *)
Variable P : N -> sval -> Prop.
Fixpoint jets_on (t:term) (x:sval) : Prop :=
  match t with
  | Iden | Unit | Fail | Wit _ => True
  | InjL s | InjR s => jets_on s x
  | Take s => match x with VP a _ => jets_on s a | _ => True end
  | Drop s => match x with VP _ b => jets_on s b | _ => True end
  | Comp s u => jets_on s x /\ match eval jet wit1 s x with Val v => jets_on u v | _ => True end
  | Case s u => match x with VP (VL a) c => jets_on s (VP a c) | VP (VR b) c => jets_on u (VP b c) | _ => True end
  | AssertL s _ => match x with VP (VL a) c => jets_on s (VP a c) | _ => True end
  | AssertR _ u => match x with VP (VR b) c => jets_on u (VP b c) | _ => True end
  | Pair s u => jets_on s x /\ jets_on u x
  | Jet j => P j x
  end.

(* every typed witness node is populated in both runs, in the second with the shrunk value of the first *)
Hypothesis Hwit : forall n ty, wty n = Some ty -> exists v w, wit1 n = Some v /\ wit2 n = Some w /\ R ty v w.
(* a jet answers related inputs (that satisfy P) alike *)
Hypothesis Hjet : forall j a b x x', jsig_s j = Some (a, b) -> R a x x' -> P j x -> rel_opt b (jet j x) (jet j x').

Theorem prune_run_related_gen t a b : tj jsig_s wty t a b ->
  forall x x', R a x x' -> jets_on t x -> rel_out b (eval jet wit1 t x) (eval jet wit2 t x').
Proof.
  induction 1 as [a|a|t a b c Ht IH|t a b c Ht IH|t a b c Ht IH|t a b c Ht IH|s t a b c Hs IHs Ht IHt
                 |s t a b c d Hs IHs Ht IHt|s h a b c d Hs IHs|h t a b c d Ht IHt|s t a b c Hs IHs Ht IHt|a b|n a b Hn|j a b Hj];
    intros x x' HR HJ; cbn [eval]; cbn [jets_on] in HJ.
  - exact HR.
  - reflexivity.
  - specialize (IH _ _ HR HJ). destruct (eval jet wit1 t x) as [v| |], (eval jet wit2 t x') as [w| |];
      cbn [bind rel_out] in *; try contradiction; auto. unfold R in *. cbn [prune]. rewrite IH. reflexivity.
  - specialize (IH _ _ HR HJ). destruct (eval jet wit1 t x) as [v| |], (eval jet wit2 t x') as [w| |];
      cbn [bind rel_out] in *; try contradiction; auto. unfold R in *. cbn [prune]. rewrite IH. reflexivity.
  - apply prune_prod_inv in HR as (x1 & x2 & y1 & y2 & -> & -> & R1 & R2). apply IH; assumption.
  - apply prune_prod_inv in HR as (x1 & x2 & y1 & y2 & -> & -> & R1 & R2). apply IH; assumption.
  - destruct HJ as [HJ1 HJ2]. specialize (IHs _ _ HR HJ1).
    destruct (eval jet wit1 s x) as [v| |], (eval jet wit2 s x') as [w| |]; cbn [bind rel_out] in *; try contradiction; auto.
  - apply prune_prod_inv in HR as (x1 & x2 & y1 & y2 & -> & -> & R1 & R2).
    apply prune_sum_inv in R1 as [(u & u' & -> & -> & E)|(u & u' & -> & -> & E)].
    + apply IHs; [|exact HJ]. now apply prune_prod_intro.
    + apply IHt; [|exact HJ]. now apply prune_prod_intro.
  - apply prune_prod_inv in HR as (x1 & x2 & y1 & y2 & -> & -> & R1 & R2).
    apply prune_sum_inv in R1 as [(u & u' & -> & -> & E)|(u & u' & -> & -> & E)].
    + apply IHs; [|exact HJ]. now apply prune_prod_intro.
    + exact I.
  - apply prune_prod_inv in HR as (x1 & x2 & y1 & y2 & -> & -> & R1 & R2).
    apply prune_sum_inv in R1 as [(u & u' & -> & -> & E)|(u & u' & -> & -> & E)].
    + exact I.
    + apply IHt; [|exact HJ]. now apply prune_prod_intro.
  - destruct HJ as [HJ1 HJ2]. specialize (IHs _ _ HR HJ1). specialize (IHt _ _ HR HJ2).
    destruct (eval jet wit1 s x) as [v1| |], (eval jet wit2 s x') as [w1| |]; cbn [bind rel_out] in *; try contradiction; auto.
    destruct (eval jet wit1 t x) as [v2| |], (eval jet wit2 t x') as [w2| |]; cbn [bind rel_out] in *; try contradiction; auto.
    now apply prune_prod_intro.
  - exact I.
  - destruct (Hwit _ _ Hn) as (v & w & E1 & E2 & HRw). rewrite E1, E2. exact HRw.
  - specialize (Hjet _ _ _ _ _ Hj HR HJ). destruct (jet j x) as [v|], (jet j x') as [w|]; cbn [rel_opt rel_out] in *; auto.
Qed.

(* the second run is a well-typed run: its witnesses have the types of their nodes *)
Lemma shrunk_witnesses_typed n b : wty n = Some b -> exists v, wit2 n = Some v /\ vty v b = true.
Proof. intros Hn. destruct (Hwit _ _ Hn) as (v & w & _ & E2 & HRw). exists w. split; [exact E2|]. eapply R_typed; eauto. Qed.
End Semantic.

(* ---- instance 1: jets that respect R everywhere ---- *)
Section SemanticResp.
Variable jsig_s : N -> option (sty * sty).
Variable wty : N -> option sty.
Variable jet : N -> sval -> option sval.
Variable wit1 wit2 : N -> option sval.
Hypothesis Hwit : forall n ty, wty n = Some ty -> exists v w, wit1 n = Some v /\ wit2 n = Some w /\ R ty v w.
Hypothesis Hjet : forall j a b x x', jsig_s j = Some (a, b) -> R a x x' -> rel_opt b (jet j x) (jet j x').

Lemma jets_on_True t : forall x, jets_on jet wit1 (fun _ _ => True) t x.
Proof.
  induction t; intros x; cbn [jets_on]; auto.
  - destruct x; auto.
  - destruct x; auto.
  - split; auto. destruct (eval jet wit1 t1 x); auto.
  - destruct x as [| | |[|?|?|? ?] ?]; auto.
  - destruct x as [| | |[|?|?|? ?] ?]; auto.
  - destruct x as [| | |[|?|?|? ?] ?]; auto.
Qed.

Theorem prune_run_related t a b : tj jsig_s wty t a b ->
  forall x x', R a x x' -> rel_out b (eval jet wit1 t x) (eval jet wit2 t x').
Proof.
  intros Ht x x' HR.
  apply (prune_run_related_gen jsig_s wty jet wit1 wit2 (fun _ _ => True) Hwit) with (a := a).
  - intros j a0 b0 y y' Hj Hy _. eapply Hjet; eauto.
  - exact Ht.
  - exact HR.
  - apply jets_on_True.
Qed.

(* determinism of R: the second run is computed from the first *)
Corollary prune_run_val t a b x x' v : tj jsig_s wty t a b -> R a x x' ->
  eval jet wit1 t x = Val v -> exists w, prune v b = Some w /\ eval jet wit2 t x' = Val w.
Proof.
  intros Ht HR E. pose proof (prune_run_related t a b Ht x x' HR) as H. rewrite E in H.
  destruct (eval jet wit2 t x') as [w| |]; cbn [rel_out] in H; try contradiction. exists w. auto.
Qed.
Corollary prune_run_failed t a b x x' : tj jsig_s wty t a b -> R a x x' ->
  (eval jet wit1 t x = Failed <-> eval jet wit2 t x' = Failed).
Proof.
  intros Ht HR. pose proof (prune_run_related t a b Ht x x' HR) as H.
  destruct (eval jet wit1 t x) as [v| |], (eval jet wit2 t x') as [w| |]; cbn [rel_out] in H; try contradiction;
    split; congruence.
Qed.
Corollary prune_run_not_stuck t a b x x' : tj jsig_s wty t a b -> R a x x' ->
  eval jet wit1 t x <> Stuck /\ eval jet wit2 t x' <> Stuck.
Proof.
  intros Ht HR. pose proof (prune_run_related t a b Ht x x' HR) as H.
  destruct (eval jet wit1 t x) as [v| |], (eval jet wit2 t x') as [w| |]; cbn [rel_out] in H; try contradiction;
    split; congruence.
Qed.

(* the whole program: unit output (and any input for the first run, the unit value for the second) —
   both runs succeed or both fail.  The value of the first run need not be the unit value:
   that run is not a typed one (think of the program [Wit n] with node type unit). *)
Corollary prune_program t x : tj jsig_s wty t SUnit SUnit ->
  ((exists v, eval jet wit1 t x = Val v) /\ eval jet wit2 t VU = Val VU) \/
  (eval jet wit1 t x = Failed /\ eval jet wit2 t VU = Failed).
Proof.
  intros Ht. pose proof (prune_run_related t SUnit SUnit Ht x VU eq_refl) as H.
  destruct (eval jet wit1 t x) as [v| |], (eval jet wit2 t VU) as [w| |]; cbn [rel_out] in H; try contradiction.
  - left. split; [exists v; reflexivity|]. unfold R in H. cbn [prune] in H. congruence.
  - right. auto.
Qed.
End SemanticResp.

(* ---- instance 2: no assumption on what jets do outside their source type, but the first run
        hands every jet a value of the jet's source type (no part of a jet input is shrunk) ---- *)
Section SemanticTypedJets.
Variable jsig_s : N -> option (sty * sty).
Variable wty : N -> option sty.
Variable jet : N -> sval -> option sval.
Variable wit1 wit2 : N -> option sval.
Hypothesis Hwit : forall n ty, wty n = Some ty -> exists v w, wit1 n = Some v /\ wit2 n = Some w /\ R ty v w.
Hypothesis Hjet_s : forall j a b v w, jsig_s j = Some (a, b) -> vty v a = true -> jet j v = Some w -> vty w b = true.

Definition jet_input_typed (j:N) (x:sval) : Prop := forall a b, jsig_s j = Some (a, b) -> vty x a = true.

Theorem prune_run_related_typed_jets t a b : tj jsig_s wty t a b ->
  forall x x', R a x x' -> jets_on jet wit1 jet_input_typed t x -> rel_out b (eval jet wit1 t x) (eval jet wit2 t x').
Proof.
  intros Ht x x' HR HJ.
  apply (prune_run_related_gen jsig_s wty jet wit1 wit2 jet_input_typed Hwit) with (a := a); auto.
  intros j a0 b0 y y' Hj Hy HP. specialize (HP _ _ Hj). rewrite (R_typed_eq _ _ _ HP Hy).
  destruct (jet j y) as [w|] eqn:E; cbn [rel_opt]; auto. apply R_refl. eapply Hjet_s; eauto.
Qed.
End SemanticTypedJets.

(* ---- instance 3: every jet can be made to respect R: look only at the part of the input that the source type describes.
        On inputs of the source type nothing changes, so the typed (second) run can use the jets as they are. ---- *)
Definition jet_norm (jsig_s:N -> option (sty*sty)) (jet:N -> sval -> option sval) (j:N) (x:sval) : option sval :=
  match jsig_s j with
  | Some (a, _) => match prune x a with Some x' => jet j x' | None => None end
  | None => jet j x end.

Section SemanticNorm.
Variable jsig_s : N -> option (sty * sty).
Variable wty : N -> option sty.
Variable jet : N -> sval -> option sval.
Variable wit1 wit2 : N -> option sval.
Hypothesis Hwit : forall n ty, wty n = Some ty -> exists v w, wit1 n = Some v /\ wit2 n = Some w /\ R ty v w.
Hypothesis Hjet_s : forall j a b v w, jsig_s j = Some (a, b) -> vty v a = true -> jet j v = Some w -> vty w b = true.

Lemma jet_norm_typed j a b x : jsig_s j = Some (a, b) -> vty x a = true -> jet_norm jsig_s jet j x = jet j x.
Proof. intros Hj Hx. unfold jet_norm. rewrite Hj, (prune_id _ _ Hx). reflexivity. Qed.

Lemma jet_norm_resp j a b x x' : jsig_s j = Some (a, b) -> R a x x' ->
  rel_opt b (jet_norm jsig_s jet j x) (jet_norm jsig_s jet j x').
Proof.
  intros Hj HR. unfold jet_norm. rewrite Hj. pose proof (R_typed _ _ _ HR) as Tx'.
  unfold R in HR. rewrite HR, (prune_id _ _ Tx').
  destruct (jet j x') as [w|] eqn:E; cbn [rel_opt]; auto. apply R_refl. eapply Hjet_s; eauto.
Qed.

(* in a typed run only the behaviour of the jets on their source types matters *)
Lemma eval_jet_typed_ext (jet' : N -> sval -> option sval) (wit : N -> option sval) :
  (forall n b, wty n = Some b -> exists v, wit n = Some v /\ vty v b = true) ->
  (forall j a b v, jsig_s j = Some (a, b) -> vty v a = true -> jet' j v = jet j v) ->
  forall t a b, tj jsig_s wty t a b -> forall v, vty v a = true -> eval jet' wit t v = eval jet wit t v.
Proof.
  intros Hwit_s Hag.
  induction 1 as [a|a|t a b c Ht IH|t a b c Ht IH|t a b c Ht IH|t a b c Ht IH|s t a b c Hs IHs Ht IHt
                 |s t a b c d Hs IHs Ht IHt|s h a b c d Hs IHs|h t a b c d Ht IHt|s t a b c Hs IHs Ht IHt|a b|n a b Hn|j a b Hj];
    intros v Hv; cbn [eval]; auto.
  - now rewrite IH.
  - now rewrite IH.
  - destruct v as [| | |x y]; cbn [vty] in Hv; try discriminate. apply andb_true_iff in Hv as [Hx Hy]. auto.
  - destruct v as [| | |x y]; cbn [vty] in Hv; try discriminate. apply andb_true_iff in Hv as [Hx Hy]. auto.
  - rewrite (IHs _ Hv). destruct (eval jet wit s v) as [w| |] eqn:E; cbn [bind]; auto.
    apply IHt. eapply (tj_preservation jsig_s wty jet wit Hjet_s Hwit_s); eauto.
  - destruct v as [| | |x y]; cbn [vty] in Hv; try discriminate. apply andb_true_iff in Hv as [Hx Hy].
    destruct x as [|x|x|? ?]; cbn [vty] in Hx; try discriminate.
    + apply IHs. cbn [vty]. now rewrite Hx, Hy.
    + apply IHt. cbn [vty]. now rewrite Hx, Hy.
  - destruct v as [| | |x y]; cbn [vty] in Hv; try discriminate. apply andb_true_iff in Hv as [Hx Hy].
    destruct x as [|x|x|? ?]; cbn [vty] in Hx; try discriminate; auto.
    apply IHs. cbn [vty]. now rewrite Hx, Hy.
  - destruct v as [| | |x y]; cbn [vty] in Hv; try discriminate. apply andb_true_iff in Hv as [Hx Hy].
    destruct x as [|x|x|? ?]; cbn [vty] in Hx; try discriminate; auto.
    apply IHt. cbn [vty]. now rewrite Hx, Hy.
  - now rewrite (IHs _ Hv), (IHt _ Hv).
  - now rewrite (Hag _ _ _ _ Hj Hv).
Qed.

(* the real (typed) run on the shrunk witnesses against the model run on the full witnesses,
   where the model's jets ignore what their source type does not describe *)
Theorem prune_run_related_norm t a b : tj jsig_s wty t a b ->
  forall x x', R a x x' -> rel_out b (eval (jet_norm jsig_s jet) wit1 t x) (eval jet wit2 t x').
Proof.
  intros Ht x x' HR.
  rewrite <- (eval_jet_typed_ext (jet_norm jsig_s jet) wit2 (shrunk_witnesses_typed wty wit1 wit2 Hwit)
               (fun j a b v Hj Hv => jet_norm_typed j a b v Hj Hv) t a b Ht x' (R_typed _ _ _ HR)).
  apply (prune_run_related jsig_s wty (jet_norm jsig_s jet) wit1 wit2 Hwit) with (a := a); auto.
  intros j a0 b0 y y' Hj Hy. eapply jet_norm_resp; eauto.
Qed.
End SemanticNorm.

(* ---- prune_witness_values: the witnesses handed to the Bit Machine ---- *)
Section PruneWitness.
Variable wty : N -> option sty.
Variable wit : N -> option sval.

(* every typed node has a value that can be shrunk to the node's type *)
Definition witnesses_shrinkable : Prop :=
  forall n ty, wty n = Some ty -> exists v w, wit n = Some v /\ prune v ty = Some w.

Lemma prune_witness_rel : witnesses_shrinkable ->
  forall n ty, wty n = Some ty -> exists v w, wit n = Some v /\ prune_witness wty wit n = Some w /\ R ty v w.
Proof.
  intros H n ty Hn. destruct (H _ _ Hn) as (v & w & E & Ew). exists v, w.
  unfold prune_witness. rewrite E, Hn, prune_value_eq_prune, Ew. auto.
Qed.

(* in particular when every value has a (declared) type of which the node's type is a shrunk form *)
Lemma typed_witnesses_shrinkable (full : N -> option sty) :
  (forall n ty, wty n = Some ty -> exists v T, wit n = Some v /\ full n = Some T /\ vty v T = true /\ shrinks ty T = true) ->
  witnesses_shrinkable.
Proof.
  intros H n ty Hn. destruct (H _ _ Hn) as (v & T & E & _ & Tv & Hs).
  destruct (prune_total ty v T Tv Hs) as (w & Ew). exists v, w. auto.
Qed.

(* the shrunk witnesses are what Simplicity asks for: exactly of the type of their node *)
Theorem prune_witness_typed : witnesses_shrinkable ->
  forall n b, wty n = Some b -> exists v, prune_witness wty wit n = Some v /\ vty v b = true.
Proof.
  intros H n b Hn. destruct (prune_witness_rel H _ _ Hn) as (v & w & _ & E & HR). exists w. split; auto. eapply R_typed; eauto.
Qed.

(* a node whose value has the node's type already keeps its value *)
Lemma prune_witness_fix n v ty : wit n = Some v -> wty n = Some ty -> vty v ty = true -> prune_witness wty wit n = Some v.
Proof. intros E Hn Tv. unfold prune_witness. rewrite E, Hn, prune_value_eq_prune, (prune_id _ _ Tv). reflexivity. Qed.

Variable jsig_s : N -> option (sty * sty).
Variable jet : N -> sval -> option sval.
Hypothesis Hshr : witnesses_shrinkable.

Theorem prune_witness_run t a b :
  (forall j a b x x', jsig_s j = Some (a, b) -> R a x x' -> rel_opt b (jet j x) (jet j x')) ->
  tj jsig_s wty t a b -> forall x x', R a x x' -> rel_out b (eval jet wit t x) (eval jet (prune_witness wty wit) t x').
Proof. intros Hjet. apply (prune_run_related jsig_s wty jet wit (prune_witness wty wit) (prune_witness_rel Hshr) Hjet). Qed.

Theorem prune_witness_run_typed_jets t a b :
  (forall j a b v w, jsig_s j = Some (a, b) -> vty v a = true -> jet j v = Some w -> vty w b = true) ->
  tj jsig_s wty t a b -> forall x x', R a x x' -> jets_on jet wit (jet_input_typed jsig_s) t x ->
  rel_out b (eval jet wit t x) (eval jet (prune_witness wty wit) t x').
Proof. intros Hjet_s. apply (prune_run_related_typed_jets jsig_s wty jet wit (prune_witness wty wit) (prune_witness_rel Hshr) Hjet_s). Qed.

(* the satisfied program: it runs on the shrunk witnesses without getting stuck, and succeeds exactly when
   the model run on the full witnesses does *)
Corollary prune_witness_program t :
  (forall j a b v w, jsig_s j = Some (a, b) -> vty v a = true -> jet j v = Some w -> vty w b = true) ->
  tj jsig_s wty t SUnit SUnit -> jets_on jet wit (jet_input_typed jsig_s) t VU ->
  ((exists v, eval jet wit t VU = Val v) /\ eval jet (prune_witness wty wit) t VU = Val VU) \/
  (eval jet wit t VU = Failed /\ eval jet (prune_witness wty wit) t VU = Failed).
Proof.
  intros Hjet_s Ht HJ. pose proof (prune_witness_run_typed_jets t SUnit SUnit Hjet_s Ht VU VU eq_refl HJ) as H.
  destruct (eval jet wit t VU) as [v| |], (eval jet (prune_witness wty wit) t VU) as [w| |]; cbn [rel_out] in H; try contradiction.
  - left. split; [exists v; reflexivity|]. unfold R in H. cbn [prune] in H. congruence.
  - right. auto.
Qed.
End PruneWitness.

(* ---- Simfony level: a consistent witness map populates every declared node with a value of the declared layout
        (Proofs/WitnessCorrect.v consistent_delivers); each can be shrunk to any shrunk form of that layout ---- *)
Theorem simfony_witness_shrinkable v ty : value_wf v = true -> shrinks ty (struct_ty (type_of v)) = true ->
  exists w, prune_value (structural v) ty = Some w /\ vty w ty = true.
Proof.
  intros W Hs. destruct (prune_total ty _ _ (structural_has_type v W) Hs) as (w & E).
  exists w. rewrite prune_value_eq_prune. split; [exact E|]. eapply prune_typed; eauto.
Qed.

Theorem consistent_witnesses_shrinkable vals decl (wty : N -> option sty) :
  NoDup (map fst vals) -> forallb (fun nv => value_wf (snd nv)) vals = true -> wit_consistent vals decl = true ->
  (* every typed node is declared and supplied, and its type is a shrunk form of the declared layout *)
  (forall n ty, wty n = Some ty -> exists T v, decl n = Some T /\ lookupN vals n = Some v /\ shrinks ty (struct_ty T) = true) ->
  witnesses_shrinkable wty (populate vals).
Proof.
  intros ND Hwf Hc H n ty Hn. destruct (H _ _ Hn) as (T & v & Hd & Hl & Hs).
  destruct (consistent_delivers vals decl ND Hwf Hc n T v Hd Hl) as [Ep Tv].
  destruct (prune_total ty _ _ Tv Hs) as (w & E). exists (structural v), w. auto.
Qed.

(* ================= the statement without a hypothesis on jets is false ================= *)
(* A jet of source type unit that insists on the unit value, fed with a witness whose node type is unit:
   the jet is fine on its source type (Hjet_s holds), but the untyped first run hands it the full value. *)
Module Counterexample.
Definition jsig (j:N) : option (sty*sty) := Some (SUnit, SUnit).
Definition jet (j:N) (x:sval) : option sval := match x with VU => Some VU | _ => None end.
Definition wty (n:N) : option sty := Some SUnit.
Definition wit1 (n:N) : option sval := Some (VL VU).
Definition wit2 (n:N) : option sval := Some VU.
Definition prog : term := Comp (Wit 0) (Jet 0).

Fact prog_typed : tj jsig wty prog SUnit SUnit.
Proof. apply TJ_Comp with (b := SUnit); constructor; reflexivity. Qed.
Fact wits_related : forall n ty, wty n = Some ty -> exists v w, wit1 n = Some v /\ wit2 n = Some w /\ R ty v w.
Proof. intros n ty H. inversion H; subst. exists (VL VU), VU. repeat split. Qed.
Fact wit2_is_pruned : forall n, wit2 n = prune_witness wty wit1 n.
Proof. intros n. reflexivity. Qed.
Fact jet_typed : forall j a b v w, jsig j = Some (a, b) -> vty v a = true -> jet j v = Some w -> vty w b = true.
Proof. intros j a b v w H Hv E. inversion H; subst. destruct v; cbn in E; try discriminate. inversion E; subst. reflexivity. Qed.
Fact runs_differ : eval jet wit1 prog VU = Failed /\ eval jet wit2 prog VU = Val VU.
Proof. split; reflexivity. Qed.
Fact not_related : ~ rel_out SUnit (eval jet wit1 prog VU) (eval jet wit2 prog VU).
Proof. cbn. auto. Qed.
(* the jet is called outside its source type, which is what instance 2 excludes *)
Fact jet_called_on_untyped_input : ~ jets_on jet wit1 (jet_input_typed jsig) prog VU.
Proof. cbn. intros [_ H]. specialize (H SUnit SUnit eq_refl). discriminate. Qed.
End Counterexample.

(* ================= examples ================= *)
Definition sbit_ty : sty := SSum SUnit SUnit.
Definition u2_ty : sty := two_two_n 1.
Definition u8_ty : sty := two_two_n 3.

(* Left(Right(false)) : Either<Either<u2, bool>, u8>  shrunk to  Either<Either<(), bool>, ()>
   (the input on which simplicity::Value::prune, which prune_value replaces, gave a right value) *)
Example ex_nested_sum :
  vty (VL (VR (VL VU))) (SSum (SSum u2_ty sbit_ty) u8_ty) = true /\
  shrinks (SSum (SSum SUnit sbit_ty) SUnit) (SSum (SSum u2_ty sbit_ty) u8_ty) = true /\
  prune_value (VL (VR (VL VU))) (SSum (SSum SUnit sbit_ty) SUnit) = Some (VL (VR (VL VU))) /\
  prune_value_bytes (VL (VR (VL VU))) (SSum (SSum SUnit sbit_ty) SUnit) = Some (VL (VR (VL VU))) /\
  compact_bits (VL (VR (VL VU))) (SSum (SSum SUnit sbit_ty) SUnit) = Some [false; true; false].
Proof. vm_compute. repeat split. Qed.

(* the other arms *)
Example ex_nested_sum_left : prune_value (VL (VL (uint_sval 1 2))) (SSum (SSum SUnit sbit_ty) SUnit) = Some (VL (VL VU)).
Proof. vm_compute. reflexivity. Qed.
Example ex_nested_sum_right : prune_value (VR (uint_sval 3 200)) (SSum (SSum SUnit sbit_ty) SUnit) = Some (VR VU).
Proof. vm_compute. reflexivity. Qed.

(* a product with one component dropped: (u8, bool) -> ((), bool) and (u8, bool) -> (u8, ()) *)
Example ex_prod_drop_left : prune_value (VP (uint_sval 3 200) (sbit true)) (SProd SUnit sbit_ty) = Some (VP VU (VR VU)).
Proof. vm_compute. reflexivity. Qed.
Example ex_prod_drop_right :
  prune_value (VP (uint_sval 3 200) (sbit true)) (SProd u8_ty SUnit) = Some (VP (uint_sval 3 200) VU) /\
  compact_bits (VP (uint_sval 3 200) (sbit true)) (SProd u8_ty SUnit) = Some [true; true; false; false; true; false; false; false].
Proof. vm_compute. split; reflexivity. Qed.

(* a nested option: Some(Some(5)) : Option<Option<u8>> with the inner payload, the inner option, everything unused *)
Example ex_nested_option :
  let v := VR (VR (uint_sval 3 5)) in
  prune_value v (SSum SUnit (SSum SUnit u8_ty)) = Some v /\
  prune_value v (SSum SUnit (SSum SUnit SUnit)) = Some (VR (VR VU)) /\
  prune_value v (SSum SUnit SUnit) = Some (VR VU) /\
  prune_value v SUnit = Some VU /\
  prune_value (VR (VL VU)) (SSum SUnit (SSum SUnit SUnit)) = Some (VR (VL VU)) /\
  prune_value (VL VU) (SSum SUnit (SSum SUnit SUnit)) = Some (VL VU).
Proof. vm_compute. repeat split. Qed.

(* shape mismatch: a product is asked for but the value is a sum (the caller then keeps the value) *)
Example ex_mismatch :
  prune_value (VL VU) (SProd SUnit SUnit) = None /\ prune_value (VP VU VU) (SSum SUnit SUnit) = None /\
  prune_witness (fun _ => Some (SProd SUnit SUnit)) (fun _ => Some (VL VU)) 0%N = Some (VL VU).
Proof. vm_compute. repeat split. Qed.

Print Assumptions prune_typed.
Print Assumptions prune_total.
Print Assumptions prune_id.
Print Assumptions prune_prune.
Print Assumptions of_compact_bits_compact_bits.
Print Assumptions prune_value_eq_prune.
Print Assumptions prune_value_bytes_eq_prune.
Print Assumptions prune_run_related_gen.
Print Assumptions prune_run_related.
Print Assumptions prune_program.
Print Assumptions prune_run_related_typed_jets.
Print Assumptions prune_run_related_norm.
Print Assumptions prune_witness_typed.
Print Assumptions prune_witness_run.
Print Assumptions prune_witness_run_typed_jets.
Print Assumptions prune_witness_program.
Print Assumptions simfony_witness_shrinkable.
Print Assumptions consistent_witnesses_shrinkable.
Print Assumptions Counterexample.runs_differ.
