(* Type safety of the source semantics: a well-typed expression, in an environment that fits its context,
   never gets stuck, and its value inhabits the layout of its type.  With compile_correct this gives:
   the compiled program, run on type-correct witnesses, never reaches an ill-shaped state. *)
From Coq Require Import List Arith NArith Lia Bool.
Import ListNotations.
Require Import SV.Base.Util SV.Base.Res SV.Base.BT SV.Base.BTLemmas SV.Simp.Core SV.Layout.Ty SV.Layout.Value
               SV.Lang.Ast SV.Comp.Select SV.Comp.Compile SV.Lang.Sem SV.Lang.WT
               SV.Proofs.LayoutLaws SV.Proofs.LayoutRoundtrip SV.Proofs.EvalBasics SV.Proofs.FoldCorrect SV.Proofs.ForWhileCorrect
               SV.Proofs.CompileCorrect.

Ltac inv_F2 :=
  repeat match goal with
  | H : Forall2 _ _ (_ :: _) |- _ => inversion H; subst; clear H
  | H : Forall2 _ _ [] |- _ => inversion H; subst; clear H
  end.

Section Safe.
Variable jet : N -> sval -> option sval.
Variable wit : N -> option sval.
Variable args : N -> option value.
Variable jsig : N -> option (list ty * ty).
Variable W : N -> option ty.
Notation SEM := (sem jet wit args).
Notation WTY := (wt jsig W args).

Hypothesis Hwit : forall n t, W n = Some t -> exists v, wit n = Some v /\ vty v (struct_ty t) = true.
Hypothesis Hjet : forall j ps r a v, jsig j = Some (ps, r) -> vty a (struct_ty (TTuple ps)) = true ->
                                     jet j a = Some v -> vty v (struct_ty r) = true.

Definition ok_out (o:out) (t:ty) : Prop :=
  o <> Stuck /\ (forall w, o = Val w -> vty w (struct_ty t) = true).

Definition Safe (e:expr) : Prop := forall G r, WTY G e = true -> env_ty r G -> ok_out (SEM r e) (ty_of e).

Lemma ok_bind o t (k:sval -> out) t' :
  ok_out o t -> (forall v, o = Val v -> vty v (struct_ty t) = true -> ok_out (k v) t') -> ok_out (bind o k) t'.
Proof.
  intros [Hn Ht] Hk. destruct o as [v| |]; cbn [bind].
  - apply Hk; auto.
  - split; [discriminate|]. intros w E; discriminate.
  - congruence.
Qed.

Lemma safe_list es : Forall Safe es -> forall G r, forallb (fun e0 => WTY G e0) es = true -> env_ty r G ->
  forall k t', (forall vs, Forall2 (fun v s => vty v s = true) vs (map struct_ty (map ty_of es)) -> ok_out (k vs) t') ->
  ok_out (mapo (fun e0 => SEM r e0) es k) t'.
Proof.
  induction 1 as [|e es He Hes IH]; intros G r Hw Hr k t' Hk.
  - cbn. apply Hk. constructor.
  - cbn in Hw. apply andb_true_iff in Hw as [Hw1 Hw2]. cbn [mapo].
    eapply ok_bind; [apply (He G r Hw1 Hr)|]. intros v Ev Tv.
    eapply IH; eauto. intros vs Hvs. apply Hk. cbn. constructor; auto.
Qed.

Lemma safe_builtin b ats t vs : wt_builtin jsig b ats t = true ->
  Forall2 (fun v s => vty v s = true) vs (map struct_ty ats) -> ok_out (sem_builtin jet b vs) t.
Proof.
  intros Hw HV. split; [|intros w Hs; eapply builtin_typed; eauto].
  destruct b; cbn [wt_builtin] in Hw.
  - cbn. destruct (jet j (bt VP VU vs)); discriminate.
  - destruct ats as [|[a b'| | | | | |] [|? ?]]; try discriminate. cbn in HV. inv_F2.
    match goal with H : vty ?x (SSum _ _) = true |- _ => destruct x; cbn in H; try discriminate end; cbn; discriminate.
  - destruct ats as [|[a b'| | | | | |] [|? ?]]; try discriminate. cbn in HV. inv_F2.
    match goal with H : vty ?x (SSum _ _) = true |- _ => destruct x; cbn in H; try discriminate end; cbn; discriminate.
  - destruct ats as [|[|a| | | | |] [|? ?]]; try discriminate. cbn in HV. inv_F2.
    match goal with H : vty ?x (SSum _ _) = true |- _ => destruct x; cbn in H; try discriminate end; cbn; discriminate.
  - destruct ats as [|[|a| | | | |] [|? ?]]; try discriminate. cbn in HV. inv_F2.
    match goal with H : vty ?x (SSum _ _) = true |- _ => destruct x; cbn in H; try discriminate end; cbn; discriminate.
  - destruct ats as [|[| | | | | |] [|? ?]]; try discriminate. cbn in HV. inv_F2.
    match goal with H : vty ?x (SSum _ _) = true |- _ => destruct x; cbn in H; try discriminate end; cbn; discriminate.
  - cbn. discriminate.
  - destruct ats as [|a [|? ?]]; try discriminate. cbn in HV. inv_F2. cbn. discriminate.
  - destruct ats as [|a [|? ?]]; try discriminate. cbn in HV. inv_F2. cbn. discriminate.
Qed.

Lemma safe_block t stmts last : Forall (fun s => Safe (snd s)) stmts -> opt_P Safe last -> Safe (EBlock t stmts last).
Proof.
  intros HF HL. induction HF as [|[[p|] e1] ss He1 Hss IHss]; intros G r Hw Hr; cbn [ty_of] in *.
  - destruct last as [e|]; cbn in Hw |- *.
    + apply andb_true_iff in Hw as [Hw1 Hw2]. apply ty_eqb_eq in Hw2. rewrite <- Hw2. exact (HL G r Hw1 Hr).
    + apply is_unit_eq in Hw. subst. split; [discriminate|]. intros w E; inversion E; reflexivity.
  - change (WTY G (EBlock t ((Some p, e1) :: ss) last)) with
      (WTY G e1 && match pat_ctx p (ty_of e1) with Some c => WTY (c ++ G) (EBlock t ss last) | None => false end) in Hw.
    apply andb_true_iff in Hw as [Hw1 Hw2].
    destruct (pat_ctx p (ty_of e1)) as [c|] eqn:Ec; [|discriminate].
    change (SEM r (EBlock t ((Some p, e1) :: ss) last)) with
      (bind (SEM r e1) (fun v => match bindp (of_pat p) v with Some b => SEM (b ++ r) (EBlock t ss last) | None => Stuck end)).
    cbn [snd] in He1. eapply ok_bind; [apply (He1 G r Hw1 Hr)|]. intros v Ev Tv.
    destruct (bind_pat_typed _ _ _ _ Ec Tv) as (b & Hb & Htb). rewrite Hb.
    apply (IHss (c ++ G) (b ++ r) Hw2). apply env_ty_app; auto.
  - change (WTY G (EBlock t ((None, e1) :: ss) last)) with
      (WTY G e1 && is_unit (ty_of e1) && WTY G (EBlock t ss last)) in Hw.
    apply andb_true_iff in Hw as [Hw1 Hw3]. apply andb_true_iff in Hw1 as [Hw1 Hw2].
    change (SEM r (EBlock t ((None, e1) :: ss) last)) with (bind (SEM r e1) (fun _ => SEM r (EBlock t ss last))).
    cbn [snd] in He1. eapply ok_bind; [apply (He1 G r Hw1 Hr)|]. intros v Ev Tv. apply (IHss G r Hw3 Hr).
Qed.

Lemma call_safe ps body : Safe body -> WTY ps body = true ->
  forall vs, Forall2 (fun v s => vty v s = true) vs (map struct_ty (map snd ps)) ->
    ok_out (match bind_params ps vs with Some b => SEM b body | None => Stuck end) (ty_of body).
Proof.
  intros IH Hw vs HV. destruct (params_bind ps vs HV) as (b & Hb1 & _ & Hb3). rewrite Hb1. exact (IH ps b Hw Hb3).
Qed.

Lemma loop_safe (P:sval->Prop) (R:sval->Prop) G k : forall i a,
  (forall a i, P a -> G a i <> Stuck /\ (forall w, G a i = Val w -> R w /\ match w with VL _ => True | VR a' => P a' | _ => False end)) ->
  P a -> loop G k i a <> Stuck /\ (forall w, loop G k i a = Val w -> R w \/ exists a', w = VR a' /\ P a').
Proof.
  induction k; intros i a H Pa; cbn [loop].
  - split; [discriminate|]. intros w E; inversion E; subst. right; eauto.
  - destruct (H a i Pa) as (Hn & T). destruct (G a i) as [w| |] eqn:EG; [|split; [discriminate|intros ? E; discriminate]|congruence].
    destruct (T w eq_refl) as (Rw & Sh). destruct w; try contradiction.
    + split; [discriminate|]. intros w' E; inversion E; subst. left; auto.
    + apply IHk; auto.
Qed.

Lemma safe_fn t k ps body es : Safe body -> Forall Safe es -> Safe (EFn t k ps body es).
Proof.
  intros IHb H G r Hw Hr. cbn [wt sem ty_of] in *.
  apply andb_true_iff in Hw as [Hw Hk]. apply andb_true_iff in Hw as [Hw1 Hwb].
  pose proof (call_safe ps body IHb Hwb) as Call.
  eapply safe_list; eauto. intros vs TY.
  destruct k as [|kk|w].
  - apply andb_true_iff in Hk as [Hk1 Hk2]. apply tys_eqb_eq in Hk1. apply ty_eqb_eq in Hk2. subst t.
    rewrite Hk1 in TY. apply Call; auto.
  - destruct ps as [|[x Et] [|[y At] [|? ?]]]; try discriminate.
    apply andb_true_iff in Hk as [Hk Hk4]. apply andb_true_iff in Hk as [Hk Hk3]. apply andb_true_iff in Hk as [Hk1 Hk2].
    apply Nat.leb_le in Hk1. apply tys_eqb_eq in Hk2. apply ty_eqb_eq in Hk3. apply ty_eqb_eq in Hk4. subst t.
    rewrite Hk2 in TY. cbn [map] in TY. destruct (F2_two _ _ _ _ TY) as (lv0 & acc0 & -> & Hlv & Hacc).
    cbn [struct_ty] in Hlv.
    replace (2^kk - 1) with (2^(S (kk-1)) - 1) in Hlv by (replace (S (kk-1)) with kk by lia; reflexivity).
    destruct (typed_list_canonical _ _ _ Hlv) as (els & Hal & _ & _ & HFe). rewrite Hal.
    clear Hal Hlv TY. revert acc0 Hacc. induction HFe as [|el els Hel Hels IHf]; intros acc0 Hacc; cbn [fold_left].
    + split; [discriminate|]. intros w E; inversion E; subst; auto.
    + cbn [bind].
      assert (S1: ok_out (match bind_params [(x, Et); (y, At)] [el; acc0] with Some b => SEM b body | None => Stuck end) At).
      { rewrite <- Hk3. apply Call. cbn. repeat constructor; auto. }
      destruct S1 as (Sn & St).
      destruct (match bind_params [(x, Et); (y, At)] [el; acc0] with Some b => SEM b body | None => Stuck end) as [a1| |] eqn:Ec.
      * apply IHf. apply St. reflexivity.
      * split.
        -- clear. induction els; cbn; [discriminate|auto].
        -- intros w E. exfalso. revert E. clear. induction els; cbn; [discriminate|auto].
      * congruence.
  - destruct ps as [|[x At] [|[y Ct] [|[z [| | |w'| | |]] [|? ?]]]]; try discriminate.
    destruct t as [Bt At'| | | | | |]; try discriminate.
    apply andb_true_iff in Hk as [Hk Hk4]. apply andb_true_iff in Hk as [Hk Hk3]. apply andb_true_iff in Hk as [Hk1 Hk2].
    apply Nat.eqb_eq in Hk1. apply ty_eqb_eq in Hk2. apply tys_eqb_eq in Hk3. apply ty_eqb_eq in Hk4. subst w' At'.
    rewrite Hk3 in TY. cbn [map] in TY. destruct (F2_two _ _ _ _ TY) as (acc0 & ctx0 & -> & Hacc & Hctx).
    set (PS := [(x, At); (y, Ct); (z, TUInt w)]) in *.
    destruct (loop_safe (fun a => vty a (struct_ty At) = true) (fun r0 => vty r0 (struct_ty (TEither Bt At)) = true)
                (fun a i => match bind_params PS [a; ctx0; uint_sval w (N.of_nat i)] with Some b => SEM b body | None => Stuck end)
                (2^(2^w)) 0 acc0) as (L1 & L2).
    + intros a i Pa.
      assert (S1: ok_out (match bind_params PS [a; ctx0; uint_sval w (N.of_nat i)] with Some b => SEM b body | None => Stuck end) (TEither Bt At)).
      { rewrite <- Hk4. apply Call. cbn. repeat constructor; auto. apply uint_sval_vty. }
      destruct S1 as (Sn & St). split; [exact Sn|]. intros r0 Hr0. specialize (St _ Hr0). split; [exact St|].
      cbn [struct_ty vty] in St. destruct r0; try discriminate; auto.
    + exact Hacc.
    + split; [exact L1|]. intros r0 Hr0. destruct (L2 _ Hr0) as [Rr|(a' & -> & Pa')]; [exact Rr|]. cbn [struct_ty vty]. exact Pa'.
Qed.

Lemma env_arm G r x a av : env_ty r G -> vty av (struct_ty a) = true ->
  env_ty (match x with Some i => (i,av)::r | None => r end) (arm_ctx x a G).
Proof. intros HT Hv. destruct x; cbn [arm_ctx]; auto. constructor; [split; auto|exact HT]. Qed.

Lemma safe_match t s xl el xr er : Safe s -> Safe el -> Safe er -> Safe (EMatch t s xl el xr er).
Proof.
  intros IHs IHl IHr G r Hw Hr. cbn [wt sem ty_of] in *.
  apply andb_true_iff in Hw as [Hw Ht2]. apply andb_true_iff in Hw as [Hw Ht1]. apply andb_true_iff in Hw as [Hws Harms].
  apply ty_eqb_eq in Ht1. apply ty_eqb_eq in Ht2.
  eapply ok_bind; [apply (IHs G r Hws Hr)|]. intros vs Es TYs.
  destruct (ty_of s) as [a b|a| | | | |] eqn:Ety; try discriminate; cbn [struct_ty] in TYs.
  - apply andb_true_iff in Harms as [Hl Hr'].
    destruct vs as [|av|bv|? ?]; cbn [vty] in TYs; try discriminate.
    + rewrite <- Ht1. apply (IHl (arm_ctx xl a G) _ Hl). apply env_arm; auto.
    + rewrite <- Ht2. apply (IHr (arm_ctx xr b G) _ Hr'). apply env_arm; auto.
  - destruct xl; [discriminate|]. apply andb_true_iff in Harms as [Hl Hr'].
    destruct vs as [|av|bv|? ?]; cbn [vty] in TYs; try discriminate.
    + rewrite <- Ht1. apply (IHl G r Hl Hr).
    + rewrite <- Ht2. apply (IHr (arm_ctx xr a G) _ Hr'). apply env_arm; auto.
  - destruct xl; [discriminate|]. destruct xr; [discriminate|]. apply andb_true_iff in Harms as [Hl Hr'].
    destruct vs as [|av|bv|? ?]; cbn [vty] in TYs; try discriminate.
    + rewrite <- Ht1. apply (IHl G r Hl Hr).
    + rewrite <- Ht2. apply (IHr G r Hr' Hr).
Qed.

Theorem sem_safe_all e : Safe e.
Proof.
  induction e using expr_ind'.
  - apply safe_block; assumption.
  - intros G r Hw Hr. cbn in *. apply andb_true_iff in Hw as [Hw1 Hw2]. apply ty_eqb_eq in Hw2. subst.
    split; [discriminate|]. intros w E; inversion E; subst. now apply structural_has_type.
  - intros G r Hw Hr. cbn in *. destruct (W n) as [t'|] eqn:EW; [|discriminate]. apply ty_eqb_eq in Hw. subst.
    destruct (Hwit _ _ EW) as (v & Hv & Tv). rewrite Hv. split; [discriminate|]. intros w E; inversion E; subst; auto.
  - intros G r Hw Hr. cbn in *. destruct (args n) as [v|] eqn:EA; [|discriminate].
    apply andb_true_iff in Hw as [Hw1 Hw2]. apply ty_eqb_eq in Hw2. subst.
    split; [discriminate|]. intros w E; inversion E; subst. now apply structural_has_type.
  - intros G r Hw Hr. cbn in *. destruct (lookupN G x) as [t'|] eqn:EL; [|discriminate]. apply ty_eqb_eq in Hw. subst.
    destruct (env_ty_lookup _ _ Hr _ _ EL) as (w & Hl & Hv). rewrite Hl. split; [discriminate|]. intros w' E; inversion E; subst; auto.
  - intros G r Hw Hr. cbn [wt sem ty_of] in *. exact (IHe G r Hw Hr).
  - (* tuple *) intros G r Hw Hr. cbn [wt sem ty_of] in *. apply andb_true_iff in Hw as [Hw1 Hw2]. apply ty_eqb_eq in Hw1. subst.
    eapply safe_list; eauto. intros vs TY. split; [discriminate|]. intros w E; inversion E; subst. cbn [struct_ty]. now apply vty_bt.
  - intros G r Hw Hr. cbn [wt sem ty_of] in *. destruct t as [| | | | |a n|]; try discriminate.
    apply andb_true_iff in Hw as [Hw1 Hw2]. apply Nat.eqb_eq in Hw1. subst.
    apply forallb_and in Hw2 as [Hw2 Hw3]. apply all_ty_repeat in Hw3.
    eapply safe_list; eauto. intros vs TY. split; [discriminate|]. intros w E; inversion E; subst.
    cbn [struct_ty]. apply vty_bt. rewrite Hw3, map_repeat' in TY. exact TY.
  - (* list *) intros G r Hw Hr. cbn [wt sem ty_of] in *. destruct t as [| | | | | |a k]; try discriminate.
    apply andb_true_iff in Hw as [Hw1 Hw3]. apply andb_true_iff in Hw1 as [Hw0 Hw1].
    apply Nat.leb_le in Hw0. apply Nat.ltb_lt in Hw1.
    apply forallb_and in Hw3 as [Hw2 Hw3]. apply all_ty_repeat in Hw3.
    eapply safe_list; eauto. intros vs TY. split; [discriminate|]. intros w E; inversion E; subst.
    cbn [struct_ty]. rewrite Hw3, map_repeat' in TY.
    replace (2^k - 1) with (2^(S (k-1)) - 1) by (replace (S (k-1)) with k by lia; reflexivity).
    pose proof (F2_length _ _ _ TY) as HL. rewrite repeat_length in HL.
    apply vty_part.
    + clear -TY. remember (repeat (struct_ty a) (length es)) as ss. revert Heqss. generalize (length es).
      induction TY; intros n E; [constructor|]. destruct n; [discriminate|]. cbn in E. inversion E; subst. constructor; eauto.
    + replace (S (k-1)) with k by lia. lia.
  - intros G r Hw Hr. cbn [wt sem ty_of] in *. destruct t; try discriminate. apply andb_true_iff in Hw as [Hw1 Hw2]. apply ty_eqb_eq in Hw2.
    eapply ok_bind; [apply (IHe G r Hw1 Hr)|]. intros v Ev Tv. split; [discriminate|]. intros w E; inversion E; subst. cbn. exact Tv.
  - intros G r Hw Hr. cbn [wt sem ty_of] in *. destruct t; try discriminate. apply andb_true_iff in Hw as [Hw1 Hw2]. apply ty_eqb_eq in Hw2.
    eapply ok_bind; [apply (IHe G r Hw1 Hr)|]. intros v Ev Tv. split; [discriminate|]. intros w E; inversion E; subst. cbn. exact Tv.
  - intros G r Hw Hr. cbn in *. destruct t; try discriminate. split; [discriminate|]. intros w E; inversion E; subst. reflexivity.
  - intros G r Hw Hr. cbn [wt sem ty_of] in *. destruct t; try discriminate. apply andb_true_iff in Hw as [Hw1 Hw2]. apply ty_eqb_eq in Hw2.
    eapply ok_bind; [apply (IHe G r Hw1 Hr)|]. intros v Ev Tv. split; [discriminate|]. intros w E; inversion E; subst. cbn. exact Tv.
  - (* call *) intros G r Hw Hr. cbn [wt sem ty_of] in *. apply andb_true_iff in Hw as [Hw1 Hw2].
    eapply safe_list; eauto. intros vs TY. eapply safe_builtin; eauto.
  - apply safe_fn; assumption.
  - apply safe_match; assumption.
Qed.

(* whole programs: the source run of a well-typed main never gets stuck *)
Theorem sem_program_safe main : wt_program jsig W args main = true -> sem_program jet wit args main <> Stuck.
Proof.
  intros Hw. unfold wt_program in Hw. apply andb_true_iff in Hw as [Hw _].
  apply (sem_safe_all main [] [] Hw). constructor.
Qed.
End Safe.
