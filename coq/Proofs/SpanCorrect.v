(* Proofs/SpanCorrect.v — theorems about the model in Text/Span.v.
   All statements hold for every file (no size bound).  No axioms. *)
From Coq Require Import List Arith NArith Bool Lia.
Require Import SV.Base.Res SV.Text.Span.
Import ListNotations.
Local Open Scope nat_scope.

(* ================================================================== *)
(* 0. Bytes                                                            *)
(* ================================================================== *)

Lemma is_cont_LF : is_cont LF = false. Proof. reflexivity. Qed.
Lemma is_cont_CR : is_cont CR = false. Proof. reflexivity. Qed.

Lemma cont_ge128 : forall b, is_cont b = true -> (128 <= b)%N.
Proof.
  intros b H. unfold is_cont in H. apply andb_true_iff in H. destruct H as [H1 _].
  apply N.leb_le in H1. exact H1.
Qed.
Lemma cont_not_ascii : forall b, is_cont b = true -> (b <? 128)%N = false.
Proof. intros b H. apply cont_ge128 in H. apply N.ltb_ge. exact H. Qed.
Lemma cont_not_LF : forall b, is_cont b = true -> (b =? LF)%N = false.
Proof. intros b H. apply cont_ge128 in H. apply N.eqb_neq. unfold LF. lia. Qed.
Lemma cont_not_CR : forall b, is_cont b = true -> (b =? CR)%N = false.
Proof. intros b H. apply cont_ge128 in H. apply N.eqb_neq. unfold CR. lia. Qed.
Lemma ascii_not_cont : forall b, (b <? 128)%N = true -> is_cont b = false.
Proof.
  intros b H. destruct (is_cont b) eqn:E; [|reflexivity].
  apply cont_not_ascii in E. congruence.
Qed.

(* ================================================================== *)
(* 1. The specification: one left-to-right scan                        *)
(* ================================================================== *)

(* (line, col) after scanning l from (ln, cl): '\n' starts a new line, every other
   character (lead byte) advances the column, continuation bytes are part of the
   previous character. *)
Fixpoint lc_from (l : list N) (ln cl : nat) : nat * nat :=
  match l with
  | [] => (ln, cl)
  | b :: r => if is_cont b then lc_from r ln cl
              else if (b =? LF)%N then lc_from r (S ln) 1
              else lc_from r ln (S cl)
  end.
Definition lc (file : list N) (o : nat) : nat * nat := lc_from (firstn o file) 1 1.

Fixpoint count_lf (l : list N) : nat :=
  match l with [] => 0 | b :: r => if (b =? LF)%N then S (count_lf r) else count_lf r end.

Definition lex_lt (p q : nat * nat) : Prop := fst p < fst q \/ (fst p = fst q /\ snd p < snd q).
Definition lex_le (p q : nat * nat) : Prop := fst p < fst q \/ (fst p = fst q /\ snd p <= snd q).

Lemma lc_from_app : forall x y ln cl,
  lc_from (x ++ y) ln cl = lc_from y (fst (lc_from x ln cl)) (snd (lc_from x ln cl)).
Proof.
  induction x as [|b x IHx]; intros y ln cl; simpl; [reflexivity|].
  destruct (is_cont b); [apply IHx|]. destruct (b =? LF)%N; apply IHx.
Qed.

Lemma lc_from_fst : forall l ln cl, fst (lc_from l ln cl) = ln + count_lf l.
Proof.
  induction l as [|b l IHl]; intros ln cl; simpl; [lia|].
  destruct (is_cont b) eqn:Ec.
  - rewrite (cont_not_LF _ Ec). apply IHl.
  - destruct (b =? LF)%N; rewrite IHl; lia.
Qed.

Lemma lc_from_mono : forall l ln cl, lex_le (ln, cl) (lc_from l ln cl).
Proof.
  unfold lex_le. induction l as [|b l IHl]; intros ln cl; simpl; [lia|].
  destruct (is_cont b); [apply IHl|].
  destruct (b =? LF)%N.
  - specialize (IHl (S ln) 1). simpl in IHl. lia.
  - specialize (IHl ln (S cl)). simpl in IHl. lia.
Qed.

Lemma lc_from_strict : forall b l ln cl,
  is_cont b = false -> lex_lt (ln, cl) (lc_from (b :: l) ln cl).
Proof.
  intros b l ln cl Hb. unfold lex_lt. simpl. rewrite Hb.
  destruct (b =? LF)%N.
  - pose proof (lc_from_mono l (S ln) 1) as H. unfold lex_le in H. simpl in H. lia.
  - pose proof (lc_from_mono l ln (S cl)) as H. unfold lex_le in H. simpl in H. lia.
Qed.

Lemma lc_from_pos : forall l ln cl, 1 <= ln -> 1 <= cl ->
  1 <= fst (lc_from l ln cl) /\ 1 <= snd (lc_from l ln cl).
Proof.
  induction l as [|b l IHl]; intros ln cl H1 H2; simpl; [lia|].
  destruct (is_cont b); [apply IHl; lia|].
  destruct (b =? LF)%N; apply IHl; lia.
Qed.

Lemma lc_pos : forall file o, 1 <= fst (lc file o) /\ 1 <= snd (lc file o).
Proof. intros. apply lc_from_pos; lia. Qed.

Lemma firstn_split_le : forall (A : Type) (l : list A) i j, i <= j ->
  firstn j l = firstn i l ++ firstn (j - i) (skipn i l).
Proof.
  intros A l i j Hij.
  rewrite <- (firstn_skipn i l) at 1.
  rewrite firstn_app. rewrite firstn_firstn. rewrite Nat.min_r by lia.
  rewrite firstn_length.
  destruct (Nat.le_ge_cases i (length l)) as [H|H].
  - rewrite Nat.min_l by lia. reflexivity.
  - rewrite Nat.min_r by lia. rewrite (skipn_all2 l) by lia.
    rewrite !firstn_nil. reflexivity.
Qed.

Lemma lc_le : forall file i j, i <= j -> lex_le (lc file i) (lc file j).
Proof.
  intros file i j Hij. unfold lc. rewrite (firstn_split_le _ file i j Hij).
  rewrite lc_from_app.
  destruct (lc_from (firstn i file) 1 1) as [a b]. simpl. apply lc_from_mono.
Qed.

(* a character starts at byte index o *)
Definition lead_at (file : list N) (o : nat) : Prop :=
  exists b, nth_error file o = Some b /\ is_cont b = false.

Lemma skipn_nth_error_cons : forall (A : Type) (l : list A) i b,
  nth_error l i = Some b -> skipn i l = b :: skipn (S i) l.
Proof.
  intros A l. induction l as [|a l IHl]; intros i b H.
  - destruct i; discriminate.
  - destruct i as [|i]; simpl in *.
    + injection H as ->. reflexivity.
    + apply IHl. exact H.
Qed.

Lemma lc_lt : forall file i j, i < j -> lead_at file i -> lex_lt (lc file i) (lc file j).
Proof.
  intros file i j Hij [b [Hb Hc]]. unfold lc.
  rewrite (firstn_split_le _ file i j) by lia.
  rewrite lc_from_app. rewrite (skipn_nth_error_cons _ _ _ _ Hb).
  destruct (j - i) as [|d] eqn:Ed; [lia|]. simpl firstn.
  destruct (lc_from (firstn i file) 1 1) as [x y]. simpl fst. simpl snd.
  apply lc_from_strict. exact Hc.
Qed.

Lemma lex_lt_irrefl : forall p, ~ lex_lt p p.
Proof. intros p H. unfold lex_lt in H. lia. Qed.

Lemma lc_inj : forall file i j, lead_at file i -> lead_at file j -> lc file i = lc file j -> i = j.
Proof.
  intros file i j Hi Hj E.
  destruct (Nat.lt_trichotomy i j) as [H|[H|H]]; [|exact H|].
  - exfalso. apply (lex_lt_irrefl (lc file j)). rewrite <- E at 1. apply lc_lt; assumption.
  - exfalso. apply (lex_lt_irrefl (lc file i)). rewrite E at 1. apply lc_lt; assumption.
Qed.

(* ================================================================== *)
(* 2. What validity of UTF-8 is used for                               *)
(* ================================================================== *)

(* the text does not begin inside a character *)
Definition starts_ok (l : list N) : bool :=
  match l with b :: _ => negb (is_cont b) | [] => true end.
(* an ASCII byte is never followed by a continuation byte *)
Fixpoint ascii_ok (l : list N) : bool :=
  match l with
  | [] => true
  | b :: r => (if (b <? 128)%N then starts_ok r else true) && ascii_ok r
  end.

Lemma lead_len_cont : forall b, is_cont b = true -> lead_len b = 0.
Proof.
  intros b H. unfold lead_len. rewrite (cont_not_ascii _ H).
  unfold is_cont in H. apply andb_true_iff in H. destruct H as [_ H]. rewrite H. reflexivity.
Qed.

Lemma lead_len_ascii : forall b, (b <? 128)%N = true -> lead_len b = 1.
Proof. intros b H. unfold lead_len. rewrite H. reflexivity. Qed.

Lemma valid_aux_starts : forall l, valid_utf8_aux l 0 = true -> starts_ok l = true.
Proof.
  intros [|b r] H; [reflexivity|]. simpl in *.
  destruct (is_cont b) eqn:E; [|reflexivity].
  rewrite (lead_len_cont _ E) in H. discriminate.
Qed.

Lemma valid_aux_ascii_ok : forall l p, valid_utf8_aux l p = true -> ascii_ok l = true.
Proof.
  induction l as [|b r IHr]; intros p H; [reflexivity|]. simpl.
  apply andb_true_iff. simpl in H. destruct p as [|p].
  - destruct (lead_len b) as [|k] eqn:Ek; [discriminate|]. split; [|eapply IHr; exact H].
    destruct (b <? 128)%N eqn:Ea; [|reflexivity].
    rewrite (lead_len_ascii _ Ea) in Ek. injection Ek as <-.
    apply valid_aux_starts. exact H.
  - apply andb_true_iff in H. destruct H as [Hc H]. split; [|eapply IHr; exact H].
    rewrite (cont_not_ascii _ Hc). reflexivity.
Qed.

Lemma valid_starts_ok : forall file, valid_utf8 file = true -> starts_ok file = true.
Proof. intros. apply valid_aux_starts. assumption. Qed.
Lemma valid_ascii_ok : forall file, valid_utf8 file = true -> ascii_ok file = true.
Proof. intros. eapply valid_aux_ascii_ok. eassumption. Qed.

Lemma ascii_ok_tl : forall b r, ascii_ok (b :: r) = true -> ascii_ok r = true.
Proof. intros b r H. simpl in H. apply andb_true_iff in H. tauto. Qed.

Lemma ascii_ok_skipn : forall n l, ascii_ok l = true -> ascii_ok (skipn n l) = true.
Proof.
  induction n as [|n IHn]; intros l H; [exact H|].
  destruct l as [|b r]; [exact H|]. simpl. apply IHn. eapply ascii_ok_tl. exact H.
Qed.

Lemma starts_ok_firstn : forall n l, starts_ok l = true -> starts_ok (firstn n l) = true.
Proof. intros [|n] [|b r] H; simpl in *; auto. Qed.

Lemma ascii_ok_firstn : forall n l, ascii_ok l = true -> ascii_ok (firstn n l) = true.
Proof.
  induction n as [|n IHn]; intros l H; [reflexivity|].
  destruct l as [|b r]; [reflexivity|]. simpl firstn. simpl in *.
  apply andb_true_iff in H. destruct H as [H1 H2]. apply andb_true_iff. split.
  - destruct (b <? 128)%N; [|reflexivity]. apply starts_ok_firstn. exact H1.
  - apply IHn. exact H2.
Qed.

Lemma ascii_next : forall b r, ascii_ok (b :: r) = true -> (b <? 128)%N = true -> cont_run r = 0.
Proof.
  intros b r H Hb. simpl in H. rewrite Hb in H. apply andb_true_iff in H. destruct H as [H _].
  destruct r as [|c r]; [reflexivity|]. simpl in *. destruct (is_cont c); [discriminate|reflexivity].
Qed.

Lemma cont_run_le : forall l, cont_run l <= length l.
Proof. induction l as [|b l IHl]; simpl; [lia|]. destruct (is_cont b); lia. Qed.

Lemma starts_ok_skip_conts : forall l, starts_ok (skipn (cont_run l) l) = true.
Proof.
  induction l as [|b l IHl]; [reflexivity|]. simpl.
  destruct (is_cont b) eqn:E; simpl; [exact IHl|]. rewrite E. reflexivity.
Qed.

Lemma lc_from_skip_conts : forall l ln cl,
  lc_from (skipn (cont_run l) l) ln cl = lc_from l ln cl.
Proof.
  induction l as [|b l IHl]; intros ln cl; [reflexivity|]. simpl.
  destruct (is_cont b) eqn:E; simpl; [apply IHl|]. rewrite E. reflexivity.
Qed.

(* boundary offsets inside a valid file are character starts *)
Lemma boundary_lead_at : forall file o, starts_ok file = true ->
  o < length file -> is_boundary file o = true -> lead_at file o.
Proof.
  intros file o Hs Ho Hb. unfold is_boundary in Hb. unfold lead_at.
  destruct o as [|o].
  - destruct file as [|b r]; [simpl in Ho; lia|]. exists b. simpl in *.
    split; [reflexivity|]. destruct (is_cont b); [discriminate|reflexivity].
  - simpl (S o =? 0) in Hb. cbv iota in Hb.
    destruct (nth_error file (S o)) as [b|] eqn:E.
    + exists b. split; [reflexivity|]. destruct (is_cont b); [discriminate|reflexivity].
    + apply nth_error_None in E. lia.
Qed.

(* ================================================================== *)
(* 3. pest Position::line_col computes lc                              *)
(* ================================================================== *)

Lemma lcp_loop_zero : forall fuel l ln cl, lcp_loop fuel l 0 ln cl = Ok (ln, cl).
Proof. intros [|f] l ln cl; reflexivity. Qed.

Lemma lcp_loop_spec : forall fuel l ln cl,
  length l <= fuel -> starts_ok l = true -> ascii_ok l = true ->
  lcp_loop fuel l (length l) ln cl = Ok (lc_from l ln cl).
Proof.
  induction fuel as [|f IHf]; intros l ln cl Hlen Hs Ha.
  - destruct l; [reflexivity|simpl in Hlen; lia].
  - destruct l as [|b r]; [reflexivity|].
    assert (Hb : is_cont b = false).
    { simpl in Hs. destruct (is_cont b); [discriminate|reflexivity]. }
    cbn [lcp_loop length Nat.eqb]. cbn [char_len].
    change (skipn (S (cont_run r)) (b :: r)) with (skipn (cont_run r) r).
    cbn [lc_from]. rewrite Hb.
    simpl in Hlen.
    destruct (N.eqb_spec b CR) as [->|HnCR].
    + (* '\r' *)
      assert (Hc : cont_run r = 0) by (apply (ascii_next CR r Ha); reflexivity).
      rewrite Hc. cbn [skipn]. change (CR =? LF)%N with false. cbv iota.
      destruct r as [|b2 r2].
      * cbn [length]. change (1 - 1) with 0. rewrite lcp_loop_zero.
        rewrite Nat.add_1_r. reflexivity.
      * destruct (N.eqb_spec b2 LF) as [->|HnLF].
        -- assert (Hc2 : cont_run r2 = 0).
           { apply (ascii_next LF r2); [eapply ascii_ok_tl; exact Ha|reflexivity]. }
           cbn [char_len]. rewrite Hc2. cbn [skipn length Nat.eqb].
           replace (S (S (length r2)) - 2) with (length r2) by lia.
           rewrite IHf.
           ++ cbn [lc_from]. rewrite is_cont_LF. change (LF =? LF)%N with true. cbv iota.
              rewrite Nat.add_1_r. reflexivity.
           ++ simpl in Hlen. lia.
           ++ apply ascii_ok_tl in Ha. simpl in Ha. change (LF <? 128)%N with true in Ha.
              apply andb_true_iff in Ha. tauto.
           ++ apply ascii_ok_tl in Ha. apply ascii_ok_tl in Ha. exact Ha.
        -- replace (S (length (b2 :: r2)) - 1) with (length (b2 :: r2)) by lia.
           rewrite IHf.
           ++ rewrite Nat.add_1_r. reflexivity.
           ++ lia.
           ++ simpl in Ha. change (CR <? 128)%N with true in Ha.
              apply andb_true_iff in Ha. tauto.
           ++ eapply ascii_ok_tl. exact Ha.
    + destruct (N.eqb_spec b LF) as [->|HnLF].
      * (* '\n' *)
        assert (Hc : cont_run r = 0) by (apply (ascii_next LF r Ha); reflexivity).
        rewrite Hc. cbn [skipn].
        replace (S (length r) - 1) with (length r) by lia.
        rewrite IHf.
        -- rewrite Nat.add_1_r. reflexivity.
        -- lia.
        -- simpl in Ha. change (LF <? 128)%N with true in Ha. apply andb_true_iff in Ha. tauto.
        -- eapply ascii_ok_tl. exact Ha.
      * (* any other character *)
        pose proof (cont_run_le r) as Hle.
        assert (Hlt : (S (length r) <? S (cont_run r)) = false) by (apply Nat.ltb_ge; lia).
        rewrite Hlt.
        replace (S (length r) - S (cont_run r)) with (length (skipn (cont_run r) r))
          by (rewrite skipn_length; lia).
        rewrite IHf.
        -- rewrite lc_from_skip_conts. rewrite Nat.add_1_r. reflexivity.
        -- rewrite skipn_length. lia.
        -- apply starts_ok_skip_conts.
        -- apply ascii_ok_skipn. eapply ascii_ok_tl. exact Ha.
Qed.

Theorem line_col_position_spec : forall file o,
  valid_utf8 file = true -> o <= length file -> is_boundary file o = true ->
  line_col_position file o = Ok (lc file o).
Proof.
  intros file o Hv Ho Hb. unfold line_col_position.
  assert (E1 : (length file <? o) = false) by (apply Nat.ltb_ge; lia).
  rewrite E1, Hb. cbn [negb].
  assert (El : length (firstn o file) = o) by (rewrite firstn_length; lia).
  rewrite <- El at 1 3. apply lcp_loop_spec.
  - lia.
  - apply starts_ok_firstn. apply valid_starts_ok. exact Hv.
  - apply ascii_ok_firstn. apply valid_ascii_ok. exact Hv.
Qed.

(* ================================================================== *)
(* 4. pest LineIndex computes lc                                       *)
(* ================================================================== *)

(* byte-level view of LineIndex::new: k + i + 1 for every '\n' at index i of l *)
Fixpoint lfo (l : list N) (k : nat) : list nat :=
  match l with
  | [] => []
  | b :: r => if (b =? LF)%N then S k :: lfo r (S k) else lfo r (S k)
  end.

Lemma lfo_skip_conts : forall l k, lfo l k = lfo (skipn (cont_run l) l) (k + cont_run l).
Proof.
  induction l as [|b l IHl]; intros k; [reflexivity|].
  cbn [cont_run]. destruct (is_cont b) eqn:E.
  - cbn [skipn lfo]. rewrite (cont_not_LF _ E). rewrite IHl. f_equal. lia.
  - cbn [skipn]. rewrite Nat.add_0_r. reflexivity.
Qed.

Lemma li_loop_spec : forall fuel l off,
  length l <= fuel -> starts_ok l = true -> ascii_ok l = true ->
  li_loop fuel l off = lfo l off.
Proof.
  induction fuel as [|f IHf]; intros l off Hlen Hs Ha.
  - destruct l; [reflexivity|simpl in Hlen; lia].
  - destruct l as [|b r]; [reflexivity|].
    cbn [li_loop char_len]. change (skipn (S (cont_run r)) (b :: r)) with (skipn (cont_run r) r).
    simpl in Hlen. pose proof (cont_run_le r) as Hle.
    rewrite IHf.
    + cbn [lfo]. destruct (N.eqb_spec b LF) as [->|Hne].
      * assert (Hc : cont_run r = 0) by (apply (ascii_next LF r Ha); reflexivity).
        rewrite Hc. cbn [skipn]. rewrite Nat.add_1_r. reflexivity.
      * rewrite (lfo_skip_conts r (S off)). f_equal. lia.
    + rewrite skipn_length. lia.
    + apply starts_ok_skip_conts.
    + apply ascii_ok_skipn. eapply ascii_ok_tl. exact Ha.
Qed.

Lemma line_offsets_spec : forall file, valid_utf8 file = true -> line_offsets file = 0 :: lfo file 0.
Proof.
  intros file Hv. unfold line_offsets. rewrite li_loop_spec; auto.
  - apply valid_starts_ok; assumption.
  - apply valid_ascii_ok; assumption.
Qed.

Lemma pp_zero : forall q k j, j <= k -> partition_point (fun it => it <=? j) (lfo q k) = 0.
Proof.
  induction q as [|b q IHq]; intros k j Hjk; [reflexivity|]. cbn [lfo].
  destruct (b =? LF)%N.
  - cbn [partition_point]. assert (E : (S k <=? j) = false) by (apply Nat.leb_gt; lia).
    rewrite E. reflexivity.
  - apply IHq. lia.
Qed.

Lemma pp_offs : forall p q k,
  partition_point (fun it => it <=? k + length p) (lfo (p ++ q) k) = count_lf p.
Proof.
  induction p as [|b p IHp]; intros q k.
  - cbn [app length count_lf]. apply pp_zero. lia.
  - cbn [app length count_lf lfo]. destruct (b =? LF)%N.
    + cbn [partition_point].
      assert (E : (S k <=? k + S (length p)) = true) by (apply Nat.leb_le; lia).
      rewrite E. f_equal. replace (k + S (length p)) with (S k + length p) by lia. apply IHp.
    + replace (k + S (length p)) with (S k + length p) by lia. apply IHp.
Qed.

(* offset of the start of the last line of p, where p begins at absolute offset k and
   cur is the start of the line that is open when p begins *)
Fixpoint lls (p : list N) (k cur : nat) : nat :=
  match p with
  | [] => cur
  | b :: r => if (b =? LF)%N then lls r (S k) (S k) else lls r (S k) cur
  end.
(* the bytes after the last '\n' *)
Fixpoint last_seg (p acc : list N) : list N :=
  match p with
  | [] => acc
  | b :: r => if (b =? LF)%N then last_seg r [] else last_seg r (acc ++ [b])
  end.

Lemma nth_offs : forall p q k cur,
  nth_error (cur :: lfo (p ++ q) k) (count_lf p) = Some (lls p k cur).
Proof.
  induction p as [|b p IHp]; intros q k cur; [reflexivity|]. simpl.
  destruct (b =? LF)%N.
  - simpl. apply IHp.
  - apply IHp.
Qed.

Lemma lls_bounds : forall p k cur, cur <= k -> cur <= lls p k cur <= k + length p.
Proof.
  induction p as [|b p IHp]; intros k cur H; simpl; [lia|].
  destruct (b =? LF)%N.
  - specialize (IHp (S k) (S k)). lia.
  - specialize (IHp (S k) cur). lia.
Qed.

Lemma lls_last_seg : forall p pre cur, cur <= length pre ->
  skipn (lls p (length pre) cur) (pre ++ p) = last_seg p (skipn cur pre).
Proof.
  induction p as [|b p IHp]; intros pre cur Hc.
  - simpl. rewrite app_nil_r. reflexivity.
  - simpl. replace (pre ++ b :: p) with ((pre ++ [b]) ++ p) by (rewrite <- app_assoc; reflexivity).
    replace (S (length pre)) with (length (pre ++ [b])) by (rewrite app_length; simpl; lia).
    destruct (b =? LF)%N.
    + rewrite IHp by lia. rewrite skipn_all. reflexivity.
    + rewrite IHp by (rewrite app_length; simpl; lia).
      rewrite skipn_app. replace (cur - length pre) with 0 by lia. reflexivity.
Qed.

Lemma count_chars_app : forall x y, count_chars (x ++ y) = count_chars x + count_chars y.
Proof.
  induction x as [|b x IHx]; intros y; simpl; [reflexivity|].
  destruct (is_cont b); rewrite IHx; reflexivity.
Qed.

Lemma lc_from_snd : forall p acc ln cl, cl = count_chars acc + 1 ->
  snd (lc_from p ln cl) = count_chars (last_seg p acc) + 1.
Proof.
  induction p as [|b p IHp]; intros acc ln cl H; simpl; [exact H|].
  destruct (is_cont b) eqn:E.
  - rewrite (cont_not_LF _ E). apply IHp. rewrite count_chars_app. simpl. rewrite E. lia.
  - destruct (b =? LF)%N.
    + apply IHp. reflexivity.
    + apply IHp. rewrite count_chars_app. simpl. rewrite E. lia.
Qed.

Lemma ascii_ok_nth : forall F i a c, ascii_ok F = true ->
  nth_error F i = Some a -> (a <? 128)%N = true -> nth_error F (S i) = Some c -> is_cont c = false.
Proof.
  induction F as [|x F IHF]; intros i a c Ha H1 Hlt H2.
  - destruct i; discriminate.
  - destruct i as [|i]; simpl in *.
    + injection H1 as ->. rewrite Hlt in Ha. apply andb_true_iff in Ha. destruct Ha as [Ha _].
      destruct F as [|y F]; [discriminate|]. simpl in *. injection H2 as ->.
      destruct (is_cont c); [discriminate|reflexivity].
    + apply andb_true_iff in Ha. destruct Ha as [_ Ha]. eapply IHF; eassumption.
Qed.

(* the start of the last line is the start of the open line or comes right after a '\n' *)
Lemma lls_after_lf : forall p pre q cur,
  lls p (length pre) cur = cur \/
  exists i, lls p (length pre) cur = S i /\ nth_error (pre ++ p ++ q) i = Some LF.
Proof.
  induction p as [|b p IHp]; intros pre q cur; [left; reflexivity|]. simpl.
  replace (pre ++ b :: p ++ q) with ((pre ++ [b]) ++ p ++ q) by (rewrite <- app_assoc; reflexivity).
  replace (S (length pre)) with (length (pre ++ [b])) by (rewrite app_length; simpl; lia).
  destruct (N.eqb_spec b LF) as [->|Hne].
  - destruct (IHp (pre ++ [LF]) q (length (pre ++ [LF]))) as [E|E]; [|right; exact E].
    right. exists (length pre). split.
    + rewrite E. rewrite app_length. simpl. lia.
    + rewrite <- app_assoc. rewrite nth_error_app2 by lia. rewrite Nat.sub_diag. reflexivity.
  - apply IHp.
Qed.

Lemma is_boundary_after_lf : forall F i, ascii_ok F = true ->
  nth_error F i = Some LF -> is_boundary F (S i) = true.
Proof.
  intros F i Ha H. unfold is_boundary. simpl (S i =? 0). cbv iota.
  destruct (nth_error F (S i)) as [c|] eqn:E.
  - rewrite (ascii_ok_nth F i LF c Ha H eq_refl E). reflexivity.
  - apply nth_error_None in E. assert (i < length F) by (apply nth_error_Some; congruence).
    apply Nat.eqb_eq. lia.
Qed.

Theorem line_col_index_spec : forall file o,
  valid_utf8 file = true -> o <= length file -> is_boundary file o = true ->
  line_col_index file o = Ok (lc file o).
Proof.
  intros file o Hv Ho Hb. unfold line_col_index.
  rewrite (line_offsets_spec file Hv).
  set (p := firstn o file). set (q := skipn o file).
  assert (Ef : file = p ++ q) by (symmetry; apply firstn_skipn).
  assert (Elp : length p = o) by (unfold p; rewrite firstn_length; lia).
  assert (Epp : partition_point (fun it => it <=? o) (0 :: lfo file 0) = S (count_lf p)).
  { simpl. f_equal. rewrite Ef. rewrite <- Elp. apply (pp_offs p q 0). }
  rewrite Epp. cbn [Nat.eqb]. replace (S (count_lf p) - 1) with (count_lf p) by lia.
  assert (Enth : nth_error (0 :: lfo file 0) (count_lf p) = Some (lls p 0 0)).
  { rewrite Ef. apply nth_offs. }
  rewrite Enth.
  set (first := lls p 0 0).
  assert (Hfb : 0 <= first <= o).
  { pose proof (lls_bounds p 0 0 (Nat.le_refl 0)) as H. unfold first. lia. }
  assert (Hbf : is_boundary file first = true).
  { destruct (lls_after_lf p [] q 0) as [E|[i [E Hi]]].
    - unfold first. simpl in E. rewrite E. reflexivity.
    - unfold first. simpl in E. rewrite E. apply is_boundary_after_lf.
      + apply valid_ascii_ok; assumption.
      + rewrite Ef. exact Hi. }
  unfold slice.
  assert (E1 : (o <? first) = false) by (apply Nat.ltb_ge; lia).
  assert (E2 : (length file <? o) = false) by (apply Nat.ltb_ge; lia).
  rewrite E1, E2, Hbf, Hb. cbn [orb negb rbind].
  assert (Eseg : firstn (o - first) (skipn first file) = last_seg p []).
  { pose proof (lls_last_seg p [] 0 (Nat.le_refl 0)) as H. simpl in H. fold first in H.
    rewrite <- H. rewrite Ef. rewrite skipn_app.
    replace (first - length p) with 0 by lia. cbn [skipn].
    rewrite firstn_app. rewrite skipn_length.
    replace (o - first - (length p - first)) with 0 by lia. cbn [firstn]. rewrite app_nil_r.
    apply firstn_all2. rewrite skipn_length. lia. }
  rewrite Eseg. f_equal. unfold lc. fold p.
  rewrite (surjective_pairing (lc_from p 1 1)).
  rewrite lc_from_fst. rewrite (lc_from_snd p [] 1 1 eq_refl). f_equal. lia.
Qed.

(* The two pest conversions agree — on every boundary offset of every valid file,
   including files with "\r\n" and lone "\r". *)
Theorem line_col_agree : forall file o,
  valid_utf8 file = true -> o <= length file -> is_boundary file o = true ->
  line_col_position file o = line_col_index file o.
Proof.
  intros. rewrite line_col_position_spec, line_col_index_spec; auto.
Qed.
Print Assumptions line_col_agree.

(* ================================================================== *)
(* 5. Rust str::lines and the range of line numbers                    *)
(* ================================================================== *)

(* the text ends with '\n' *)
Fixpoint ends_lf (l : list N) : bool :=
  match l with
  | [] => false
  | b :: r => match r with [] => (b =? LF)%N | _ :: _ => ends_lf r end
  end.
(* 1 if there is a last line without terminator, else 0 *)
Definition open_tail (l : list N) : nat :=
  match l with [] => 0 | _ :: _ => if ends_lf l then 0 else 1 end.

Lemma split_incl_nil : forall l, split_incl l = [] -> l = [].
Proof.
  intros [|b r] H; [reflexivity|]. simpl in H.
  destruct (b =? LF)%N; [discriminate|]. destruct (split_incl r); discriminate.
Qed.

Lemma length_split_incl : forall l, length (split_incl l) = count_lf l + open_tail l.
Proof.
  induction l as [|b r IHr]; [reflexivity|].
  cbn [split_incl count_lf]. destruct (N.eqb_spec b LF) as [->|Hne].
  - cbn [length]. rewrite IHr. destruct r as [|c r']; [reflexivity|].
    unfold open_tail. cbn [ends_lf]. lia.
  - destruct (split_incl r) as [|x xs] eqn:E.
    + apply split_incl_nil in E. subst r. unfold open_tail. cbn [ends_lf length count_lf].
      apply N.eqb_neq in Hne. rewrite Hne. reflexivity.
    + cbn [length] in *. rewrite IHr. destruct r as [|c r']; [discriminate|].
      unfold open_tail. cbn [ends_lf]. reflexivity.
Qed.

Lemma length_lines : forall file, length (lines file) = count_lf file + open_tail file.
Proof. intros. unfold lines. rewrite map_length. apply length_split_incl. Qed.

Lemma concat_split_incl : forall l, concat (split_incl l) = l.
Proof.
  induction l as [|b r IHr]; [reflexivity|]. cbn [split_incl].
  destruct (b =? LF)%N.
  - cbn [concat app]. rewrite IHr. reflexivity.
  - destruct (split_incl r) as [|x xs] eqn:E.
    + apply split_incl_nil in E. subst r. reflexivity.
    + cbn [concat] in *. rewrite <- IHr. reflexivity.
Qed.

Lemma count_lf_app : forall x y, count_lf (x ++ y) = count_lf x + count_lf y.
Proof.
  induction x as [|b x IHx]; intros y; simpl; [reflexivity|].
  destruct (b =? LF)%N; rewrite IHx; reflexivity.
Qed.

Lemma ends_lf_skipn : forall o l, ends_lf l = true -> o < length l -> ends_lf (skipn o l) = true.
Proof.
  induction o as [|o IHo]; intros l H Ho; [exact H|].
  destruct l as [|b r]; [discriminate|]. simpl in Ho.
  destruct r as [|c r']; [simpl in Ho; lia|].
  cbn [skipn]. apply (IHo (c :: r')); [exact H|simpl in *; lia].
Qed.

Lemma ends_lf_count : forall l, ends_lf l = true -> 1 <= count_lf l.
Proof.
  induction l as [|b r IHr]; intros H; [discriminate|].
  destruct r as [|c r'].
  - simpl in *. rewrite H. lia.
  - cbn [ends_lf] in H. specialize (IHr H). cbn [count_lf] in *. destruct (b =? LF)%N; lia.
Qed.

Lemma lc_line : forall file o, fst (lc file o) = 1 + count_lf (firstn o file).
Proof. intros. unfold lc. apply lc_from_fst. Qed.

(* Line numbers are between 1 and |lines|+1; |lines|+1 is reached exactly at the end of a
   file that is empty or ends with '\n'. *)
Theorem lc_inside : forall file o, o <= length file ->
  1 <= fst (lc file o) <= length (lines file) + 1 /\
  1 <= snd (lc file o) /\
  (fst (lc file o) = length (lines file) + 1 <->
   o = length file /\ (file = [] \/ ends_lf file = true)).
Proof.
  intros file o Ho.
  pose proof (lc_pos file o) as [Hp1 Hp2].
  rewrite lc_line in *. rewrite length_lines.
  pose proof (firstn_skipn o file) as Ef.
  assert (Ec : count_lf file = count_lf (firstn o file) + count_lf (skipn o file)).
  { rewrite <- Ef at 1. apply count_lf_app. }
  split; [lia|]. split; [exact Hp2|]. split.
  - intros H. assert (Hq : count_lf (skipn o file) = 0) by lia.
    assert (Ht : open_tail file = 0) by lia.
    assert (Hcases : file = [] \/ ends_lf file = true).
    { destruct file as [|b r]; [left; reflexivity|right].
      unfold open_tail in Ht. destruct (ends_lf (b :: r)); [reflexivity|discriminate]. }
    split; [|exact Hcases].
    destruct Hcases as [->|He]; [simpl in *; lia|].
    destruct (Nat.eq_dec o (length file)) as [E|E]; [exact E|].
    assert (Ho' : o < length file) by lia.
    pose proof (ends_lf_count _ (ends_lf_skipn o file He Ho')). lia.
  - intros [-> Hc]. rewrite firstn_all in *. rewrite skipn_all in Ec. simpl in Ec.
    assert (Ht : open_tail file = 0).
    { destruct Hc as [->|He]; [reflexivity|]. unfold open_tail. rewrite He.
      destruct file; reflexivity. }
    lia.
Qed.

Theorem line_col_inside : forall file o,
  valid_utf8 file = true -> o <= length file -> is_boundary file o = true ->
  exists ln cl,
    line_col_position file o = Ok (ln, cl) /\ line_col_index file o = Ok (ln, cl) /\
    1 <= ln <= length (lines file) + 1 /\ 1 <= cl /\
    (ln = length (lines file) + 1 <-> o = length file /\ (file = [] \/ ends_lf file = true)).
Proof.
  intros file o Hv Ho Hb. exists (fst (lc file o)), (snd (lc file o)).
  rewrite <- surjective_pairing.
  split; [apply line_col_position_spec; assumption|].
  split; [apply line_col_index_spec; assumption|].
  pose proof (lc_inside file o Ho). tauto.
Qed.
Print Assumptions line_col_inside.

(* ================================================================== *)
(* 6. Span::from(&Pair) and Span::to_slice                             *)
(* ================================================================== *)

Definition pos_lc (file : list N) (o : nat) : position :=
  mkpos (fst (lc file o)) (snd (lc file o)).
Definition span_lc (file : list N) (s e : nat) : span :=
  mkspan (pos_lc file s) (pos_lc file e).

(* Span::from(&Pair) never panics and yields the scan positions of both ends *)
Theorem span_of_offsets_spec : forall file s e,
  valid_utf8 file = true -> s <= e -> e <= length file ->
  is_boundary file s = true -> is_boundary file e = true ->
  span_of_offsets file s e = Ok (span_lc file s e).
Proof.
  intros file s e Hv Hse He Hbs Hbe. unfold span_of_offsets.
  rewrite line_col_index_spec by (auto; lia).
  rewrite line_col_position_spec by auto.
  cbn [rbind]. unfold span_lc, pos_lc.
  pose proof (lc_pos file s) as [Hs1 Hs2]. pose proof (lc_pos file e) as [He1 He2].
  pose proof (lc_le file s e Hse) as Hle. unfold lex_le in Hle.
  destruct (lc file s) as [a b]. destruct (lc file e) as [c d]. simpl in *.
  unfold position_new.
  destruct a as [|a]; [lia|]. destruct b as [|b]; [lia|].
  destruct c as [|c]; [lia|]. destruct d as [|d]; [lia|].
  cbn [Nat.eqb rbind]. unfold span_new. cbn [line col].
  assert (E1 : (S a <=? S c) = true) by (apply Nat.leb_le; lia). rewrite E1. cbn [negb].
  assert (E2 : ((S a <? S c) || (S b <=? S d)) = true).
  { apply orb_true_iff. destruct Hle as [H|[H1 H2]].
    - left. apply Nat.ltb_lt. lia.
    - right. apply Nat.leb_le. lia. }
  rewrite E2. reflexivity.
Qed.

Lemma test_pos : forall a b (p : nat * nat),
  ((a =? fst p) && (b =? snd p)) = true <-> (a, b) = p.
Proof.
  intros a b [x y]. simpl. rewrite andb_true_iff, !Nat.eqb_eq. split.
  - intros [-> ->]. reflexivity.
  - intros H. injection H as -> ->. auto.
Qed.

Lemma slice_ok : forall file s e, s <= e -> e <= length file ->
  is_boundary file s = true -> is_boundary file e = true ->
  slice file s e = Ok (firstn (e - s) (skipn s file)).
Proof.
  intros file s e H1 H2 H3 H4. unfold slice.
  assert (E1 : (e <? s) = false) by (apply Nat.ltb_ge; lia).
  assert (E2 : (length file <? e) = false) by (apply Nat.ltb_ge; lia).
  rewrite E1, E2, H3, H4. reflexivity.
Qed.

Lemma lead_at_lt : forall file o, lead_at file o -> o < length file.
Proof. intros file o [b [H _]]. apply nth_error_Some. congruence. Qed.

Lemma lead_at_boundary : forall file o, lead_at file o -> is_boundary file o = true.
Proof.
  intros file o [b [H Hc]]. unfold is_boundary. destruct (o =? 0); [reflexivity|].
  rewrite H, Hc. reflexivity.
Qed.

Lemma lc_prefix : forall pre rest, lc (pre ++ rest) (length pre) = lc_from pre 1 1.
Proof.
  intros. unfold lc. rewrite firstn_app, firstn_all, Nat.sub_diag. simpl. rewrite app_nil_r.
  reflexivity.
Qed.

Lemma lc_from_snoc : forall pre c ln cl,
  lc_from (pre ++ [c]) ln cl =
  let p := lc_from pre ln cl in
  if is_cont c then p else if (c =? LF)%N then (S (fst p), 1) else (fst p, S (snd p)).
Proof.
  intros. rewrite lc_from_app. simpl.
  destruct (is_cont c); [symmetry; apply surjective_pairing|].
  destruct (c =? LF)%N; reflexivity.
Qed.

Section ToSlice.
  Context (file : list N) (s e : nat).
  Context (Hse : s <= e) (Hls : lead_at file s).
  Let sp := span_lc file s e.

  (* the scan of to_slice, started anywhere before e with the right state, ends at e *)
  Lemma to_slice_loop_found : lead_at file e ->
    forall rest pre cl cc si,
      file = pre ++ rest -> (cl, cc) = lc_from pre 1 1 -> length pre <= e ->
      si = (if s <? length pre then Some s else None) ->
      to_slice_loop file sp rest (length pre) cl cc si = slice file s e.
  Proof.
    intros Hle. induction rest as [|c r IHr]; intros pre cl cc si Ef Hlc Hpe Hsi.
    - apply lead_at_lt in Hle. rewrite Ef, app_nil_r in Hle. lia.
    - assert (Hnth : nth_error file (length pre) = Some c).
      { rewrite Ef. rewrite nth_error_app2 by lia. rewrite Nat.sub_diag. reflexivity. }
      assert (Ef' : file = (pre ++ [c]) ++ r) by (rewrite <- app_assoc; exact Ef).
      assert (El' : S (length pre) = length (pre ++ [c])) by (rewrite app_length; simpl; lia).
      cbn [to_slice_loop]. destruct (is_cont c) eqn:Ec.
      + (* continuation byte: not an item of char_indices *)
        assert (Hns : length pre <> s).
        { intros E. destruct Hls as [b [Hb Hcb]]. rewrite <- E in Hb. congruence. }
        assert (Hne : length pre <> e).
        { intros E. destruct Hle as [b [Hb Hcb]]. rewrite <- E in Hb. congruence. }
        rewrite El'. apply IHr.
        * exact Ef'.
        * rewrite lc_from_snoc, Ec. exact Hlc.
        * rewrite <- El'. lia.
        * rewrite <- El'. rewrite Hsi.
          destruct (Nat.ltb_spec s (length pre)); destruct (Nat.ltb_spec s (S (length pre)));
            try reflexivity; lia.
      + assert (Hli : lead_at file (length pre)) by (exists c; auto).
        assert (Hcur : lc file (length pre) = (cl, cc)).
        { rewrite Ef at 1. rewrite lc_prefix. auto. }
        (* start test *)
        change (line (sp_start sp)) with (fst (lc file s)).
        change (col (sp_start sp)) with (snd (lc file s)).
        change (line (sp_end sp)) with (fst (lc file e)).
        change (col (sp_end sp)) with (snd (lc file e)).
        set (si' := if (cl =? fst (lc file s)) && (cc =? snd (lc file s))
                    then Some (length pre) else si).
        assert (Hsi' : si' = (if s <? S (length pre) then Some s else None)).
        { unfold si'. destruct ((cl =? fst (lc file s)) && (cc =? snd (lc file s))) eqn:B.
          - apply test_pos in B. rewrite <- Hcur in B.
            apply lc_inj in B; [|assumption|assumption]. rewrite B.
            assert (E : (s <? S s) = true) by (apply Nat.ltb_lt; lia). rewrite E. reflexivity.
          - assert (Hns : length pre <> s).
            { intros E. rewrite <- E in B. rewrite Hcur in B. simpl in B.
              rewrite !Nat.eqb_refl in B. discriminate. }
            rewrite Hsi.
            destruct (Nat.ltb_spec s (length pre)); destruct (Nat.ltb_spec s (S (length pre)));
              try reflexivity; lia. }
        destruct ((cl =? fst (lc file e)) && (cc =? snd (lc file e))) eqn:B2.
        * apply test_pos in B2. rewrite <- Hcur in B2.
          apply lc_inj in B2; [|assumption|assumption].
          rewrite Hsi'. assert (E : (s <? S (length pre)) = true) by (apply Nat.ltb_lt; lia).
          rewrite E. rewrite B2. reflexivity.
        * assert (Hne : length pre <> e).
          { intros E. rewrite <- E in B2. rewrite Hcur in B2. simpl in B2.
            rewrite !Nat.eqb_refl in B2. discriminate. }
          destruct (c =? LF)%N eqn:Elf.
          -- rewrite El'. apply IHr.
             ++ exact Ef'.
             ++ rewrite lc_from_snoc, Ec, Elf. cbv zeta. rewrite <- Hlc. simpl.
                rewrite Nat.add_1_r. reflexivity.
             ++ rewrite <- El'. lia.
             ++ rewrite <- El'. exact Hsi'.
          -- rewrite El'. apply IHr.
             ++ exact Ef'.
             ++ rewrite lc_from_snoc, Ec, Elf. cbv zeta. rewrite <- Hlc. simpl.
                rewrite Nat.add_1_r. reflexivity.
             ++ rewrite <- El'. lia.
             ++ rewrite <- El'. exact Hsi'.
  Qed.

  (* a span that ends at the end of the file is never found: to_slice returns None *)
  Lemma to_slice_loop_eof : e = length file ->
    forall rest pre cl cc si,
      file = pre ++ rest -> (cl, cc) = lc_from pre 1 1 ->
      to_slice_loop file sp rest (length pre) cl cc si = Err.
  Proof.
    intros He. induction rest as [|c r IHr]; intros pre cl cc si Ef Hlc; [reflexivity|].
    assert (Hnth : nth_error file (length pre) = Some c).
    { rewrite Ef. rewrite nth_error_app2 by lia. rewrite Nat.sub_diag. reflexivity. }
    assert (Ef' : file = (pre ++ [c]) ++ r) by (rewrite <- app_assoc; exact Ef).
    assert (El' : S (length pre) = length (pre ++ [c])) by (rewrite app_length; simpl; lia).
    cbn [to_slice_loop]. destruct (is_cont c) eqn:Ec.
    - rewrite El'. apply IHr; [exact Ef'|]. rewrite lc_from_snoc, Ec. exact Hlc.
    - assert (Hli : lead_at file (length pre)) by (exists c; auto).
      assert (Hcur : lc file (length pre) = (cl, cc)).
      { rewrite Ef at 1. rewrite lc_prefix. auto. }
      change (line (sp_start sp)) with (fst (lc file s)).
      change (col (sp_start sp)) with (snd (lc file s)).
      change (line (sp_end sp)) with (fst (lc file e)).
      change (col (sp_end sp)) with (snd (lc file e)).
      destruct ((cl =? fst (lc file e)) && (cc =? snd (lc file e))) eqn:B2.
      + exfalso. apply test_pos in B2. rewrite <- Hcur in B2.
        apply (lex_lt_irrefl (lc file e)). rewrite <- B2 at 1. apply lc_lt; [|exact Hli].
        apply lead_at_lt in Hli. lia.
      + destruct (c =? LF)%N eqn:Elf.
        * rewrite El'. apply IHr; [exact Ef'|].
          rewrite lc_from_snoc, Ec, Elf. cbv zeta. rewrite <- Hlc. simpl.
          rewrite Nat.add_1_r. reflexivity.
        * rewrite El'. apply IHr; [exact Ef'|].
          rewrite lc_from_snoc, Ec, Elf. cbv zeta. rewrite <- Hlc. simpl.
          rewrite Nat.add_1_r. reflexivity.
  Qed.
End ToSlice.

Lemma valid_lead_at : forall file o, valid_utf8 file = true ->
  o < length file -> is_boundary file o = true -> lead_at file o.
Proof. intros. apply boundary_lead_at; auto. apply valid_starts_ok; assumption. Qed.

(* Span::to_slice on the span of a pair covering bytes [s, e), e not at the end of the file:
   exactly the bytes file[s..e) — also when the span covers several lines (line terminators
   included, "\r\n" and lone "\r" untouched), for tabs and multi-byte characters. *)
Theorem to_slice_correct : forall file s e,
  valid_utf8 file = true -> s <= e -> e < length file ->
  is_boundary file s = true -> is_boundary file e = true ->
  exists sp, span_of_offsets file s e = Ok sp /\
             to_slice file sp = Ok (firstn (e - s) (skipn s file)).
Proof.
  intros file s e Hv Hse He Hbs Hbe. exists (span_lc file s e). split.
  - apply span_of_offsets_spec; auto; lia.
  - assert (Hls : lead_at file s) by (apply valid_lead_at; auto; lia).
    assert (Hle : lead_at file e) by (apply valid_lead_at; auto).
    unfold to_slice.
    pose proof (to_slice_loop_found file s e Hse Hls Hle file [] 1 1 None eq_refl eq_refl
                  (Nat.le_0_l e) eq_refl) as H.
    cbn [length] in H. rewrite H.
    apply slice_ok; auto; lia.
Qed.
Print Assumptions to_slice_correct.

(* ... and when the pair ends at the very end of the file, to_slice returns None
   (char_indices never yields the index len(file)). *)
Theorem to_slice_eof : forall file s,
  valid_utf8 file = true -> s <= length file -> is_boundary file s = true ->
  exists sp, span_of_offsets file s (length file) = Ok sp /\ to_slice file sp = Err.
Proof.
  intros file s Hv Hs Hbs. exists (span_lc file s (length file)). split.
  - apply span_of_offsets_spec; auto. unfold is_boundary.
    destruct (length file =? 0) eqn:E; [reflexivity|].
    assert (H : nth_error file (length file) = None) by (apply nth_error_None; lia).
    rewrite H. apply Nat.eqb_refl.
  - unfold to_slice.
    exact (to_slice_loop_eof file s (length file) Hs eq_refl file [] 1 1 None eq_refl eq_refl).
Qed.
Print Assumptions to_slice_eof.

Theorem to_slice_no_panic : forall file s e,
  valid_utf8 file = true -> s <= e -> e <= length file ->
  is_boundary file s = true -> is_boundary file e = true ->
  exists sp, span_of_offsets file s e = Ok sp /\ to_slice file sp <> Panic.
Proof.
  intros file s e Hv Hse He Hbs Hbe.
  destruct (Nat.eq_dec e (length file)) as [->|Hne].
  - destruct (to_slice_eof file s Hv Hse Hbs) as [sp [H1 H2]]. exists sp. split; [exact H1|].
    rewrite H2. discriminate.
  - destruct (to_slice_correct file s e Hv Hse) as [sp [H1 H2]]; auto; [lia|].
    exists sp. split; [exact H1|]. rewrite H2. discriminate.
Qed.
Print Assumptions to_slice_no_panic.

(* Hand-made spans (not produced from a pair) can make to_slice panic or return None. *)
Example to_slice_panic_witness :   (* "ab\ncd", start column beyond its line *)
  to_slice [97; 98; 10; 99; 100]%N (mkspan (mkpos 1 5) (mkpos 2 1)) = Panic.
Proof. vm_compute. reflexivity. Qed.
Example to_slice_eof_witness :     (* "abc", the pair covering the whole file *)
  span_of_offsets [97; 98; 99]%N 0 3 = Ok (mkspan (mkpos 1 1) (mkpos 1 4)) /\
  to_slice [97; 98; 99]%N (mkspan (mkpos 1 1) (mkpos 1 4)) = Err.
Proof. vm_compute. split; reflexivity. Qed.

(* debug.rs: text stored for a tracked call *)
Definition strip_dbg (text : list N) : list N :=
  match strip_prefix [100; 98; 103; 33; 40]%N text with
  | Some t => match strip_suffix_byte 41%N t with Some u => u | None => text end
  | None => text
  end.

Theorem tracked_text_spec : forall file s e,
  valid_utf8 file = true -> s <= e -> e < length file ->
  is_boundary file s = true -> is_boundary file e = true ->
  exists sp, span_of_offsets file s e = Ok sp /\
    tracked_text file sp =
      Ok (strip_dbg (remove_excess_whitespace (firstn (e - s) (skipn s file)))).
Proof.
  intros file s e Hv Hse He Hbs Hbe.
  destruct (to_slice_correct file s e Hv Hse He Hbs Hbe) as [sp [H1 H2]].
  exists sp. split; [exact H1|]. unfold tracked_text. rewrite H2. reflexivity.
Qed.

(* remove_excess_whitespace: no '\n' survives; no leading blank and no two blanks in a row *)
Lemma rew_no_lf : forall l f, count_lf (rew_loop l f) = 0.
Proof.
  induction l as [|b l IHl]; intros f; [reflexivity|]. cbn [rew_loop].
  destruct (is_cont b) eqn:Ec.
  - cbn [count_lf]. rewrite (cont_not_LF _ Ec). apply IHl.
  - destruct (N.eqb_spec b SP) as [->|Hsp].
    + destruct f; [apply IHl|]. cbn [count_lf]. change (SP =? LF)%N with false. apply IHl.
    + destruct (b =? LF)%N eqn:Elf; [apply IHl|]. cbn [count_lf]. rewrite Elf. apply IHl.
Qed.

Fixpoint no_dbl (prev_space : bool) (l : list N) : bool :=
  match l with
  | [] => true
  | b :: r => if (b =? SP)%N then negb prev_space && no_dbl true r else no_dbl false r
  end.

Lemma no_dbl_weaken : forall l, no_dbl true l = true -> no_dbl false l = true.
Proof. intros [|b r] H; [reflexivity|]. simpl in *. destruct (b =? SP)%N; [discriminate|exact H]. Qed.

Lemma rew_no_dbl : forall l f, no_dbl f (rew_loop l f) = true.
Proof.
  induction l as [|b l IHl]; intros f; [reflexivity|]. cbn [rew_loop].
  destruct (is_cont b) eqn:Ec.
  - cbn [no_dbl].
    assert (Hsp : (b =? SP)%N = false).
    { apply cont_ge128 in Ec. apply N.eqb_neq. unfold SP. lia. }
    rewrite Hsp. destruct f; [apply no_dbl_weaken|]; apply IHl.
  - destruct (b =? SP)%N eqn:Esp.
    + destruct f; [apply IHl|]. cbn [no_dbl]. rewrite Esp. simpl. apply IHl.
    + destruct (b =? LF)%N; [apply IHl|]. cbn [no_dbl]. rewrite Esp. apply IHl.
Qed.

Theorem remove_excess_whitespace_spec : forall s,
  count_lf (remove_excess_whitespace s) = 0 /\ no_dbl true (remove_excess_whitespace s) = true.
Proof. intros. split; [apply rew_no_lf|apply rew_no_dbl]. Qed.

(* ================================================================== *)
(* 7. Display for RichError                                            *)
(* ================================================================== *)

(* invariant established by Position::new and Span::new *)
Definition span_wf (sp : span) : Prop :=
  1 <= line (sp_start sp) /\
  (line (sp_start sp) < line (sp_end sp) \/
   (line (sp_start sp) = line (sp_end sp) /\ col (sp_start sp) <= col (sp_end sp))).

Definition header (w : nat) : list N := fmt_space w ++ [SP; BAR; LF].

(* the last line of the rendering, up to the error text *)
Definition underline (file : list N) (sp : span) : list N :=
  let w := length (to_decimal (line (sp_end sp))) in
  let first_len := length (nth (line (sp_start sp) - 1) (lines file) []) in
  fmt_space w ++ [SP; BAR]
  ++ (if is_multiline sp
      then fmt_space 0 ++ fmt_carets first_len                       (* bytes of the first line *)
      else fmt_space (col (sp_start sp))
           ++ fmt_carets (col (sp_end sp) - col (sp_start sp)))
  ++ [SP].

Lemma peek_len : forall (L : list (list N)) k,
  match skipn k L with [] => 0 | l :: _ => length l end = length (nth k L []).
Proof.
  induction L as [|x L IHL]; intros [|k]; simpl; try reflexivity. apply IHL.
Qed.

Lemma span_new_wf : forall st en sp, 1 <= line st -> span_new st en = Ok sp -> span_wf sp.
Proof.
  intros st en sp H1 H. unfold span_new in H.
  destruct (line st <=? line en) eqn:E1; [|discriminate]. cbn [negb] in H.
  destruct ((line st <? line en) || (col st <=? col en)) eqn:E2; [|discriminate].
  cbn [negb] in H. injection H as <-. unfold span_wf. cbn [sp_start sp_end].
  split; [exact H1|]. apply Nat.leb_le in E1. apply orb_true_iff in E2.
  destruct E2 as [E2|E2]; [apply Nat.ltb_lt in E2; lia|apply Nat.leb_le in E2; lia].
Qed.

(* For a non-empty file and any span satisfying the Span::new invariant, Display does not
   panic and produces: header, the quoted lines, the underline, the message. *)
Theorem render_spec : forall file sp msg, file <> [] -> span_wf sp ->
  let a := line (sp_start sp) in
  let b := line (sp_end sp) in
  let w := length (to_decimal b) in
  render file sp msg =
    Ok (header w
        ++ quote_lines w a (firstn (b - (a - 1)) (skipn (a - 1) (lines file)))
        ++ underline file sp ++ msg).
Proof.
  intros file sp msg Hne [H1 H2] a b w. unfold render.
  destruct file as [|x file']; [congruence|].
  fold a. fold b.
  assert (E1 : (a =? 0) = false) by (apply Nat.eqb_neq; unfold a; lia). rewrite E1.
  assert (E2 : (b <? a - 1) = false) by (apply Nat.ltb_ge; unfold a, b; lia). rewrite E2.
  fold w. rewrite peek_len.
  replace (a - 1 + 1) with a by (unfold a; lia).
  unfold underline, header. fold a. fold b. fold w.
  destruct (is_multiline sp) eqn:Em.
  - cbn [rbind fst snd]. rewrite <- !app_assoc. reflexivity.
  - assert (E3 : (col (sp_end sp) <? col (sp_start sp)) = false).
    { apply Nat.ltb_ge. unfold is_multiline in Em. apply Nat.ltb_ge in Em. lia. }
    rewrite E3. cbn [rbind fst snd]. rewrite <- !app_assoc. reflexivity.
Qed.

Lemma nth_firstn_lt : forall (A : Type) n (X : list A) j d, j < n -> nth j (firstn n X) d = nth j X d.
Proof.
  intros A. induction n as [|n IHn]; intros X j d H; [lia|].
  destruct X as [|x X]; [reflexivity|]. destruct j as [|j]; [reflexivity|].
  simpl. apply IHn. lia.
Qed.

Lemma nth_skipn_add : forall (A : Type) k (L : list A) j d, nth j (skipn k L) d = nth (k + j) L d.
Proof.
  intros A. induction k as [|k IHk]; intros L j d; [reflexivity|].
  destruct L as [|x L]; [destruct j; reflexivity|]. simpl. apply IHk.
Qed.

Lemma quote_lines_seq : forall w (L : list (list N)) ls k,
  (forall j, j < length ls -> nth j ls [] = nth (k + j) L []) ->
  quote_lines w (S k) ls =
  concat (map (fun n => quote_line w n (nth (n - 1) L [])) (seq (S k) (length ls))).
Proof.
  intros w L. induction ls as [|l r IHr]; intros k H; [reflexivity|].
  cbn [quote_lines length seq map concat]. f_equal.
  - f_equal. replace (S k - 1) with (k + 0) by lia. rewrite <- (H 0) by (simpl; lia). reflexivity.
  - apply IHr. intros j Hj. replace (S k + j) with (k + S j) by lia.
    rewrite <- (H (S j)); [reflexivity|simpl; lia].
Qed.

Lemma quote_lines_window : forall w (L : list (list N)) a b, 1 <= a ->
  quote_lines w a (firstn (b - (a - 1)) (skipn (a - 1) L)) =
  concat (map (fun n => quote_line w n (nth (n - 1) L []))
              (seq a (Nat.min b (length L) + 1 - a))).
Proof.
  intros w L a b Ha. destruct a as [|k]; [lia|]. replace (S k - 1) with k by lia.
  rewrite (quote_lines_seq w L _ k).
  - rewrite firstn_length, skipn_length. do 3 f_equal. lia.
  - intros j Hj. rewrite firstn_length in Hj.
    rewrite nth_firstn_lt by lia. apply nth_skipn_add.
Qed.

(* C20: the rendering of an error located by a pair covering bytes [s, e) quotes, verbatim
   and without terminator, the lines a .. min(b, |lines|) of the file with their numbers,
   where a, b are the line numbers of s and e; b exceeds |lines| only when e is at the end
   of a file that ends with '\n' (then nothing is quoted for that last number).  After the
   quoted lines come the underline and the message. *)
Theorem render_quotes : forall file s e msg,
  valid_utf8 file = true -> file <> [] -> s <= e -> e <= length file ->
  is_boundary file s = true -> is_boundary file e = true ->
  exists sp,
    span_of_offsets file s e = Ok sp /\
    let a := line (sp_start sp) in
    let b := line (sp_end sp) in
    let L := lines file in
    let w := length (to_decimal b) in
    let last := Nat.min b (length L) in
    a = fst (lc file s) /\ b = fst (lc file e) /\
    1 <= a <= b /\ b <= length L + 1 /\
    (b = length L + 1 <-> e = length file /\ ends_lf file = true) /\
    (forall n, In n (seq a (last + 1 - a)) -> a <= n <= b /\ n - 1 < length L) /\
    render file sp msg =
      Ok (header w
          ++ concat (map (fun n => quote_line w n (nth (n - 1) L [])) (seq a (last + 1 - a)))
          ++ underline file sp ++ msg).
Proof.
  intros file s e msg Hv Hne Hse He Hbs Hbe. exists (span_lc file s e).
  split; [apply span_of_offsets_spec; auto|].
  cbn zeta. cbn [span_lc pos_lc sp_start sp_end line col].
  pose proof (lc_inside file s ltac:(lia)) as [[Hs1 Hs2] [Hs3 _]].
  pose proof (lc_inside file e He) as [[He1 He2] [He3 Heq]].
  pose proof (lc_le file s e Hse) as Hle. unfold lex_le in Hle.
  split; [reflexivity|]. split; [reflexivity|]. split; [lia|]. split; [lia|]. split.
  - rewrite Heq. split.
    + intros [H1 [H2|H2]]; [congruence|auto].
    + intros [H1 H2]. auto.
  - split.
    + intros n Hn. apply in_seq in Hn. lia.
    + assert (Hwf : span_wf (span_lc file s e)).
      { unfold span_wf. cbn [span_lc pos_lc sp_start sp_end line col]. lia. }
      rewrite (render_spec file (span_lc file s e) msg Hne Hwf).
      cbn zeta. cbn [span_lc pos_lc sp_start sp_end line col].
      rewrite quote_lines_window by lia. reflexivity.
Qed.
Print Assumptions render_quotes.

Theorem render_no_panic : forall file s e msg,
  valid_utf8 file = true -> s <= e -> e <= length file ->
  is_boundary file s = true -> is_boundary file e = true ->
  exists sp out, span_of_offsets file s e = Ok sp /\ render file sp msg = Ok out.
Proof.
  intros file s e msg Hv Hse He Hbs Hbe.
  destruct file as [|x file'] eqn:Ef.
  - exists (span_lc [] s e), msg. split; [apply span_of_offsets_spec; auto|reflexivity].
  - rewrite <- Ef in *.
    assert (Hne : file <> []) by (rewrite Ef; discriminate).
    destruct (render_quotes file s e msg Hv Hne Hse He Hbs Hbe) as [sp [H1 H2]].
    cbn zeta in H2. destruct H2 as [_ [_ [_ [_ [_ [_ H2]]]]]].
    exists sp. eexists. split; [exact H1|exact H2].
Qed.
Print Assumptions render_no_panic.

(* any span accepted by Position::new / Span::new is rendered without panic, on any file *)
Theorem render_no_panic_wf : forall file sp msg, span_wf sp -> exists out, render file sp msg = Ok out.
Proof.
  intros file sp msg Hwf. destruct file as [|x file'] eqn:Ef.
  - exists msg. reflexivity.
  - rewrite <- Ef. eexists. apply render_spec; [rewrite Ef; discriminate|exact Hwf].
Qed.

(* grammar errors: pest reports the failure offset o; the span is one column wide *)
Theorem render_grammar_no_panic : forall file o msg,
  valid_utf8 file = true -> o <= length file -> is_boundary file o = true ->
  exists sp out,
    span_of_grammar_pos file o = Ok sp /\
    sp = mkspan (pos_lc file o) (mkpos (fst (lc file o)) (snd (lc file o) + 1)) /\
    render file sp msg = Ok out.
Proof.
  intros file o msg Hv Ho Hb.
  pose proof (lc_pos file o) as [H1 H2].
  set (sp := mkspan (pos_lc file o) (mkpos (fst (lc file o)) (snd (lc file o) + 1))).
  assert (Hwf : span_wf sp).
  { unfold span_wf, sp. cbn [pos_lc sp_start sp_end line col]. lia. }
  destruct (render_no_panic_wf file sp msg Hwf) as [out Hout].
  exists sp, out. split; [|split; [reflexivity|exact Hout]].
  unfold span_of_grammar_pos. rewrite line_col_position_spec by auto. cbn [rbind].
  unfold sp, pos_lc. destruct (lc file o) as [a b]. simpl in *.
  unfold position_new.
  destruct a as [|a]; [lia|]. destruct b as [|b]; [lia|].
  cbn [Nat.eqb rbind]. replace (S b + 1) with (S (S b)) by lia. cbn [Nat.eqb rbind].
  unfold span_new. cbn [line col].
  rewrite Nat.leb_refl. cbn [negb].
  assert (E : (S b <=? S (S b)) = true) by (apply Nat.leb_le; lia).
  rewrite E. rewrite orb_true_r. reflexivity.
Qed.
Print Assumptions render_grammar_no_panic.

(* A span violating the Span::new invariant (fields are pub, but no code path builds one)
   would make Display panic in a debug build: end.col - start.col underflows. *)
Example render_panic_witness : render [97]%N (mkspan (mkpos 1 3) (mkpos 1 1)) [] = Panic.
Proof. vm_compute. reflexivity. Qed.

(* At the end of a file that ends with '\n' the line number is |lines|+1 and no source line
   is quoted:  file "a\n", s = e = 2  renders as  "  |\n  |  M". *)
Example render_eof_witness :
  rbind (span_of_offsets [97; 10]%N 2 2) (fun sp => render [97; 10]%N sp [77]%N)
  = Ok [32; 32; 124; 10;  32; 32; 124; 32; 32;  77]%N.
Proof. vm_compute. reflexivity. Qed.
(* Multi-line spans are underlined with as many carets as the first line has BYTES:
   file "é(\n)" (é = 2 bytes), span of bytes [2,5): 3 carets under a 2-column line. *)
Example render_bytes_witness :
  rbind (span_of_offsets [195; 169; 40; 10; 41]%N 2 5) (fun sp => render [195; 169; 40; 10; 41]%N sp [77]%N)
  = Ok [32; 32; 124; 10;
        49; 32; 124; 32; 195; 169; 40; 10;
        50; 32; 124; 32; 41; 10;
        32; 32; 124; 32; 94; 94; 94; 32; 77]%N.
Proof. vm_compute. reflexivity. Qed.

(* ================================================================== *)
(* 8. The quoted lines are the source, verbatim; numbers are decimal   *)
(* ================================================================== *)

Lemma strip_suffix_byte_Some : forall c x y, strip_suffix_byte c x = Some y -> x = y ++ [c].
Proof.
  intros c. induction x as [|b r IHr]; intros y H; [discriminate|].
  cbn [strip_suffix_byte] in H. destruct r as [|b' r'].
  - destruct (N.eqb_spec b c) as [->|]; [|discriminate]. injection H as <-. reflexivity.
  - destruct (strip_suffix_byte c (b' :: r')) as [z|] eqn:E; [|discriminate].
    simpl in H. injection H as <-. rewrite (IHr z eq_refl). reflexivity.
Qed.

Lemma strip_suffix_byte_app : forall c y, strip_suffix_byte c (y ++ [c]) = Some y.
Proof.
  intros c. induction y as [|b y IHy].
  - simpl. rewrite N.eqb_refl. reflexivity.
  - cbn [app strip_suffix_byte]. destruct (y ++ [c]) as [|b' r'] eqn:E.
    + destruct y; discriminate.
    + rewrite IHy. reflexivity.
Qed.

(* every line returned by lines() is its piece of the file minus "", "\n" or "\r\n" *)
Lemma lines_map_verbatim : forall x,
  exists t, x = lines_map x ++ t /\ (t = [] \/ t = [LF] \/ t = [CR; LF]).
Proof.
  intros x. unfold lines_map.
  destruct (strip_suffix_byte LF x) as [l1|] eqn:E1.
  - apply strip_suffix_byte_Some in E1.
    destruct (strip_suffix_byte CR l1) as [l2|] eqn:E2.
    + apply strip_suffix_byte_Some in E2. exists [CR; LF]. split; [|auto].
      rewrite E1, E2. rewrite <- app_assoc. reflexivity.
    + exists [LF]. auto.
  - exists []. split; [rewrite app_nil_r; reflexivity|auto].
Qed.

Theorem lines_verbatim : forall file,
  concat (split_incl file) = file /\
  lines file = map lines_map (split_incl file) /\
  Forall (fun piece => exists t, piece = lines_map piece ++ t /\
                                 (t = [] \/ t = [LF] \/ t = [CR; LF])) (split_incl file).
Proof.
  intros file. split; [apply concat_split_incl|]. split; [reflexivity|].
  apply Forall_forall. intros x _. apply lines_map_verbatim.
Qed.

Definition piece_ok (x : list N) : Prop :=
  count_lf x = 0 \/ exists y, x = y ++ [LF] /\ count_lf y = 0.

Lemma split_incl_pieces : forall l, Forall piece_ok (split_incl l).
Proof.
  induction l as [|b r IHr]; [constructor|]. cbn [split_incl].
  destruct (N.eqb_spec b LF) as [->|Hne].
  - constructor; [|exact IHr]. right. exists []. split; reflexivity.
  - apply N.eqb_neq in Hne. destruct (split_incl r) as [|x xs].
    + constructor; [|constructor]. left. simpl. rewrite Hne. reflexivity.
    + inversion IHr as [|? ? Hx Hxs]; subst. constructor; [|exact Hxs].
      destruct Hx as [Hx|[y [-> Hy]]].
      * left. simpl. rewrite Hne. exact Hx.
      * right. exists (b :: y). split; [reflexivity|]. simpl. rewrite Hne. exact Hy.
Qed.

Lemma lines_map_no_lf : forall x, piece_ok x -> count_lf (lines_map x) = 0.
Proof.
  intros x [H|[y [-> Hy]]]; unfold lines_map.
  - destruct (strip_suffix_byte LF x) as [l1|] eqn:E1; [|exact H].
    apply strip_suffix_byte_Some in E1. subst x. rewrite count_lf_app in H. simpl in H. lia.
  - rewrite strip_suffix_byte_app.
    destruct (strip_suffix_byte CR y) as [l2|] eqn:E2; [|exact Hy].
    apply strip_suffix_byte_Some in E2. subst y. rewrite count_lf_app in Hy. lia.
Qed.

(* no quoted line contains a '\n' *)
Theorem lines_no_lf : forall file ln, In ln (lines file) -> count_lf ln = 0.
Proof.
  intros file ln H. unfold lines in H. apply in_map_iff in H. destruct H as [x [<- Hx]].
  apply lines_map_no_lf. pose proof (split_incl_pieces file) as HF.
  rewrite Forall_forall in HF. apply HF. exact Hx.
Qed.

(* usize::to_string: the digits printed denote the number *)
Definition digit_val (d : N) : nat := N.to_nat d - 48.
Definition dec_value (l : list N) : nat := fold_left (fun v d => 10 * v + digit_val d) l 0.

Lemma dec_aux_acc : forall fuel n acc, dec_aux fuel n acc = dec_aux fuel n [] ++ acc.
Proof.
  induction fuel as [|f IHf]; intros n acc; [reflexivity|]. cbn [dec_aux].
  destruct (n / 10 =? 0); [reflexivity|].
  rewrite IHf. rewrite (IHf (n / 10) [_]). rewrite <- app_assoc. reflexivity.
Qed.

Lemma dec_value_snoc : forall x d, dec_value (x ++ [d]) = 10 * dec_value x + digit_val d.
Proof. intros. unfold dec_value. rewrite fold_left_app. reflexivity. Qed.

Lemma digit_val_of : forall m, digit_val (N.of_nat (48 + m)) = m.
Proof. intros. unfold digit_val. rewrite Nat2N.id. lia. Qed.

Lemma dec_aux_value : forall fuel n, n < fuel -> dec_value (dec_aux fuel n []) = n.
Proof.
  induction fuel as [|f IHf]; intros n Hn; [lia|]. cbn [dec_aux].
  destruct (n / 10 =? 0) eqn:E.
  - apply Nat.eqb_eq in E. apply Nat.div_small_iff in E; [|lia].
    unfold dec_value. cbn [fold_left]. rewrite digit_val_of. rewrite Nat.mod_small by lia. lia.
  - apply Nat.eqb_neq in E. rewrite dec_aux_acc. rewrite dec_value_snoc, digit_val_of.
    assert (Hlt : n / 10 < n).
    { apply Nat.div_lt; [|lia]. destruct n; [simpl in E; congruence|lia]. }
    rewrite IHf by lia. pose proof (Nat.div_mod n 10 ltac:(lia)) as Hdm.
    remember (n / 10) as q. remember (n mod 10) as m. lia.
Qed.

Lemma dec_aux_digits : forall fuel n acc,
  Forall (fun d => (48 <= d <= 57)%N) acc -> Forall (fun d => (48 <= d <= 57)%N) (dec_aux fuel n acc).
Proof.
  induction fuel as [|f IHf]; intros n acc H; [exact H|]. cbn [dec_aux].
  assert (Hd : Forall (fun d => (48 <= d <= 57)%N) (N.of_nat (48 + n mod 10) :: acc)).
  { constructor; [|exact H]. pose proof (Nat.mod_upper_bound n 10 ltac:(lia)) as Hm.
    remember (n mod 10) as m. lia. }
  destruct (n / 10 =? 0); [exact Hd|]. apply IHf. exact Hd.
Qed.

Theorem to_decimal_spec : forall n,
  dec_value (to_decimal n) = n /\ to_decimal n <> [] /\
  Forall (fun d => (48 <= d <= 57)%N) (to_decimal n).
Proof.
  intros n. unfold to_decimal. split; [apply dec_aux_value; lia|]. split.
  - cbn [dec_aux]. destruct (n / 10 =? 0); [discriminate|].
    rewrite dec_aux_acc. intros H. apply app_eq_nil in H. destruct H; discriminate.
  - apply dec_aux_digits. constructor.
Qed.
Print Assumptions to_decimal_spec.

(* ================================================================== *)
(* 9. Justification of `char_len` as a model of char::len_utf8         *)
(* ================================================================== *)

Lemma valid_aux_cont_run : forall k r, valid_utf8_aux r k = true -> cont_run r = k.
Proof.
  induction k as [|k IHk]; intros r H.
  - apply valid_aux_starts in H. destruct r as [|b r]; [reflexivity|]. simpl in *.
    destruct (is_cont b); [discriminate|reflexivity].
  - destruct r as [|b r]; [discriminate|]. simpl in H. apply andb_true_iff in H.
    destruct H as [Hc H]. simpl. rewrite Hc. f_equal. apply IHk. exact H.
Qed.

(* in valid UTF-8 the chunk (lead byte + continuation bytes) has the length announced by
   its lead byte, i.e. len_utf8 of the decoded character *)
Theorem valid_char_len : forall b r,
  valid_utf8_aux (b :: r) 0 = true -> char_len (b :: r) = lead_len b.
Proof.
  intros b r H. simpl in H. destruct (lead_len b) as [|k] eqn:E; [discriminate|].
  simpl. f_equal. apply valid_aux_cont_run. exact H.
Qed.
