(* The term emitted by compile is well typed in Simplicity's type system (Simp/Typing.v):
   for every well-typed AST, every scope whose shape matches the typing context, and both settings
   of the debug flag.  This is the fact the real compiler's last step (type inference inside
   simplicity-lang, compile.rs 340-347 / finalize) relies on. *)
From Coq Require Import List Arith NArith Lia Bool.
Import ListNotations.
Require Import SV.Base.Util SV.Base.Res SV.Base.BT SV.Base.BTLemmas SV.Simp.Core SV.Simp.Typing SV.Layout.Ty SV.Layout.Value
               SV.Lang.Ast SV.Comp.Select SV.Comp.Fold SV.Comp.ForWhile SV.Comp.Compile SV.Lang.Sem SV.Lang.WT
               SV.Proofs.LayoutLaws SV.Proofs.LayoutRoundtrip SV.Proofs.EvalBasics SV.Proofs.FoldCorrect SV.Proofs.ForWhileCorrect
               SV.Proofs.CompileCorrect SV.Gen.JetTable SV.Jets.JetModel.

(* ---------- the type-level reading of a base pattern ---------- *)
(* [bpat_ty p A G]: the pattern p destructs a value of Simplicity type A into the variables of G
   (pre-order, i.e. in the order [get] searches them), each at the layout of its Simfony type. *)
Inductive bpat_ty : bpat -> sty -> ctx -> Prop :=
| BT_Ign A : bpat_ty BIgn A []
| BT_Id x T : bpat_ty (BId x) (struct_ty T) [(x, T)]
| BT_Prod l r A B G1 G2 : bpat_ty l A G1 -> bpat_ty r B G2 -> bpat_ty (BProd l r) (SProd A B) (G1 ++ G2).

(* the type-level analogue of Inv in CompileCorrect.v: the flattened stack of scopes is non-empty and
   its input pattern destructs the input type A into exactly the context G, newest first *)
Definition ScopeTy (G:ctx) (sc:list pat) (A:sty) : Prop :=
  sc <> [] /\ bpat_ty (input_pat sc) A G.

(* balanced trees of patterns *)
Lemma bpat_ty_bt bps scs : Forall2 (fun bp (sc:sty*ctx) => bpat_ty bp (fst sc) (snd sc)) bps scs ->
  bpat_ty (bt BProd BIgn bps) (bt SProd SUnit (map fst scs)) (concat (map snd scs)).
Proof.
  intros H.
  pose (g := fun (a b:sty*ctx) => (SProd (fst a) (fst b), snd a ++ snd b)).
  assert (R: bpat_ty (bt BProd BIgn bps) (fst (bt g (SUnit,[]) scs)) (snd (bt g (SUnit,[]) scs))).
  { apply (bt_rel (fun bp (sc:sty*ctx) => bpat_ty bp (fst sc) (snd sc)) BProd g BIgn (SUnit,[])); [constructor| |exact H].
    intros a b a' b' Ha Hb. cbn [g fst snd]. constructor; assumption. }
  rewrite (bt_hom fst g SProd (SUnit,[]) SUnit) in R by reflexivity.
  rewrite (bt_hom snd g (@app _) (SUnit,[]) []) in R by reflexivity.
  rewrite (bt_assoc (@app (N*ty)) []) in R; auto using app_assoc, app_nil_r.
Qed.

Lemma pat_components ps : Forall (fun p => forall T c, pat_ctx p T = Some c -> bpat_ty (of_pat p) (struct_ty T) c) ps ->
  forall ts cs, length ps = length ts ->
    Forall2 (fun pt c => pat_ctx (fst pt) (snd pt) = Some c) (combine ps ts) cs ->
    bpat_ty (bt BProd BIgn (map of_pat ps)) (bt SProd SUnit (map struct_ty ts)) (concat cs).
Proof.
  intros HF ts cs HL HC.
  assert (K: exists scs, map fst scs = map struct_ty ts /\ map snd scs = cs /\
             Forall2 (fun bp (sc:sty*ctx) => bpat_ty bp (fst sc) (snd sc)) (map of_pat ps) scs).
  { revert ts cs HL HC. induction HF as [|p ps Hp Hps IH]; intros ts cs HL HC.
    - destruct ts; [|discriminate]. cbn in HC. inversion HC; subst. exists []. repeat split; constructor.
    - destruct ts as [|t ts]; [discriminate|]. cbn in HC. inversion HC as [|? c ? cs' Hc HC']; subst.
      cbn [fst snd] in Hc.
      destruct (IH ts cs' ltac:(cbn in HL; lia) HC') as (scs & E1 & E2 & HF2).
      exists ((struct_ty t, c) :: scs). cbn [map fst snd]. rewrite E1, E2. repeat split.
      constructor; [cbn [fst snd]; apply Hp; exact Hc | exact HF2]. }
  destruct K as (scs & E1 & E2 & HF2). rewrite <- E1, <- E2. apply bpat_ty_bt. exact HF2.
Qed.

(* a pattern that fits a Simfony type destructs its layout into exactly the variables wt adds to the context *)
Lemma pat_ctx_typed p : forall T c, pat_ctx p T = Some c -> bpat_ty (of_pat p) (struct_ty T) c.
Proof.
  induction p as [x| |ps IH|ps IH] using pat_ind'; intros T c Hc; cbn [pat_ctx] in Hc.
  - inversion Hc; subst. constructor.
  - inversion Hc; subst. constructor.
  - destruct T as [| | | |ts| |]; try discriminate.
    destruct (pat_ctx_tuple _ _ _ Hc) as (HL & cs & HF & ->).
    cbn [of_pat struct_ty]. apply pat_components; assumption.
  - destruct T as [| | | | |a n|]; try discriminate.
    destruct (Nat.eqb_spec (length ps) n) as [En|]; [|discriminate]. subst n.
    destruct (pat_ctx_array _ _ _ Hc) as (cs & HF & ->).
    cbn [of_pat struct_ty]. rewrite <- map_repeat'.
    apply pat_components; [assumption|now rewrite repeat_length|assumption].
Qed.

Lemma pat_ctx_params ps : pat_ctx (params_pat ps) (TTuple (map snd ps)) = Some ps.
Proof.
  unfold params_pat. cbn [pat_ctx].
  induction ps as [|[x t] ps IH]; cbn [map]; [reflexivity|].
  cbn [pat_ctx fst snd]. rewrite IH. reflexivity.
Qed.

Lemma params_scope ps : ScopeTy ps [params_pat ps] (struct_ty (TTuple (map snd ps))).
Proof. split; [discriminate|]. cbn [input_pat]. apply pat_ctx_typed. apply pat_ctx_params. Qed.

Lemma scope_push G sc A p T c : ScopeTy G sc A -> pat_ctx p T = Some c -> ScopeTy (c ++ G) (p :: sc) (SProd (struct_ty T) A).
Proof.
  intros (Hne & HB) Hc. split; [discriminate|]. rewrite input_pat_cons by assumption.
  constructor; [apply pat_ctx_typed; exact Hc | exact HB].
Qed.

Lemma scope_arm G sc A x a : ScopeTy G sc A -> ScopeTy (arm_ctx x a G) (arm_pat x :: sc) (SProd (struct_ty a) A).
Proof.
  intros (Hne & HB). split; [discriminate|]. rewrite input_pat_cons by assumption.
  destruct x as [i|]; cbn [arm_pat of_pat arm_ctx].
  - change ((i,a)::G) with ([(i,a)] ++ G). constructor; [constructor|exact HB].
  - change G with ([] ++ G). constructor; [constructor|exact HB].
Qed.

(* an ignored arm accepts any payload type *)
Lemma scope_ign G sc A X : ScopeTy G sc A -> ScopeTy G (arm_pat None :: sc) (SProd X A).
Proof.
  intros (Hne & HB). split; [discriminate|]. rewrite input_pat_cons by assumption.
  cbn [arm_pat of_pat]. change G with ([] ++ G). constructor; [constructor|exact HB].
Qed.

Section Typed.
Variable dbg : bool.
Variable args : N -> option value.
Variable jsig : N -> option (list ty * ty).   (* Simfony-level jet signatures used by wt *)
Variable W : N -> option ty.                  (* declared witness types *)
Variable jsig_s : N -> option (sty * sty).    (* Simplicity-level jet signatures *)
Variable wty : N -> option sty.               (* Simplicity-level witness types *)
Notation TJ := (tj jsig_s wty).
Notation WTY := (wt jsig W args).
Notation COMP := (compile dbg args).

(* the two levels agree: a jet takes the layout of its argument tuple to the layout of its result,
   a witness node has the layout of its declared type, and `verify` is 2 |- 1 *)
Hypothesis Hjsig : forall j ps r, jsig j = Some (ps, r) -> jsig_s j = Some (struct_ty (TTuple ps), struct_ty r).
Hypothesis Hwty : forall n t, W n = Some t -> wty n = Some (struct_ty t).
Hypothesis Hverify_s : jsig_s verify_jet = Some (SSum SUnit SUnit, SUnit).

(* ---------- selectors ---------- *)
Theorem get_typed p A G : bpat_ty p A G -> forall x,
  match get p x with
  | Some s => exists T, lookupN G x = Some T /\ TJ (sel s) A (struct_ty T)
  | None => lookupN G x = None
  end.
Proof.
  induction 1 as [A|y T|l r A B G1 G2 Hl IHl Hr IHr]; intros x; cbn [get].
  - reflexivity.
  - cbn [lookupN]. destruct (N.eqb x y); [|reflexivity]. exists T. split; [reflexivity|]. cbn [sel]. constructor.
  - rewrite lookupN_app. specialize (IHl x). specialize (IHr x).
    destruct (get l x) as [s|].
    + destruct IHl as (T & HT & Hs). exists T. rewrite HT. split; [reflexivity|]. cbn [sel]. constructor. exact Hs.
    + rewrite IHl. destruct (get r x) as [s|]; cbn [option_map].
      * destruct IHr as (T & HT & Hs). exists T. split; [exact HT|]. cbn [sel]. constructor. exact Hs.
      * exact IHr.
Qed.

(* ---------- balanced products and partitions of terms ---------- *)
Lemma tj_bt_pair A tl ss : Forall2 (fun t s => TJ t A s) tl ss -> TJ (bt Pair Unit tl) A (bt SProd SUnit ss).
Proof.
  apply (bt_rel (fun t s => TJ t A s)); [constructor|].
  intros a b a' b' H1 H2. constructor; assumption.
Qed.

Lemma F2_tj_repeat A T tl : Forall (fun t => TJ t A T) tl -> Forall2 (fun t s => TJ t A s) tl (repeat T (length tl)).
Proof. induction 1; cbn; constructor; auto. Qed.

Lemma part_sty_succ T j :
  part_fold sty_block SProd (S j) (repeat T (2^(S (S j)) - 1)) =
  SProd (SSum SUnit (bt SProd SUnit (repeat T (2^(S j))))) (part_fold sty_block SProd j (repeat T (2^(S j) - 1))).
Proof.
  cbn [part_fold]. rewrite repeat_length.
  pose proof (pow2_pos j).
  assert (E: 2 ^ S (S j) - 1 = 2^(S j) + (2^(S j) - 1)) by (cbn [Nat.pow]; lia).
  destruct (Nat.ltb_spec (2 ^ S (S j) - 1) (2 ^ S j)) as [Hlt|Hge]; [exfalso; lia|].
  rewrite firstn_repeat, skipn_repeat. rewrite Nat.min_l by (rewrite E; lia).
  replace (2 ^ S (S j) - 1 - 2 ^ S j) with (2 ^ S j - 1) by (rewrite E; lia).
  reflexivity.
Qed.

Lemma part_sty_zero T : part_fold sty_block SProd 0 (repeat T (2^1 - 1)) = SSum SUnit T.
Proof. reflexivity. Qed.

(* a list literal of fewer than 2^(S j) elements of type T has the list layout, whatever its length *)
Lemma tj_part A T j : forall tl, Forall (fun t => TJ t A T) tl -> length tl < 2^(S j) ->
  TJ (part_fold term_block Pair j tl) A (part_fold sty_block SProd j (repeat T (2^(S j) - 1))).
Proof.
  induction j; intros tl HF HL.
  - rewrite part_sty_zero. cbn [part_fold]. cbn in HL.
    destruct tl as [|x [|y tl]]; cbn in HL; try lia; cbn [term_block].
    + repeat constructor.
    + inversion HF; subst. constructor. exact H1.
  - rewrite part_sty_succ. cbn [part_fold].
    destruct (Nat.ltb_spec (length tl) (2^(S j))) as [Hl|Hg].
    + constructor; [cbn [term_block]; repeat constructor | apply IHj; assumption].
    + assert (Hlen: length (firstn (2^(S j)) tl) = 2^(S j)) by (rewrite firstn_length; lia).
      rewrite <- (firstn_skipn (2^(S j)) tl) in HF. apply Forall_app in HF as [HF1 HF2].
      rewrite term_block_full by (pose proof (pow2_pos (S j)); lia).
      constructor.
      * constructor. apply tj_bt_pair. rewrite <- Hlen at 2. apply F2_tj_repeat. exact HF1.
      * apply IHj; [exact HF2|]. rewrite skipn_length. cbn [Nat.pow] in *. lia.
Qed.

(* ---------- list_fold, for every bound ---------- *)
Lemma bt_repeat_double (T:sty) j :
  bt SProd SUnit (repeat T (2^(S j))) = SProd (bt SProd SUnit (repeat T (2^j))) (bt SProd SUnit (repeat T (2^j))).
Proof.
  replace (2^(S j)) with (2^j + 2^j) by (cbn [Nat.pow]; lia).
  rewrite repeat_app. apply (bt_pow2_app SProd SUnit j); apply repeat_length.
Qed.

Section FoldTyped.
Variable f : term.
Variables E Acc : sty.
Hypothesis Hf : TJ f (SProd E Acc) Acc.

Lemma next_f_array_typed fa X : TJ fa (SProd X Acc) Acc -> TJ (next_f_array fa) (SProd (SProd X X) Acc) Acc.
Proof.
  intros H. unfold next_f_array.
  apply TJ_Comp with (b := SProd X Acc); [|exact H].
  apply TJ_Pair; [apply tj_OIH|].
  apply TJ_Comp with (b := SProd X Acc); [|exact H].
  apply TJ_Pair; [apply tj_OOH|apply tj_IH].
Qed.

Lemma next_f_fold_typed fa ff X L : TJ fa (SProd X Acc) Acc -> TJ ff (SProd L Acc) Acc ->
  TJ (next_f_fold fa ff) (SProd (SProd (SSum SUnit X) L) Acc) Acc.
Proof.
  intros Ha Hff. unfold next_f_fold.
  apply TJ_Comp with (b := SProd (SSum SUnit X) (SProd L Acc)).
  - apply TJ_Pair; [apply tj_OOH|]. apply TJ_Pair; [apply tj_OIH|apply tj_IH].
  - apply TJ_Case.
    + apply TJ_Drop. exact Hff.
    + apply TJ_Comp with (b := SProd L Acc); [|exact Hff].
      apply TJ_Pair; [apply tj_IOH|].
      apply TJ_Comp with (b := SProd X Acc); [|exact Ha].
      apply TJ_Pair; [apply tj_OH|apply tj_IIH].
Qed.

(* the array fold over a full block of 2^j elements *)
Lemma f_arr_typed j : TJ (f_arr f j) (SProd (bt SProd SUnit (repeat E (2^j))) Acc) Acc.
Proof.
  induction j as [|j IHj]; cbn [f_arr].
  - exact Hf.
  - rewrite bt_repeat_double. apply next_f_array_typed. exact IHj.
Qed.

Lemma f_fold_typed j : TJ (f_fold f j) (SProd (part_fold sty_block SProd j (repeat E (2^(S j) - 1))) Acc) Acc.
Proof.
  induction j as [|j IHj]; cbn [f_fold].
  - rewrite part_sty_zero. apply TJ_Case; [apply tj_IH|exact Hf].
  - rewrite part_sty_succ. apply next_f_fold_typed; [apply f_arr_typed|exact IHj].
Qed.

Theorem list_fold_typed k : 1 <= k ->
  TJ (list_fold k f) (SProd (part_fold sty_block SProd (k-1) (repeat E (2^k - 1))) Acc) Acc.
Proof.
  intros Hk. unfold list_fold.
  change f with (f_arr f 0) at 1. change (Case IH (f_arr f 0)) with (f_fold f 0).
  rewrite fold_loop_eq, Nat.add_0_r.
  replace (2^k - 1) with (2^(S (k-1)) - 1) by (replace (S (k-1)) with k by lia; reflexivity).
  apply f_fold_typed.
Qed.
End FoldTyped.

(* ---------- for_while, for every counter width ---------- *)
Section ForTyped.
Variables Ac B : sty.    (* accumulator, early-exit result *)

Lemma fw0_typed f C : TJ f (SProd Ac (SProd C (SSum SUnit SUnit))) (SSum B Ac) -> TJ (fw0 f) (SProd Ac C) (SSum B Ac).
Proof.
  intros H. unfold fw0.
  apply TJ_Comp with (b := SProd (SSum B Ac) C).
  - apply TJ_Pair; [|apply tj_IH].
    apply TJ_Comp with (b := SProd Ac (SProd C (SSum SUnit SUnit))); [|exact H].
    apply TJ_Pair; [apply tj_OH|]. apply TJ_Pair; [apply tj_IH|apply tj_bit_false].
  - apply TJ_Case.
    + apply TJ_InjL. apply tj_OH.
    + apply TJ_Comp with (b := SProd Ac (SProd C (SSum SUnit SUnit))); [|exact H].
      apply TJ_Pair; [apply tj_OH|]. apply TJ_Pair; [apply tj_IH|apply tj_bit_true].
Qed.

Lemma adapt_typed f C X Y R : TJ f (SProd Ac (SProd C (SProd X Y))) R -> TJ (adapt f) (SProd Ac (SProd (SProd C X) Y)) R.
Proof.
  intros H. unfold adapt.
  apply TJ_Comp with (b := SProd Ac (SProd C (SProd X Y))); [|exact H].
  apply TJ_Pair; [apply tj_OH|].
  apply TJ_Pair; [unfold IOOH; repeat constructor|].
  apply TJ_Pair; [unfold IOIH; repeat constructor|apply tj_IIH].
Qed.

Lemma FW_typed n : forall f C, TJ f (SProd Ac (SProd C (two_two_n n))) (SSum B Ac) -> TJ (FW n f) (SProd Ac C) (SSum B Ac).
Proof.
  induction n as [|n IHn]; intros f C H; cbn [FW].
  - apply fw0_typed. exact H.
  - apply IHn. apply IHn. apply adapt_typed. exact H.
Qed.

Theorem for_while_typed n f C : TJ f (SProd Ac (SProd C (two_two_n n))) (SSum B Ac) ->
  TJ (for_while n f) (SProd Ac C) (SSum B Ac).
Proof. rewrite for_while_FW. apply FW_typed. Qed.
End ForTyped.

(* ---------- debug wrapper ---------- *)
Lemma with_debug_typed tr a body A X Y : TJ a A X -> TJ body X Y -> TJ (with_debug dbg tr a body) A Y.
Proof.
  intros Ha Hb. unfold with_debug. destruct (dbg && tr).
  - apply TJ_Comp with (b := SProd (SSum SUnit SUnit) X).
    + apply TJ_Pair; [apply tj_bit_false|exact Ha].
    + apply TJ_AssertL. apply TJ_Drop. exact Hb.
  - apply TJ_Comp with (b := X); assumption.
Qed.

(* ---------- builtin bodies ---------- *)
Lemma builtin_typed_s b ats t body : wt_builtin jsig b ats t = true -> builtin_body b = Some body ->
  TJ body (struct_ty (TTuple ats)) (struct_ty t).
Proof.
  intros Hw Hb.
  destruct b; cbn [builtin_body] in Hb; inversion Hb; subst; clear Hb; cbn [wt_builtin] in Hw.
  - (* jet *) destruct (jsig j) as [[ps r0]|] eqn:Ej; [|discriminate].
    apply andb_true_iff in Hw as [H1 H2]. apply tys_eqb_eq in H1. apply ty_eqb_eq in H2. subst.
    constructor. apply Hjsig. exact Ej.
  - (* unwrap_left *) destruct ats as [|[a b'| | | | | |] [|? ?]]; try discriminate. apply ty_eqb_eq in Hw. subst.
    change (struct_ty (TTuple [TEither t b'])) with (SSum (struct_ty t) (struct_ty b')).
    apply TJ_Comp with (b := SProd (SSum (struct_ty t) (struct_ty b')) SUnit); repeat constructor.
  - (* unwrap_right *) destruct ats as [|[a b'| | | | | |] [|? ?]]; try discriminate. apply ty_eqb_eq in Hw. subst.
    change (struct_ty (TTuple [TEither a t])) with (SSum (struct_ty a) (struct_ty t)).
    apply TJ_Comp with (b := SProd (SSum (struct_ty a) (struct_ty t)) SUnit); repeat constructor.
  - (* unwrap *) destruct ats as [|[|a| | | | |] [|? ?]]; try discriminate. apply ty_eqb_eq in Hw. subst.
    change (struct_ty (TTuple [TOption t])) with (SSum SUnit (struct_ty t)).
    apply TJ_Comp with (b := SProd (SSum SUnit (struct_ty t)) SUnit); repeat constructor.
  - (* is_none *) destruct ats as [|[|a| | | | |] [|? ?]]; try discriminate. apply ty_eqb_eq in Hw. subst.
    change (struct_ty (TTuple [TOption a])) with (SSum SUnit (struct_ty a)).
    apply TJ_Comp with (b := SProd (SSum SUnit (struct_ty a)) SUnit); repeat constructor.
  - (* assert *) destruct ats as [|[| | | | | |] [|? ?]]; try discriminate. apply is_unit_eq in Hw. subst.
    change (struct_ty (TTuple [TBool])) with (SSum SUnit SUnit). change (struct_ty (TTuple [])) with SUnit.
    constructor. exact Hverify_s.
  - (* panic *) constructor.
  - (* dbg *) destruct ats as [|a [|? ?]]; try discriminate. apply ty_eqb_eq in Hw. subst.
    change (struct_ty (TTuple [t])) with (struct_ty t). constructor.
Qed.

(* ---------- the main induction ---------- *)
Definition Typed (e:expr) : Prop := forall G sc A t,
  WTY G e = true -> ScopeTy G sc A -> COMP sc e = Ok t -> TJ t A (struct_ty (ty_of e)).

Lemma typed_list es : Forall Typed es -> forall G sc A tl, forallb (fun e0 => WTY G e0) es = true -> ScopeTy G sc A ->
  mapr (fun e0 => COMP sc e0) es = Ok tl ->
  Forall2 (fun t s => TJ t A s) tl (map struct_ty (map ty_of es)).
Proof.
  induction 1 as [|e es He Hes IH]; intros G sc A tl Hw HS HC.
  - cbn in HC. inversion HC; subst. constructor.
  - cbn in Hw. apply andb_true_iff in Hw as [Hw1 Hw2]. cbn in HC.
    apply rbind_ok in HC as (t1 & C1 & HC). apply rmap_ok in HC as (tl' & C2 & ->).
    cbn [map]. constructor; [eapply He; eauto | eapply IH; eauto].
Qed.

(* the argument tuple of a call *)
Lemma typed_args es : Forall Typed es -> forall G sc A tl, forallb (fun e0 => WTY G e0) es = true -> ScopeTy G sc A ->
  mapr (fun e0 => COMP sc e0) es = Ok tl -> TJ (bt Pair Unit tl) A (struct_ty (TTuple (map ty_of es))).
Proof. intros H G sc A tl Hw HS HC. cbn [struct_ty]. apply tj_bt_pair. eapply typed_list; eauto. Qed.

Lemma comp_blk_let' t p e' ss last sc : COMP sc (EBlock t ((Some p, e')::ss) last) =
  rbind (COMP sc e') (fun t1 => rbind (COMP (p::sc) (EBlock t ss last)) (fun t2 => Ok (Comp (Pair t1 Iden) t2))).
Proof. reflexivity. Qed.
Lemma comp_blk_ex' t e' ss last sc : COMP sc (EBlock t ((None, e')::ss) last) =
  rbind (COMP sc e') (fun t1 => rbind (COMP sc (EBlock t ss last)) (fun t2 => Ok (Comp (Pair t1 t2) (Drop Iden)))).
Proof. reflexivity. Qed.
Lemma wt_blk_let' t p e' ss last G : WTY G (EBlock t ((Some p, e')::ss) last) =
  WTY G e' && match pat_ctx p (ty_of e') with Some c => WTY (c ++ G) (EBlock t ss last) | None => false end.
Proof. reflexivity. Qed.
Lemma wt_blk_ex' t e' ss last G : WTY G (EBlock t ((None, e')::ss) last) =
  WTY G e' && is_unit (ty_of e') && WTY G (EBlock t ss last).
Proof. reflexivity. Qed.

Lemma typed_block t stmts last : Forall (fun s => Typed (snd s)) stmts -> opt_P Typed last -> Typed (EBlock t stmts last).
Proof.
  intros HF HL. induction HF as [|[[p|] e1] ss He1 Hss IHss]; intros G sc A tm Hw HS HC.
  - destruct last as [e|]; cbn in Hw, HC |- *.
    + apply andb_true_iff in Hw as [Hw1 Hw2]. apply ty_eqb_eq in Hw2. rewrite <- Hw2. eapply HL; eauto.
    + inversion HC; subst. apply is_unit_eq in Hw. subst. change (struct_ty (TTuple [])) with SUnit. constructor.
  - rewrite wt_blk_let' in Hw. apply andb_true_iff in Hw as [Hw1 Hw2].
    destruct (pat_ctx p (ty_of e1)) as [c|] eqn:Ec; [|discriminate].
    rewrite comp_blk_let' in HC. apply rbind_ok in HC as (t1 & C1 & HC). apply rbind_ok in HC as (t2 & C2 & HC).
    inversion HC; subst. cbn [snd] in He1. cbn [ty_of].
    apply TJ_Comp with (b := SProd (struct_ty (ty_of e1)) A).
    + apply TJ_Pair; [eapply He1; eauto | constructor].
    + apply (IHss (c ++ G) (p :: sc) (SProd (struct_ty (ty_of e1)) A) t2 Hw2); [|exact C2].
      apply scope_push; assumption.
  - rewrite wt_blk_ex' in Hw. apply andb_true_iff in Hw as [Hw1 Hw3]. apply andb_true_iff in Hw1 as [Hw1 Hw2].
    rewrite comp_blk_ex' in HC. apply rbind_ok in HC as (t1 & C1 & HC). apply rbind_ok in HC as (t2 & C2 & HC).
    inversion HC; subst. cbn [snd] in He1. cbn [ty_of].
    apply TJ_Comp with (b := SProd (struct_ty (ty_of e1)) (struct_ty t)).
    + apply TJ_Pair; [eapply He1; eauto|]. apply (IHss G sc A t2 Hw3 HS C2).
    + apply tj_IH.
Qed.

Lemma typed_const t v : Typed (EConst t v).
Proof.
  intros G sc A tm Hw HS HC. cbn in *. inversion HC; subst.
  apply andb_true_iff in Hw as [Hw1 Hw2]. apply ty_eqb_eq in Hw2. subst.
  apply TJ_Comp with (b := SUnit); [constructor|]. apply tj_scribe. now apply structural_has_type.
Qed.

Lemma typed_witness t n : Typed (EWitness t n).
Proof.
  intros G sc A tm Hw HS HC. cbn in *. inversion HC; subst.
  destruct (W n) as [t'|] eqn:EW; [|discriminate]. apply ty_eqb_eq in Hw. subst.
  constructor. apply Hwty. exact EW.
Qed.

Lemma typed_param t n : Typed (EParam t n).
Proof.
  intros G sc A tm Hw HS HC. cbn in *.
  destruct (args n) as [v|] eqn:EA; [|discriminate]. inversion HC; subst.
  apply andb_true_iff in Hw as [Hw1 Hw2]. apply ty_eqb_eq in Hw2. subst.
  apply TJ_Comp with (b := SUnit); [constructor|]. apply tj_scribe. now apply structural_has_type.
Qed.

Lemma typed_var t x : Typed (EVar t x).
Proof.
  intros G sc A tm Hw HS HC. cbn in *.
  destruct (lookupN G x) as [t'|] eqn:EL; [|discriminate]. apply ty_eqb_eq in Hw. subst.
  destruct HS as (Hne & HB). pose proof (get_typed _ _ _ HB x) as HG.
  destruct (get (input_pat sc) x) as [s|]; [|discriminate]. cbn in HC. inversion HC; subst.
  destruct HG as (T & HT & Hs). rewrite EL in HT. inversion HT; subst. exact Hs.
Qed.

Lemma typed_tuple t es : Forall Typed es -> Typed (ETuple t es).
Proof.
  intros H G sc A tm Hw HS HC. cbn [wt compile ty_of] in *.
  apply andb_true_iff in Hw as [Hw1 Hw2]. apply ty_eqb_eq in Hw1. subst.
  apply rmap_ok in HC as (tl & C & ->). eapply typed_args; eauto.
Qed.

Lemma typed_array t es : Forall Typed es -> Typed (EArray t es).
Proof.
  intros H G sc A tm Hw HS HC. cbn [wt compile ty_of] in *.
  destruct t as [| | | | |a n|]; try discriminate.
  apply andb_true_iff in Hw as [Hw1 Hw2]. apply Nat.eqb_eq in Hw1. subst.
  apply forallb_and in Hw2 as [Hw2 Hw3]. apply all_ty_repeat in Hw3.
  apply rmap_ok in HC as (tl & C & ->).
  cbn [struct_ty]. apply tj_bt_pair. rewrite <- map_repeat', <- Hw3. eapply typed_list; eauto.
Qed.

Lemma F2_repeat_Forall {X Y} (R:X->Y->Prop) l y n : Forall2 R l (repeat y n) -> Forall (fun x => R x y) l.
Proof.
  revert n. induction l as [|x l IH]; intros n HF; [constructor|].
  destruct n; cbn in HF; inversion HF; subst. constructor; eauto.
Qed.

Lemma typed_elist t es : Forall Typed es -> Typed (EList t es).
Proof.
  intros H G sc A tm Hw HS HC. cbn [wt compile ty_of] in *.
  destruct t as [| | | | | |a k]; try discriminate.
  apply andb_true_iff in Hw as [Hw1 Hw3]. apply andb_true_iff in Hw1 as [Hw0 Hw1].
  apply Nat.leb_le in Hw0. apply Nat.ltb_lt in Hw1.
  apply forallb_and in Hw3 as [Hw2 Hw3]. apply all_ty_repeat in Hw3.
  apply rbind_ok in HC as (tl & C & HC).
  destruct (Nat.ltb_spec (length tl) (2^k)) as [Hlt|]; [|discriminate]. inversion HC; subst.
  pose proof (typed_list _ H _ _ _ _ Hw2 HS C) as TL. rewrite Hw3, map_repeat' in TL.
  cbn [struct_ty].
  replace (2^k - 1) with (2^(S (k-1)) - 1) by (replace (S (k-1)) with k by lia; reflexivity).
  apply tj_part.
  - exact (F2_repeat_Forall (fun t s => TJ t A s) _ _ _ TL).
  - replace (S (k-1)) with k by lia. exact Hlt.
Qed.

Lemma typed_left t e : Typed e -> Typed (ELeft t e).
Proof.
  intros IH G sc A tm Hw HS HC. cbn [wt compile ty_of] in *.
  destruct t as [a b| | | | | |]; try discriminate.
  apply andb_true_iff in Hw as [Hw1 Hw2]. apply ty_eqb_eq in Hw2.
  apply rmap_ok in HC as (t1 & C & ->). cbn [struct_ty]. constructor. rewrite <- Hw2. eapply IH; eauto.
Qed.
Lemma typed_right t e : Typed e -> Typed (ERight t e).
Proof.
  intros IH G sc A tm Hw HS HC. cbn [wt compile ty_of] in *.
  destruct t as [a b| | | | | |]; try discriminate.
  apply andb_true_iff in Hw as [Hw1 Hw2]. apply ty_eqb_eq in Hw2.
  apply rmap_ok in HC as (t1 & C & ->). cbn [struct_ty]. constructor. rewrite <- Hw2. eapply IH; eauto.
Qed.
Lemma typed_some t e : Typed e -> Typed (ESome t e).
Proof.
  intros IH G sc A tm Hw HS HC. cbn [wt compile ty_of] in *.
  destruct t as [|a| | | | |]; try discriminate.
  apply andb_true_iff in Hw as [Hw1 Hw2]. apply ty_eqb_eq in Hw2.
  apply rmap_ok in HC as (t1 & C & ->). cbn [struct_ty]. constructor. rewrite <- Hw2. eapply IH; eauto.
Qed.
Lemma typed_none t : Typed (ENone t).
Proof.
  intros G sc A tm Hw HS HC. cbn in *. inversion HC; subst.
  destruct t; try discriminate. cbn [struct_ty]. repeat constructor.
Qed.

Lemma typed_call t b es : Forall Typed es -> Typed (ECall t b es).
Proof.
  intros H G sc A tm Hw HS HC. cbn [wt compile ty_of] in *.
  apply andb_true_iff in Hw as [Hw1 Hw2].
  apply rbind_ok in HC as (a & Ca & HC). apply rmap_ok in Ca as (tl & C & ->).
  pose proof (typed_args _ H _ _ _ _ Hw1 HS C) as TA.
  assert (Body: forall body, builtin_body b = Some body -> TJ body (struct_ty (TTuple (map ty_of es))) (struct_ty t)).
  { intros body Hb. eapply builtin_typed_s; eauto. }
  destruct b; cbn [builtin_body] in HC; inversion HC; subst; clear HC;
    try (eapply with_debug_typed; [exact TA | apply Body; reflexivity]).
  - (* is_none: never wrapped *)
    apply TJ_Comp with (b := struct_ty (TTuple (map ty_of es))); [exact TA | apply Body; reflexivity].
  - (* cast: no code, the layouts coincide *)
    cbn [wt_builtin] in Hw2. destruct (map ty_of es) as [|a0 [|? ?]]; try discriminate.
    apply andb_true_iff in Hw2 as [H1 H2]. apply ty_eqb_eq in H1. subst.
    apply cast_ok_iff in H2. rewrite <- H2. exact TA.
Qed.

Lemma typed_fn t k ps body es : Typed body -> Forall Typed es -> Typed (EFn t k ps body es).
Proof.
  intros IHb H G sc A tm Hw HS HC. cbn [wt compile ty_of] in *.
  apply andb_true_iff in Hw as [Hw Hk]. apply andb_true_iff in Hw as [Hw1 Hwb].
  apply rbind_ok in HC as (a & Ca & HC). apply rmap_ok in Ca as (tl & C & ->).
  apply rbind_ok in HC as (tb & Cb & HC).
  pose proof (typed_args _ H _ _ _ _ Hw1 HS C) as TA.
  pose proof (IHb ps [params_pat ps] _ tb Hwb (params_scope ps) Cb) as TB.
  destruct k as [|kk|w].
  - (* custom *)
    inversion HC; subst. apply andb_true_iff in Hk as [Hk1 Hk2]. apply tys_eqb_eq in Hk1. apply ty_eqb_eq in Hk2. subst.
    rewrite Hk1 in TA. apply TJ_Comp with (b := struct_ty (TTuple (map snd ps))); assumption.
  - (* fold *)
    inversion HC; subst.
    destruct ps as [|[x Et] [|[y At] [|? ?]]]; try discriminate.
    apply andb_true_iff in Hk as [Hk Hk4]. apply andb_true_iff in Hk as [Hk Hk3]. apply andb_true_iff in Hk as [Hk1 Hk2].
    apply Nat.leb_le in Hk1. apply tys_eqb_eq in Hk2. apply ty_eqb_eq in Hk3. apply ty_eqb_eq in Hk4. subst t.
    rewrite Hk2 in TA. rewrite Hk3 in TB. cbn [map snd] in TB.
    change (struct_ty (TTuple [Et; At])) with (SProd (struct_ty Et) (struct_ty At)) in TB.
    change (struct_ty (TTuple [TList Et kk; At])) with (SProd (struct_ty (TList Et kk)) (struct_ty At)) in TA.
    apply TJ_Comp with (b := SProd (struct_ty (TList Et kk)) (struct_ty At)); [exact TA|].
    cbn [struct_ty]. apply list_fold_typed; assumption.
  - (* for_while *)
    inversion HC; subst.
    destruct ps as [|[x At] [|[y Ct] [|[z [| | |w'| | |]] [|? ?]]]]; try discriminate.
    destruct t as [Bt At'| | | | | |]; try discriminate.
    apply andb_true_iff in Hk as [Hk Hk4]. apply andb_true_iff in Hk as [Hk Hk3]. apply andb_true_iff in Hk as [Hk1 Hk2].
    apply Nat.eqb_eq in Hk1. apply ty_eqb_eq in Hk2. apply tys_eqb_eq in Hk3. apply ty_eqb_eq in Hk4. subst w' At'.
    rewrite Hk3 in TA. rewrite Hk4 in TB. cbn [map snd] in TB.
    change (struct_ty (TTuple [At; Ct; TUInt w])) with (SProd (struct_ty At) (SProd (struct_ty Ct) (two_two_n w))) in TB.
    change (struct_ty (TTuple [At; Ct])) with (SProd (struct_ty At) (struct_ty Ct)) in TA.
    change (struct_ty (TEither Bt At)) with (SSum (struct_ty Bt) (struct_ty At)) in *.
    apply TJ_Comp with (b := SProd (struct_ty At) (struct_ty Ct)); [exact TA|].
    apply for_while_typed. exact TB.
Qed.

Lemma typed_match t s xl el xr er : Typed s -> Typed el -> Typed er -> Typed (EMatch t s xl el xr er).
Proof.
  intros IHs IHl IHr G sc A tm Hw HS HC. cbn [wt compile ty_of] in *.
  apply andb_true_iff in Hw as [Hw Ht2]. apply andb_true_iff in Hw as [Hw Ht1]. apply andb_true_iff in Hw as [Hws Harms].
  apply ty_eqb_eq in Ht1. apply ty_eqb_eq in Ht2.
  apply rbind_ok in HC as (tl & Cl & HC). apply rbind_ok in HC as (tr & Cr & HC). apply rbind_ok in HC as (ts & Cs & HC).
  inversion HC; subst tm; clear HC.
  pose proof (IHs _ _ _ _ Hws HS Cs) as TS.
  destruct (ty_of s) as [a b|a| | | | |] eqn:Ety; try discriminate; cbn [struct_ty] in TS.
  - (* Either *) apply andb_true_iff in Harms as [Hl Hr].
    apply TJ_Comp with (b := SProd (SSum (struct_ty a) (struct_ty b)) A); [apply TJ_Pair; [exact TS|constructor]|].
    apply TJ_Case.
    + rewrite <- Ht1. exact (IHl _ _ _ _ Hl (scope_arm _ _ _ xl a HS) Cl).
    + rewrite <- Ht2. exact (IHr _ _ _ _ Hr (scope_arm _ _ _ xr b HS) Cr).
  - (* Option *) destruct xl; [discriminate|]. apply andb_true_iff in Harms as [Hl Hr].
    apply TJ_Comp with (b := SProd (SSum SUnit (struct_ty a)) A); [apply TJ_Pair; [exact TS|constructor]|].
    apply TJ_Case.
    + rewrite <- Ht1. exact (IHl _ _ _ _ Hl (scope_ign _ _ _ SUnit HS) Cl).
    + rewrite <- Ht2. exact (IHr _ _ _ _ Hr (scope_arm _ _ _ xr a HS) Cr).
  - (* bool *) destruct xl; [discriminate|]. destruct xr; [discriminate|]. apply andb_true_iff in Harms as [Hl Hr].
    apply TJ_Comp with (b := SProd (SSum SUnit SUnit) A); [apply TJ_Pair; [exact TS|constructor]|].
    apply TJ_Case.
    + rewrite <- Ht1. exact (IHl _ _ _ _ Hl (scope_ign _ _ _ SUnit HS) Cl).
    + rewrite <- Ht2. exact (IHr _ _ _ _ Hr (scope_ign _ _ _ SUnit HS) Cr).
Qed.

Theorem compile_typed_all e : Typed e.
Proof.
  induction e using expr_ind'.
  - apply typed_block; assumption.
  - apply typed_const.
  - apply typed_witness.
  - apply typed_param.
  - apply typed_var.
  - intros G sc A tm Hw HS HC. cbn in *. eapply IHe; eauto.
  - apply typed_tuple; assumption.
  - apply typed_array; assumption.
  - apply typed_elist; assumption.
  - apply typed_left; assumption.
  - apply typed_right; assumption.
  - apply typed_none.
  - apply typed_some; assumption.
  - apply typed_call; assumption.
  - apply typed_fn; assumption.
  - apply typed_match; assumption.
Qed.

(* The statement for expressions in an arbitrary scope ... *)
Theorem compile_typed : forall G sc A t e,
  wt jsig W args G e = true -> ScopeTy G sc A -> compile dbg args sc e = Ok t ->
  tj jsig_s wty t A (struct_ty (ty_of e)).
Proof. intros. eapply compile_typed_all; eauto. Qed.

(* ... and for whole programs: main is a term from the unit type to the unit type *)
Theorem compile_program_typed : forall main t,
  wt_program jsig W args main = true -> compile_program dbg args main = Ok t ->
  tj jsig_s wty t SUnit SUnit.
Proof.
  intros main t Hw HC. unfold wt_program in Hw. apply andb_true_iff in Hw as [Hw Hu].
  apply is_unit_eq in Hu. unfold compile_program in HC.
  change SUnit with (struct_ty (TTuple [])) at 2. rewrite <- Hu.
  apply (compile_typed [] [PIgn] SUnit t main Hw); [|exact HC].
  split; [discriminate|]. cbn [input_pat of_pat]. constructor.
Qed.

(* Consequence, with the soundness of the type system: in an environment that respects the
   Simplicity-level signatures, the compiled program run on the unit input is never stuck,
   and if it returns, it returns the unit value. *)
Section Safe.
Variable jet : N -> sval -> option sval.
Variable wit : N -> option sval.
Hypothesis Hjet_s : forall j a b v w, jsig_s j = Some (a, b) -> vty v a = true -> jet j v = Some w -> vty w b = true.
Hypothesis Hwit_s : forall n b, wty n = Some b -> exists v, wit n = Some v /\ vty v b = true.

Corollary compile_program_safe : forall main t,
  wt_program jsig W args main = true -> compile_program dbg args main = Ok t ->
  eval jet wit t VU = Failed \/ eval jet wit t VU = Val VU.
Proof.
  intros main t Hw HC. pose proof (compile_program_typed main t Hw HC) as HT.
  destruct (tj_sound jsig_s wty jet wit Hjet_s Hwit_s t SUnit SUnit VU HT eq_refl) as [F|(w & E & Tw)]; [left; exact F|right].
  destruct w; cbn in Tw; try discriminate. exact E.
Qed.
End Safe.
End Typed.

(* ---------- the hypotheses are satisfiable: two instantiations ---------- *)
(* (1) for any Simfony-level tables, read the Simplicity-level signatures off through the layout *)
Definition jsig_layout (jsig : N -> option (list ty * ty)) (j:N) : option (sty * sty) :=
  match jsig j with Some (ps, r) => Some (struct_ty (TTuple ps), struct_ty r) | None => None end.
Definition wty_layout (W : N -> option ty) (n:N) : option sty := option_map struct_ty (W n).

Corollary compile_typed_layout dbg args jsig W :
  jsig verify_jet = Some ([TBool], TTuple []) ->
  forall G sc A t e, wt jsig W args G e = true -> ScopeTy G sc A -> compile dbg args sc e = Ok t ->
    tj (jsig_layout jsig) (wty_layout W) t A (struct_ty (ty_of e)).
Proof.
  intros Hv. apply compile_typed.
  - intros j ps r E. unfold jsig_layout. rewrite E. reflexivity.
  - intros n t E. unfold wty_layout. rewrite E. reflexivity.
  - unfold jsig_layout. rewrite Hv. reflexivity.
Qed.

(* (2) the regenerated jet table: every jet node is typed at the source and target types that
   simplicity-lang itself declares for the jet (columns 5 and 6 of Gen/JetTable.v) *)
Definition jet_sty (j:N) : option (sty * sty) :=
  match find_jet j with Some r => Some (row_src r, row_tgt r) | None => None end.

Definition row_layout_ok (r:jrow) : bool :=
  sty_eqb (struct_ty (TTuple (row_params r))) (row_src r) && sty_eqb (struct_ty (row_ret r)) (row_tgt r).
Lemma jet_rows_layout : forallb row_layout_ok jet_rows = true.
Proof. vm_compute. reflexivity. Qed.

Lemma jet_table_layout j ps r : jet_sig j = Some (ps, r) -> jet_sty j = Some (struct_ty (TTuple ps), struct_ty r).
Proof.
  unfold jet_sig, jet_sty. destruct (find_jet j) as [row|] eqn:E; [|discriminate].
  intros H; inversion H; subst. unfold find_jet in E. apply find_some in E as [Hin _].
  pose proof jet_rows_layout as HL. rewrite forallb_forall in HL. specialize (HL _ Hin).
  unfold row_layout_ok in HL. apply andb_true_iff in HL as [H1 H2].
  apply sty_eqb_eq in H1. apply sty_eqb_eq in H2. rewrite H1, H2. reflexivity.
Qed.

Lemma jet_table_verify : jet_sty verify_jet = Some (SSum SUnit SUnit, SUnit).
Proof. vm_compute. reflexivity. Qed.

Theorem compile_typed_table dbg args W :
  forall G sc A t e, wt jet_sig W args G e = true -> ScopeTy G sc A -> compile dbg args sc e = Ok t ->
    tj jet_sty (wty_layout W) t A (struct_ty (ty_of e)).
Proof.
  apply compile_typed.
  - apply jet_table_layout.
  - intros n t E. unfold wty_layout. rewrite E. reflexivity.
  - apply jet_table_verify.
Qed.

Theorem compile_program_typed_table dbg args W : forall main t,
  wt_program jet_sig W args main = true -> compile_program dbg args main = Ok t ->
  tj jet_sty (wty_layout W) t SUnit SUnit.
Proof.
  apply compile_program_typed.
  - apply jet_table_layout.
  - intros n t E. unfold wty_layout. rewrite E. reflexivity.
  - apply jet_table_verify.
Qed.

Print Assumptions tj_preservation.
Print Assumptions tj_progress.
Print Assumptions get_typed.
Print Assumptions list_fold_typed.
Print Assumptions for_while_typed.
Print Assumptions compile_typed.
Print Assumptions compile_program_typed.
Print Assumptions compile_program_safe.
Print Assumptions compile_typed_layout.
Print Assumptions compile_typed_table.
Print Assumptions compile_program_typed_table.
