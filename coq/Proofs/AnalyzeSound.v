(* Theorems about the model of ast.rs (Front/Analyze.v):
     analyze_sound     whatever the analysis accepts is well typed (Lang/WT.v)
     tracked_ids       the tracked calls are exactly the tracked-kind call sites, each function body once
     analyze_no_panic  the analysis cannot panic on parse trees the parser can produce
     rejection lemmas  one per static rule *)
From Coq Require Import List Arith NArith Lia Bool.
Import ListNotations.
Require Import SV.Base.Util SV.Base.Res SV.Layout.Ty SV.Layout.Value SV.Lang.Ast SV.Lang.WT
               SV.Text.U256 SV.Text.Literal SV.Front.PTree SV.Front.Analyze
               SV.Proofs.LayoutRoundtrip SV.Proofs.EvalBasics SV.Proofs.CompileCorrect
               SV.Proofs.U256Correct SV.Proofs.LiteralCorrect.

(* ---------- inversion of the result monad ---------- *)
Ltac rb H :=
  match type of H with
  | rbind ?X _ = Ok _ =>
      let a := fresh "a" in let E := fresh "E" in
      destruct X as [a| |] eqn:E; cbn [rbind] in H; [|discriminate H|discriminate H]
  | rmap _ ?X = Ok _ =>
      let a := fresh "a" in let E := fresh "E" in
      destruct X as [a| |] eqn:E; cbn [rmap] in H; [|discriminate H|discriminate H]
  end.
Ltac okinv H := injection H as H; repeat match type of H with _ /\ _ => idtac end.

Lemma rbind_np {A B} (r:res A) (k:A -> res B) :
  r <> Panic -> (forall a, r = Ok a -> k a <> Panic) -> rbind r k <> Panic.
Proof. destruct r; cbn; intros H1 H2; [apply H2; reflexivity|discriminate|congruence]. Qed.
Lemma rmap_np {A B} (f:A -> B) (r:res A) : r <> Panic -> rmap f r <> Panic.
Proof. destruct r; cbn; congruence. Qed.
Lemma of_opt_np {A} (o:option A) : of_opt o <> Panic.
Proof. destruct o; cbn; discriminate. Qed.

(* ---------- equality tests ---------- *)
Lemma ty_eqb_refl t : ty_eqb t t = true.
Proof.
  induction t using ty_ind'; cbn; rewrite ?IHt, ?IHt1, ?IHt2, ?Nat.eqb_refl; auto.
  induction H as [|x l Hx Hl IH]; [reflexivity|]. rewrite Hx. exact IH.
Qed.
Lemma tys_eqb_refl l : tys_eqb l l = true.
Proof. induction l; cbn; [reflexivity|]. now rewrite ty_eqb_refl. Qed.
Lemma ty_eqb_false a b : ty_eqb a b = false -> a <> b.
Proof. intros H ->. rewrite ty_eqb_refl in H. discriminate. Qed.
Lemma negb_if_ok {A} (b:bool) (x:res A) r : (if negb b then Err else x) = Ok r -> b = true /\ x = Ok r.
Proof. destruct b; cbn; [auto|discriminate]. Qed.

(* ---------- association lists ---------- *)
Definition ctx_eq (a b:ctx) : Prop := forall x, lookupN a x = lookupN b x.
Lemma ctx_eq_refl a : ctx_eq a a. Proof. intros x; reflexivity. Qed.
Lemma ctx_eq_sym a b : ctx_eq a b -> ctx_eq b a. Proof. intros H x; symmetry; apply H. Qed.
Lemma ctx_eq_trans a b c : ctx_eq a b -> ctx_eq b c -> ctx_eq a c.
Proof. intros H1 H2 x. rewrite H1. apply H2. Qed.
Lemma ctx_eq_app c a b : ctx_eq a b -> ctx_eq (c ++ a) (c ++ b).
Proof. intros H x. rewrite !lookupN_app. destruct (lookupN c x); auto. Qed.
Lemma ctx_eq_cons p a b : ctx_eq a b -> ctx_eq (p :: a) (p :: b).
Proof. intros H. apply (ctx_eq_app [p]). exact H. Qed.

Lemma lookupN_In {A} (l:list (N*A)) x v : lookupN l x = Some v -> In (x,v) l.
Proof.
  induction l as [|[y w] l IH]; cbn; [discriminate|].
  destruct (N.eqb x y) eqn:E.
  - intros H. injection H as ->. apply N.eqb_eq in E. subst. now left.
  - intros H. right. auto.
Qed.
Lemma lookupN_None_notin {A} (l:list (N*A)) x : lookupN l x = None -> ~ In x (map fst l).
Proof.
  induction l as [|[y w] l IH]; cbn; [tauto|].
  destruct (N.eqb x y) eqn:E; [discriminate|]. intros H [H1|H1].
  - subst. rewrite N.eqb_refl in E. discriminate.
  - now apply IH.
Qed.
Lemma notin_lookupN_None {A} (l:list (N*A)) x : ~ In x (map fst l) -> lookupN l x = None.
Proof.
  induction l as [|[y w] l IH]; cbn; [reflexivity|]. intros H.
  destruct (N.eqb x y) eqn:E.
  - apply N.eqb_eq in E. subst. tauto.
  - apply IH. tauto.
Qed.
Lemma nodup_keys_NoDup c : nodup_keys c = true <-> NoDup (map fst c).
Proof.
  induction c as [|[x t] c IH]; cbn.
  - split; [constructor|reflexivity].
  - destruct (lookupN c x) eqn:E.
    + split; [discriminate|]. intros H. inversion H as [|? ? Hn _]; subst.
      exfalso. apply Hn. apply lookupN_In in E. apply (in_map fst) in E. exact E.
    + rewrite IH. split.
      * intros H. constructor; [now apply lookupN_None_notin|exact H].
      * intros H. now inversion H.
Qed.

(* ---------- literals: what is accepted is a well-formed value of the expected type ---------- *)
Local Open Scope N_scope.
Lemma parse_unchecked_digits : forall s acc n, parse_uint_unchecked s acc = Ok n -> all_digits s.
Proof.
  induction s as [|c r IH]; intros acc n H; [constructor|]. cbn [parse_uint_unchecked] in H.
  unfold to_digit10 in H. destruct (is_dec_digit c) eqn:Ed; [|discriminate].
  constructor; [|eapply IH; exact H]. unfold is_dec_digit in Ed. lia.
Qed.
Lemma parse_checked_digits : forall max s acc n, parse_uint_checked max s acc = Ok n -> all_digits s.
Proof.
  intros max. induction s as [|c r IH]; intros acc n H; [constructor|]. cbn [parse_uint_checked] in H.
  unfold to_digit10 in H. destruct (is_dec_digit c) eqn:Ed; [|discriminate].
  destruct (max <? acc * 10); [discriminate|]. destruct (max <? acc * 10 + (c - 48)); [discriminate|].
  constructor; [|eapply IH; exact H]. unfold is_dec_digit in Ed. lia.
Qed.
Lemma rust_parse_uint_range bits s n : std_bits bits -> rust_parse_uint bits s = Ok n -> n < 2 ^ bits.
Proof.
  intros Hb H.
  assert (Hd : exists d, all_digits d /\ rust_parse_uint bits d = Ok n).
  { unfold rust_parse_uint in H. destruct s as [|c rest]; [discriminate|].
    destruct (match rest with [] => (c =? 43) || (c =? 45) | _ :: _ => false end) eqn:Es; [discriminate|].
    set (digits := if c =? 43 then rest else c :: rest) in *.
    assert (Hdig : all_digits digits).
    { destruct (N.of_nat (length digits) <=? bits / 8 * 2);
        [eapply parse_unchecked_digits|eapply parse_checked_digits]; exact H. }
    destruct (c =? 43) eqn:Ec.
    - subst digits. exists rest. split; [exact Hdig|].
      apply N.eqb_eq in Ec. subst c.
      destruct rest as [|c2 r2]; [cbn in Es; discriminate|].
      rewrite <- (rust_parse_uint_plus bits (c2 :: r2) Hdig ltac:(discriminate)).
      unfold rust_parse_uint. cbn [N.eqb Pos.eqb]. exact H.
    - subst digits. exists (c :: rest). split; [exact Hdig|].
      unfold rust_parse_uint. rewrite Ec, Es. exact H. }
  destruct Hd as (d & Hd & E). apply (rust_parse_uint_ok_iff bits d n Hb Hd) in E. tauto.
Qed.
Lemma digit_dec (c:N) : {48 <= c <= 57} + {~ (48 <= c <= 57)}.
Proof. destruct (48 <=? c) eqn:E1; destruct (c <=? 57) eqn:E2; [left|right|right|right]; lia. Qed.
Lemma parse_decimal_range k s n : parse_decimal k s = Ok n -> n < 2 ^ 2 ^ N.of_nat k.
Proof.
  intros H.
  assert (S8 : std_bits 8) by (unfold std_bits; tauto).
  destruct k as [|[|[|[|[|[|[|[|[|k]]]]]]]]]; cbn [parse_decimal] in H; try discriminate.
  1-3: rb H; apply (rust_parse_uint_range 8 s a S8) in E;
       match type of H with (if ?c then _ else _) = _ => destruct c eqn:Ec end; [|discriminate];
       injection H as <-; cbn; lia.
  1-5: eapply N.lt_le_trans; [eapply rust_parse_uint_range; [|exact H]; unfold std_bits; tauto|];
       vm_compute; discriminate.
  rb H. injection H as <-.
  destruct (Forall_Exists_dec (fun c => 48 <= c <= 57) digit_dec s) as [Hd|Hx].
  - apply (u256_from_str_ok_iff s a Hd) in E. destruct E as (Hl & Hok & _).
    pose proof (bytes_value_lt a Hok) as L. rewrite Hl in L.
    replace (2 ^ 2 ^ N.of_nat 8) with (256 ^ N.of_nat 32) by (vm_compute; reflexivity). exact L.
  - rewrite (u256_from_str_invalid s) in E; [discriminate|].
    apply Exists_exists in Hx. apply Exists_exists. destruct Hx as (c & Hc & Hn). exists c. split; [exact Hc|lia].
Qed.
Lemma parse_hex_uint_range' k s n : parse_hex_uint k s = Ok n -> n < 2 ^ 2 ^ N.of_nat k.
Proof.
  intros H.
  destruct (Nat.lt_ge_cases k 3) as [Hk|Hk]; [|destruct (Nat.le_gt_cases k 8) as [Hk8|Hk8]].
  - exfalso. exact (parse_hex_uint_narrow k s n Hk H).
  - destruct (parse_hex_uint_wide_cases k s ltac:(lia)) as [(_ & Hh & _)|[(_ & _ & E)|(_ & E)]];
      [|rewrite E in H; discriminate..].
    now apply (parse_hex_uint_range k s n Hh).
  - rewrite (parse_hex_uint_not_a_type k s Hk8) in H. discriminate.
Qed.
Local Close Scope N_scope.

Lemma value_wf_uint k n : (n < 2 ^ 2 ^ N.of_nat k)%N -> value_wf (Value.AUInt k n) = true.
Proof.
  intros H. cbn [value_wf]. apply N.ltb_lt.
  replace (N.of_nat (2 ^ k)) with (2 ^ N.of_nat k)%N; [exact H|].
  rewrite Nat2N.inj_pow. reflexivity.
Qed.

Lemma analyze_lit_sound l t e : analyze_lit l t = Ok e ->
  exists v, e = EConst t v /\ value_wf v = true /\ type_of v = t.
Proof.
  destruct l as [s|s|s]; cbn [analyze_lit]; intros H.
  - destruct t; try discriminate. rb H. injection H as <-. eexists; split; [reflexivity|]. split; [|reflexivity].
    apply value_wf_uint. now apply (parse_decimal_range k s).
  - destruct t; try discriminate. rb H. injection H as <-. eexists; split; [reflexivity|]. split; [|reflexivity].
    apply value_wf_uint. now apply (parse_binary_range k s).
  - destruct t as [| | |k| |t0 n|]; try discriminate.
    + rb H. injection H as <-. eexists; split; [reflexivity|]. split; [|reflexivity].
      apply value_wf_uint. now apply (parse_hex_uint_range' k s).
    + destruct t0 as [| | |[|[|[|[|k]]]]| | |]; try discriminate.
      rb H. injection H as <-. eexists; split; [reflexivity|].
      apply parse_hex_bytes_length in E. destruct E as [Hl Hok]. split.
      * cbn [value_wf]. apply forallb_forall. intros x Hx. apply in_map_iff in Hx. destruct Hx as (b & <- & Hb).
        rewrite andb_true_iff. split; [|reflexivity].
        apply value_wf_uint. unfold bytes_ok in Hok. rewrite Forall_forall in Hok. apply Hok in Hb.
        change (2 ^ 2 ^ N.of_nat 3)%N with 256%N. exact Hb.
      * cbn [type_of]. rewrite map_length, Hl. reflexivity.
Qed.

(* ---------- wt only depends on the lookup function of the context ---------- *)
Section WtExt.
Variable jsig : N -> option (list ty * ty).
Variable W : N -> option ty.
Variable args : N -> option value.
Notation wt := (wt jsig W args).

(* the statement loop of wt (EBlock ..) as a function of its own *)
Definition wt_blk (t:ty) (last:option expr) :=
  fix blk (ss:list (option pat * expr)) (G:ctx) {struct ss} : bool :=
    match ss with
    | [] => match last with Some e' => wt G e' && ty_eqb (ty_of e') t | None => is_unit t end
    | (Some p, e') :: ss' => wt G e' && match pat_ctx p (ty_of e') with Some c => blk ss' (c ++ G) | None => false end
    | (None, e') :: ss' => wt G e' && is_unit (ty_of e') && blk ss' G
    end.
Lemma wt_block G t ss last : wt G (EBlock t ss last) = wt_blk t last ss G.
Proof. reflexivity. Qed.

Lemma forallb_ext_in {A} (f g:A -> bool) l : Forall (fun a => f a = g a) l -> forallb f l = forallb g l.
Proof. induction 1 as [|a l Ha _ IH]; cbn; [reflexivity|]. now rewrite Ha, IH. Qed.

Lemma arm_ctx_eq x a G G' : ctx_eq G G' -> ctx_eq (arm_ctx x a G) (arm_ctx x a G').
Proof. destruct x; cbn; [apply ctx_eq_cons|auto]. Qed.

Lemma wt_ext e : forall G G', ctx_eq G G' -> wt G e = wt G' e.
Proof.
  induction e using expr_ind'; intros G G' HG.
  - rewrite !wt_block. revert G G' HG.
    induction H as [|[[p|] e'] ss He _ IHss]; intros G G' HG; cbn [wt_blk].
    + destruct last as [l|]; [|reflexivity]. cbn in H0. now rewrite (H0 G G' HG).
    + cbn [snd] in He. rewrite (He G G' HG). destruct (pat_ctx p (ty_of e')) as [c|]; [|reflexivity].
      f_equal. apply IHss. now apply ctx_eq_app.
    + cbn [snd] in He. rewrite (He G G' HG). f_equal. now apply IHss.
  - reflexivity.
  - reflexivity.
  - reflexivity.
  - cbn [WT.wt]. now rewrite (HG x).
  - cbn [WT.wt]. auto.
  - cbn [WT.wt]. f_equal. apply forallb_ext_in. eapply Forall_impl; [|exact H]. cbn. auto.
  - cbn [WT.wt]. destruct t; try reflexivity. f_equal. apply forallb_ext_in.
    eapply Forall_impl; [|exact H]. cbn. intros a0 Ha. now rewrite (Ha G G' HG).
  - cbn [WT.wt]. destruct t; try reflexivity. f_equal. apply forallb_ext_in.
    eapply Forall_impl; [|exact H]. cbn. intros a0 Ha. now rewrite (Ha G G' HG).
  - cbn [WT.wt]. destruct t; try reflexivity. now rewrite (IHe G G' HG).
  - cbn [WT.wt]. destruct t; try reflexivity. now rewrite (IHe G G' HG).
  - reflexivity.
  - cbn [WT.wt]. destruct t; try reflexivity. now rewrite (IHe G G' HG).
  - cbn [WT.wt]. f_equal. apply forallb_ext_in. eapply Forall_impl; [|exact H]. cbn. auto.
  - cbn [WT.wt]. f_equal. f_equal. apply forallb_ext_in. eapply Forall_impl; [|exact H]. cbn. auto.
  - cbn [WT.wt]. rewrite (IHe1 G G' HG). f_equal. f_equal. f_equal.
    destruct (ty_of e1); try reflexivity.
    + rewrite (IHe2 _ _ (arm_ctx_eq xl _ _ _ HG)), (IHe3 _ _ (arm_ctx_eq xr _ _ _ HG)). reflexivity.
    + destruct xl; [reflexivity|]. rewrite (IHe2 _ _ HG), (IHe3 _ _ (arm_ctx_eq xr _ _ _ HG)). reflexivity.
    + destruct xl, xr; try reflexivity. rewrite (IHe2 _ _ HG), (IHe3 _ _ HG). reflexivity.
Qed.
End WtExt.

(* ====================================================================================== *)
(** * Soundness: the accepted program is well typed *)
Lemma forallb_Forall {A} (f:A -> bool) l : Forall (fun a => f a = true) l -> forallb f l = true.
Proof. induction 1 as [|a l Ha _ IH]; cbn; [reflexivity|]. now rewrite Ha, IH. Qed.
Lemma map_repeat_inv {A B} (f:A -> B) l b k : map f l = repeat b k -> length l = k /\ Forall (fun a => f a = b) l.
Proof.
  revert k. induction l as [|a l IH]; intros [|k] H; cbn in H; try discriminate; [split; [reflexivity|constructor]|].
  injection H as Ha H. apply IH in H as [Hl Hf]. split; [cbn; congruence|constructor; assumption].
Qed.

(* the variable stacks before and after the analysis of an expression: same depth, and at every
   depth the same lookup function for the stack from there downwards.  (ast.rs 949 re-inserts a
   variable into the innermost map when it is used, so the maps themselves may differ.) *)
Inductive vs_eq : list ctx -> list ctx -> Prop :=
| vs_eq_nil : vs_eq [] []
| vs_eq_cons m m' r r' : vs_eq r r' -> ctx_eq (m ++ concat r) (m' ++ concat r') -> vs_eq (m::r) (m'::r').
Lemma vs_eq_refl a : vs_eq a a.
Proof. induction a; constructor; [assumption|apply ctx_eq_refl]. Qed.
Lemma vs_eq_trans a b c : vs_eq a b -> vs_eq b c -> vs_eq a c.
Proof.
  intros H. revert c. induction H as [|m m' r r' Hr IH Hm]; intros c Hc; [exact Hc|].
  inversion Hc as [|? m2 ? r2 Hr2 Hm2]; subst. constructor; [now apply IH|]. eapply ctx_eq_trans; eassumption.
Qed.
Lemma vs_eq_concat a b : vs_eq a b -> ctx_eq (concat a) (concat b).
Proof. destruct 1; [apply ctx_eq_refl|assumption]. Qed.
Lemma vs_eq_cons_inv m r b : vs_eq (m::r) b ->
  exists m' r', b = m'::r' /\ vs_eq r r' /\ ctx_eq (m ++ concat r) (m' ++ concat r').
Proof. intros H. inversion H; subst. eauto. Qed.
Lemma vs_eq_length a b : vs_eq a b -> length a = length b.
Proof. induction 1; cbn; congruence. Qed.
(* the stack below the innermost scope is unchanged (up to vs_eq): what a block leaves behind *)
Definition tl_le (a b:list ctx) : Prop := match a, b with _::r, _::r' => vs_eq r r' | _, _ => False end.
Lemma vs_eq_tl_le a b : vs_eq a b -> a <> [] -> tl_le a b.
Proof. destruct 1; [congruence|]. intros _. assumption. Qed.
Lemma tl_le_trans a b c : tl_le a b -> tl_le b c -> tl_le a c.
Proof. destruct a, b, c; cbn; try tauto. apply vs_eq_trans. Qed.

Lemma get_variable_concat vs x : get_variable vs x = lookupN (concat vs) x.
Proof. induction vs as [|m r IH]; cbn; [reflexivity|]. rewrite lookupN_app, IH. reflexivity. Qed.
Lemma insert_vars_ok c m r : insert_vars c (m::r) = Ok ((c ++ m)::r).
Proof. destruct c; reflexivity. Qed.

(* the witness and parameter maps only grow, and an entry is never changed *)
Definition maps_le (s s':st) : Prop :=
  (forall n t, lookupN (wits s) n = Some t -> lookupN (wits s') n = Some t) /\
  (forall n t, lookupN (params s) n = Some t -> lookupN (params s') n = Some t).
Definition le_st (s s':st) : Prop := maps_le s s' /\ vs_eq (vars s) (vars s').
Lemma maps_le_refl s : maps_le s s. Proof. split; auto. Qed.
Lemma maps_le_trans a b c : maps_le a b -> maps_le b c -> maps_le a c.
Proof. intros [H1 H2] [H3 H4]. split; auto. Qed.
Lemma le_st_refl s : le_st s s. Proof. split; [apply maps_le_refl|apply vs_eq_refl]. Qed.
Lemma le_st_trans a b c : le_st a b -> le_st b c -> le_st a c.
Proof. intros [H1 H2] [H3 H4]. split; [eapply maps_le_trans|eapply vs_eq_trans]; eassumption. Qed.
Lemma maps_le_same a a' b b' : wits a = wits a' -> params a = params a' -> wits b = wits b' -> params b = params b' ->
  maps_le a b -> maps_le a' b'.
Proof. unfold maps_le. intros -> -> -> ->. auto. Qed.

Lemma track_opt_vars sp o s : vars (track_opt sp o s) = vars s. Proof. destruct o; reflexivity. Qed.
Lemma track_opt_wits sp o s : wits (track_opt sp o s) = wits s. Proof. destruct o; reflexivity. Qed.
Lemma track_opt_params sp o s : params (track_opt sp o s) = params s. Proof. destruct o; reflexivity. Qed.

Section Sound.
Variable jlook : N -> option N.
Variable jsig : N -> option (list ty * ty).
Variable balias : N -> option ty.
Variable main_name : N.
Variable W : N -> option ty.
Variable args : N -> option value.
Notation wt := (WT.wt jsig W args).
Notation wtb := (wt_blk jsig W args).

(* the final witness / parameter maps are respected by W / args *)
Definition good (s:st) : Prop :=
  (forall n t, lookupN (wits s) n = Some t -> W n = Some t) /\
  (forall n t, lookupN (params s) n = Some t -> exists v, args n = Some v /\ value_wf v = true /\ type_of v = t).
Lemma good_le s s' : maps_le s s' -> good s' -> good s.
Proof. intros [H1 H2] [H3 H4]. split; auto. Qed.
Lemma good_same s s' : wits s = wits s' -> params s = params s' -> good s -> good s'.
Proof. unfold good. intros -> ->. auto. Qed.

(* every function of the table has a body that is well typed in the context of its parameters *)
Definition fn_ok (fn:list (N*fdef)) : Prop := forall f ps body, lookupN fn f = Some (ps, body) -> wt ps body = true.

Section ExprS.
Variable al : list (N*ty).
Variable fn : list (N*fdef).
Variable is_main : bool.
Notation AE := (analyze_expr jlook jsig balias al fn is_main).
Notation resolve := (resolve balias al).

Definition sound_fn (F : ty -> st -> res (expr*st)) : Prop :=
  forall t s e' s', F t s = Ok (e', s') ->
    le_st s s' /\ ty_of e' = t /\ (fn_ok fn -> good s' -> wt (concat (vars s)) e' = true).

Section Lists.
Variable F : pexpr -> ty -> st -> res (expr*st).

Lemma map2_sound l : Forall (fun e => sound_fn (F e)) l ->
  forall ts s bs s', map2_st F l ts s = Ok (bs, s') -> length l = length ts ->
    le_st s s' /\ map ty_of bs = ts /\
    (fn_ok fn -> good s' -> Forall (fun b => wt (concat (vars s)) b = true) bs).
Proof.
  induction 1 as [|e l He _ IH]; intros ts s bs s' H Hlen.
  - destruct ts; [|discriminate]. cbn in H. injection H as <- <-.
    split; [apply le_st_refl|]. split; [reflexivity|]. constructor.
  - destruct ts as [|t ts]; [discriminate|]. cbn [map2_st] in H.
    rb H. destruct a as [b s1]. rb H. destruct a as [bs1 s2]. injection H as <- <-.
    apply He in E as (Hle1 & Hty1 & Hwt1).
    apply IH in E0 as (Hle2 & Hty2 & Hwt2); [|cbn in Hlen; lia].
    split; [eapply le_st_trans; eassumption|]. split; [cbn; congruence|].
    intros Hf Hg. constructor.
    + apply Hwt1; [exact Hf|]. eapply good_le; [apply Hle2|exact Hg].
    + specialize (Hwt2 Hf Hg). eapply Forall_impl; [|exact Hwt2]. cbn. intros b0 Hb.
      rewrite (wt_ext jsig W args b0 _ (concat (vars s1))); [exact Hb|]. apply vs_eq_concat, Hle1.
Qed.

Lemma stmts_sound stmts : Forall (fun sm => sound_fn (F (snd sm))) stmts ->
  forall s ss' s2, map_st (stmt_step balias al F) stmts s = Ok (ss', s2) -> vars s <> [] ->
    maps_le s s2 /\ tl_le (vars s) (vars s2) /\
    (fn_ok fn -> good s2 -> forall t last' G, ctx_eq G (concat (vars s)) ->
       (forall G2, ctx_eq G2 (concat (vars s2)) -> wtb t last' [] G2 = true) ->
       wtb t last' ss' G = true).
Proof.
  induction 1 as [|sm stmts Hsm _ IH]; intros s ss' s2 H Hne.
  - cbn in H. injection H as <- <-. split; [apply maps_le_refl|]. split.
    + destruct (vars s); [congruence|apply vs_eq_refl].
    + intros _ _ t last' G HG Hfin. apply Hfin, HG.
  - cbn [map_st] in H. rb H. destruct a as [b s1']. rb H. destruct a as [bs sF]. injection H as <- <-.
    destruct sm as [[[p a]|] e]; cbn [snd] in Hsm; cbn [stmt_step] in E.
    + rb E. rename a0 into te. rb E. destruct a0 as [e' s1]. rb E. rename a0 into c. rb E. rename a0 into vs.
      injection E as <- <-.
      apply Hsm in E2 as (Hle1 & Hty1 & Hwt1).
      unfold is_of_type in E3. destruct (pat_ctx p te) as [c0|] eqn:Epc; [|discriminate].
      destruct (nodup_keys c0); [|discriminate]. injection E3 as ->.
      destruct Hle1 as [Hm1 Hv1].
      destruct (vars s) as [|m r] eqn:Evs; [congruence|].
      apply vs_eq_cons_inv in Hv1 as (m1 & r1 & Eb & Hr1 & Hc1).
      rewrite Eb, insert_vars_ok in E4. injection E4 as <-.
      apply IH in E0 as (Hm2 & Htl2 & Hwt2); [|cbn; discriminate]. cbn [vars set_vars] in Htl2.
      split; [eapply maps_le_trans; [exact Hm1|]; eapply maps_le_same; [..|exact Hm2]; reflexivity|].
      split.
      * destruct (vars sF) as [|m2 r2]; [contradiction|]. cbn in Htl2 |- *. eapply vs_eq_trans; eassumption.
      * intros Hf Hg t last' G HG Hfin. cbn [wt_blk].
        rewrite (wt_ext jsig W args e' G _ HG), Hwt1; [|exact Hf|].
        2:{ eapply good_le; [|exact Hg]. eapply maps_le_same; [..|exact Hm2]; reflexivity. }
        rewrite Hty1, Epc. cbn [andb]. apply Hwt2; [exact Hf|exact Hg| |exact Hfin].
        cbn [vars set_vars concat]. rewrite <- app_assoc. apply ctx_eq_app.
        eapply ctx_eq_trans; [exact HG|]. exact Hc1.
    + rb E. destruct a as [e' s1]. injection E as <- <-.
      apply Hsm in E1 as (Hle1 & Hty1 & Hwt1). destruct Hle1 as [Hm1 Hv1].
      assert (Hne1 : vars s1 <> []).
      { intros E1. apply vs_eq_length in Hv1. rewrite E1 in Hv1. destruct (vars s); [congruence|discriminate]. }
      apply IH in E0 as (Hm2 & Htl2 & Hwt2); [|exact Hne1].
      split; [eapply maps_le_trans; eassumption|]. split.
      * eapply tl_le_trans; [apply vs_eq_tl_le; eassumption|exact Htl2].
      * intros Hf Hg t last' G HG Hfin. cbn [wt_blk].
        rewrite (wt_ext jsig W args e' G _ HG), Hwt1; [|exact Hf|eapply good_le; eassumption].
        rewrite Hty1. cbn [is_unit andb]. apply Hwt2; [exact Hf|exact Hg| |exact Hfin].
        eapply ctx_eq_trans; [exact HG|]. apply vs_eq_concat, Hv1.
Qed.

Lemma arm_sound mp e : sound_fn (F e) ->
  forall t s e' s', arm_step balias al F mp e t s = Ok (e', s') ->
    le_st s s' /\ ty_of e' = t /\
    (fn_ok fn -> good s' -> forall G, ctx_eq G (concat (vars s)) ->
       match typed_var mp with
       | Some (x, a) => exists tx, resolve a = Ok tx /\ wt ((x,tx)::G) e' = true
       | None => wt G e' = true
       end).
Proof.
  intros He t s e' s' H. unfold arm_step in H.
  rb H. rename a into s2. rb H. destruct a as [e1 s3]. rb H. rename a into vs. injection H as <- <-.
  apply He in E0 as (Hle & Hty & Hwt). destruct Hle as [Hm Hv].
  destruct (typed_var mp) as [[x a]|].
  - rb E. rename a0 into tx. rb E. cbn in E2. injection E2 as <-. injection E as <-.
    cbn [vars set_vars] in *.
    apply vs_eq_cons_inv in Hv as (m3 & r3 & Eb & Hr3 & Hc3). rewrite Eb in E1. cbn in E1. injection E1 as <-.
    split; [split; [exact Hm|exact Hr3]|]. split; [exact Hty|].
    intros Hf Hg G HG. exists tx. split; [reflexivity|].
    rewrite (wt_ext jsig W args e1 _ ((x,tx) :: concat (vars s))); [|apply ctx_eq_cons, HG].
    apply Hwt; [exact Hf|]. eapply good_same; [..|exact Hg]; reflexivity.
  - injection E as <-. cbn [vars set_vars push_scope] in *.
    apply vs_eq_cons_inv in Hv as (m3 & r3 & Eb & Hr3 & Hc3). rewrite Eb in E1. cbn in E1. injection E1 as <-.
    split; [split; [exact Hm|exact Hr3]|]. split; [exact Hty|].
    intros Hf Hg G HG.
    rewrite (wt_ext jsig W args e1 _ (concat (vars s))); [|exact HG].
    apply Hwt; [exact Hf|]. eapply good_same; [..|exact Hg]; reflexivity.
Qed.
End Lists.

(* Call::analyze up to the arguments: the plan fixes the argument types, and the node it builds is well
   typed as soon as the arguments are *)
Ltac one_arg as' Hm :=
  destruct as' as [|?x [|? ?]]; try discriminate Hm; cbn [map] in Hm; injection Hm as Hm.
Lemma call_plan_sound name cn t n tys pre post build :
  analyze_callname jlook balias al fn name = Ok cn -> call_plan jsig cn t n = Ok (tys, pre, post, build) ->
  length tys = n /\
  forall G as', map ty_of as' = tys ->
    ty_of (build as') = t /\ (fn_ok fn -> Forall (fun a => wt G a = true) as' -> wt G (build as') = true).
Proof.
  intros Hcn Hp. destruct name; cbn [analyze_callname] in Hcn.
  - (* jet *)
    destruct (jlook n0) as [j|]; [|discriminate]. injection Hcn as <-. cbn [call_plan] in Hp.
    destruct (jsig j) as [[ps r]|] eqn:Ej; [|discriminate].
    apply negb_if_ok in Hp as [Hn Hp]. apply negb_if_ok in Hp as [Hr Hp]. injection Hp as <- <- <- <-.
    apply Nat.eqb_eq in Hn. apply ty_eqb_eq in Hr. subst r. split; [auto|].
    intros G as' Hm. split; [reflexivity|]. intros _ Hall. cbn [WT.wt wt_builtin].
    rewrite (forallb_Forall (fun e0 => wt G e0) _ Hall), Ej, Hm, tys_eqb_refl, ty_eqb_refl. reflexivity.
  - (* unwrap_left *)
    rb Hcn. injection Hcn as <-. cbn [call_plan] in Hp. apply negb_if_ok in Hp as [Hn Hp]. injection Hp as <- <- <- <-.
    apply Nat.eqb_eq in Hn. split; [auto|]. intros G as' Hm. split; [reflexivity|]. intros _ Hall.
    one_arg as' Hm. cbn [WT.wt wt_builtin map]. rewrite (forallb_Forall (fun e0 => wt G e0) _ Hall), Hm, ty_eqb_refl. reflexivity.
  - (* unwrap_right *)
    rb Hcn. injection Hcn as <-. cbn [call_plan] in Hp. apply negb_if_ok in Hp as [Hn Hp]. injection Hp as <- <- <- <-.
    apply Nat.eqb_eq in Hn. split; [auto|]. intros G as' Hm. split; [reflexivity|]. intros _ Hall.
    one_arg as' Hm. cbn [WT.wt wt_builtin map]. rewrite (forallb_Forall (fun e0 => wt G e0) _ Hall), Hm, ty_eqb_refl. reflexivity.
  - (* is_none *)
    rb Hcn. injection Hcn as <-. cbn [call_plan] in Hp. apply negb_if_ok in Hp as [Hn Hp].
    apply negb_if_ok in Hp as [Hr Hp]. injection Hp as <- <- <- <-.
    apply Nat.eqb_eq in Hn. apply ty_eqb_eq in Hr. subst t. split; [auto|]. intros G as' Hm. split; [reflexivity|]. intros _ Hall.
    one_arg as' Hm. cbn [WT.wt wt_builtin map]. rewrite (forallb_Forall (fun e0 => wt G e0) _ Hall), Hm. reflexivity.
  - (* unwrap *)
    injection Hcn as <-. cbn [call_plan] in Hp. apply negb_if_ok in Hp as [Hn Hp]. injection Hp as <- <- <- <-.
    apply Nat.eqb_eq in Hn. split; [auto|]. intros G as' Hm. split; [reflexivity|]. intros _ Hall.
    one_arg as' Hm. cbn [WT.wt wt_builtin map]. rewrite (forallb_Forall (fun e0 => wt G e0) _ Hall), Hm, ty_eqb_refl. reflexivity.
  - (* assert *)
    injection Hcn as <-. cbn [call_plan] in Hp. apply negb_if_ok in Hp as [Hn Hp].
    apply negb_if_ok in Hp as [Hr Hp]. injection Hp as <- <- <- <-.
    apply Nat.eqb_eq in Hn. apply ty_eqb_eq in Hr. subst t. split; [auto|]. intros G as' Hm. split; [reflexivity|]. intros _ Hall.
    one_arg as' Hm. cbn [WT.wt wt_builtin map]. rewrite (forallb_Forall (fun e0 => wt G e0) _ Hall), Hm. reflexivity.
  - (* panic *)
    injection Hcn as <-. cbn [call_plan] in Hp. apply negb_if_ok in Hp as [Hn Hp]. injection Hp as <- <- <- <-.
    apply Nat.eqb_eq in Hn. split; [auto|]. intros G as' Hm. split; [reflexivity|]. intros _ Hall.
    destruct as'; [|discriminate]. reflexivity.
  - (* dbg *)
    injection Hcn as <-. cbn [call_plan] in Hp. apply negb_if_ok in Hp as [Hn Hp]. injection Hp as <- <- <- <-.
    apply Nat.eqb_eq in Hn. split; [auto|]. intros G as' Hm. split; [reflexivity|]. intros _ Hall.
    one_arg as' Hm. cbn [WT.wt wt_builtin map]. rewrite (forallb_Forall (fun e0 => wt G e0) _ Hall), Hm, ty_eqb_refl. reflexivity.
  - (* cast *)
    rb Hcn. injection Hcn as <-. cbn [call_plan] in Hp. apply negb_if_ok in Hp as [Hc Hp].
    apply negb_if_ok in Hp as [Hn Hp]. injection Hp as <- <- <- <-.
    apply Nat.eqb_eq in Hn. split; [auto|]. intros G as' Hm. split; [reflexivity|]. intros _ Hall.
    one_arg as' Hm. cbn [WT.wt wt_builtin map]. rewrite (forallb_Forall (fun e0 => wt G e0) _ Hall), Hm, ty_eqb_refl, Hc. reflexivity.
  - (* custom function *)
    destruct (lookupN fn f) as [[ps body]|] eqn:Ef; [|discriminate]. injection Hcn as <-. cbn [call_plan] in Hp.
    apply negb_if_ok in Hp as [Hn Hp]. apply negb_if_ok in Hp as [Hr Hp]. injection Hp as <- <- <- <-.
    apply Nat.eqb_eq in Hn. split; [rewrite map_length; auto|]. intros G as' Hm. split; [reflexivity|]. intros Hf Hall.
    cbn [WT.wt]. rewrite (forallb_Forall (fun e0 => wt G e0) _ Hall), (Hf _ _ _ Ef), Hm, tys_eqb_refl, Hr. reflexivity.
  - (* fold *)
    destruct k as [|k]; [discriminate|].
    destruct (lookupN fn f) as [[ps body]|] eqn:Ef; [|discriminate].
    destruct ps as [|[x1 e1] [|[x2 a2] [|? ?]]]; try discriminate.
    destruct (ty_eqb a2 (ty_of body)) eqn:Ea; [|discriminate]. injection Hcn as <-. cbn [call_plan] in Hp.
    apply negb_if_ok in Hp as [Hn Hp]. apply negb_if_ok in Hp as [Hr Hp]. injection Hp as <- <- <- <-.
    apply Nat.eqb_eq in Hn. apply ty_eqb_eq in Ea. apply ty_eqb_eq in Hr. split; [auto|].
    intros G as' Hm. split; [reflexivity|]. intros Hf Hall.
    cbn [WT.wt]. rewrite (forallb_Forall (fun e0 => wt G e0) _ Hall), (Hf _ _ _ Ef), Hm, tys_eqb_refl. subst a2 t.
    rewrite ty_eqb_refl. reflexivity.
  - (* for_while *)
    destruct (lookupN fn f) as [[ps body]|] eqn:Ef; [|discriminate].
    destruct ps as [|[x1 a1] [|[x2 c2] [|[x3 c3] [|? ?]]]]; try discriminate.
    destruct (ty_of body) as [b r| | | | | |] eqn:Eb; try discriminate.
    destruct (ty_eqb r a1) eqn:Ea; [|discriminate].
    destruct c3 as [| | |w| | |]; try discriminate. destruct (Nat.leb w 4); [|discriminate].
    injection Hcn as <-. cbn [call_plan] in Hp.
    apply negb_if_ok in Hp as [Hn Hp]. apply negb_if_ok in Hp as [Hr Hp]. injection Hp as <- <- <- <-.
    apply Nat.eqb_eq in Hn. apply ty_eqb_eq in Ea. apply ty_eqb_eq in Hr. split; [auto|].
    intros G as' Hm. split; [reflexivity|]. intros Hf Hall.
    cbn [WT.wt]. rewrite (forallb_Forall (fun e0 => wt G e0) _ Hall), (Hf _ _ _ Ef), Hm. rewrite <- Hr, Eb. subst r.
    rewrite Nat.eqb_refl, !ty_eqb_refl, tys_eqb_refl. reflexivity.
Qed.

Lemma scrutinee_resolve lp rp sa sty : scrutinee_type lp rp = Ok sa -> resolve sa = Ok sty ->
  match typed_var lp, typed_var rp with
  | Some (_, tl), Some (_, tr) => exists a b, sty = TEither a b /\ resolve tl = Ok a /\ resolve tr = Ok b
  | None, Some (_, tr) => exists b, sty = TOption b /\ resolve tr = Ok b
  | None, None => sty = TBool
  | Some _, None => False
  end.
Proof.
  destruct lp, rp; cbn [scrutinee_type typed_var]; intros H1 H2; try discriminate; injection H1 as <-;
    cbn [Analyze.resolve] in H2.
  - rb H2. rb H2. injection H2 as <-. eauto.
  - rb H2. injection H2 as <-. eauto.
  - injection H2 as <-. reflexivity.
Qed.

Theorem analyze_expr_sound e : sound_fn (AE e).
Proof.
  induction e using pexpr_ind'; intros t s e' s' Heq; cbn [analyze_expr] in Heq.
  - (* block *)
    rb Heq. destruct a as [ss' s2]. rb Heq. destruct a as [last' s3]. rb Heq. rename a into vs. injection Heq as <- <-.
    apply (stmts_sound _ _ H) in E as (Hm2 & Htl2 & Hwt2); [|cbn; discriminate].
    cbn [vars set_vars push_scope] in Htl2, Hwt2.
    destruct (vars s2) as [|m2 r2] eqn:Ev2; [contradiction|]. cbn in Htl2.
    assert (Hlast : le_st s2 s3 /\
              (fn_ok fn -> good s3 -> forall G2, ctx_eq G2 (concat (vars s2)) -> wtb t last' [] G2 = true)).
    { destruct last as [l|].
      - rb E0. destruct a as [l' s3']. injection E0 as <- <-. cbn in H0.
        apply H0 in E as (Hle & Hty & Hwt). split; [exact Hle|].
        intros Hf Hg G2 HG2. cbn [wt_blk]. rewrite (wt_ext jsig W args l' G2 _ HG2), (Hwt Hf Hg), Hty, ty_eqb_refl. reflexivity.
      - destruct (is_unit t) eqn:Eu; [|discriminate]. injection E0 as <- <-. split; [apply le_st_refl|].
        intros _ _ G2 _. cbn [wt_blk]. exact Eu. }
    destruct Hlast as ([Hm3 Hv3] & Hwl). rewrite Ev2 in Hv3.
    apply vs_eq_cons_inv in Hv3 as (m3 & r3 & Eb & Hr3 & Hc3). rewrite Eb in E1. cbn in E1. injection E1 as <-.
    split.
    { split; [|cbn [vars set_vars]; eapply vs_eq_trans; eassumption].
      eapply maps_le_same; [..|eapply maps_le_trans; [exact Hm2|exact Hm3]]; reflexivity. }
    split; [reflexivity|]. intros Hf Hg.
    assert (Hg3 : good s3) by (eapply good_same; [..|exact Hg]; reflexivity).
    rewrite wt_block. apply Hwt2.
    + exact Hf.
    + eapply good_le; eassumption.
    + cbn [concat app]. apply ctx_eq_refl.
    + rewrite <- Ev2. apply Hwl; assumption.
  - (* bool *)
    destruct t; try discriminate. injection Heq as <- <-. split; [apply le_st_refl|]. split; reflexivity.
  - (* literal *)
    rb Heq. injection Heq as <- <-. apply analyze_lit_sound in E as (v & -> & Hwf & Hty).
    split; [apply le_st_refl|]. split; [reflexivity|]. intros _ _. cbn [WT.wt]. rewrite Hwf, Hty, ty_eqb_refl. reflexivity.
  - (* witness *)
    rb Heq. injection Heq as <- <-. unfold insert_witness in E. destruct (negb is_main); [discriminate|].
    destruct (lookupN (wits s) n) eqn:El; [discriminate|]. injection E as <-.
    split; [|split; [reflexivity|]].
    + split; [|apply vs_eq_refl]. split; [|auto]. intros n0 t0 H0. cbn [wits set_wits lookupN].
      destruct (N.eqb n0 n) eqn:En; [|exact H0]. apply N.eqb_eq in En. subst. congruence.
    + intros _ [Hg _]. cbn [WT.wt]. rewrite (Hg n t); [apply ty_eqb_refl|].
      cbn [wits set_wits lookupN]. now rewrite N.eqb_refl.
  - (* parameter *)
    rb Heq. injection Heq as <- <-. unfold insert_parameter in E.
    destruct (lookupN (params s) n) as [t'|] eqn:El.
    + destruct (ty_eqb t' t) eqn:Et; [|discriminate]. injection E as <-. apply ty_eqb_eq in Et. subst t'.
      split; [apply le_st_refl|]. split; [reflexivity|]. intros _ [_ Hg]. cbn [WT.wt].
      destruct (Hg n t El) as (v & -> & Hwf & Hty). rewrite Hwf, Hty, ty_eqb_refl. reflexivity.
    + injection E as <-. split; [|split; [reflexivity|]].
      * split; [|apply vs_eq_refl]. split; [auto|]. intros n0 t0 H0. cbn [params set_params lookupN].
        destruct (N.eqb n0 n) eqn:En; [|exact H0]. apply N.eqb_eq in En. subst. congruence.
      * intros _ [_ Hg]. cbn [WT.wt]. destruct (Hg n t) as (v & -> & Hwf & Hty).
        { cbn [params set_params lookupN]. now rewrite N.eqb_refl. }
        rewrite Hwf, Hty, ty_eqb_refl. reflexivity.
  - (* variable *)
    destruct (get_variable (vars s) x) as [bound|] eqn:Eg; [|discriminate].
    destruct (ty_eqb t bound) eqn:Et; cbn [negb] in Heq; [|discriminate]. apply ty_eqb_eq in Et. subst bound.
    rb Heq. injection Heq as <- <-. rewrite get_variable_concat in Eg.
    unfold insert_variable in E. destruct (vars s) as [|m r] eqn:Ev; [discriminate|]. injection E as <-.
    split; [|split; [reflexivity|]].
    + split; [split; auto|]. cbn [vars set_vars]. rewrite Ev. constructor; [apply vs_eq_refl|].
      intros y. cbn [app lookupN]. destruct (N.eqb y x) eqn:Ey; [|reflexivity].
      apply N.eqb_eq in Ey. subst y. cbn [concat] in Eg. now rewrite Eg.
    + intros _ _. cbn [WT.wt]. rewrite Eg. apply ty_eqb_refl.
  - (* parentheses *)
    rb Heq. destruct a as [e1 s1]. injection Heq as <- <-. apply IHe in E as (Hle & Hty & Hwt). auto.
  - (* tuple *)
    destruct t as [| | | |ts| |]; try discriminate. apply negb_if_ok in Heq as [Hlen Heq]. apply Nat.eqb_eq in Hlen.
    rb Heq. destruct a as [es' s1]. injection Heq as <- <-.
    apply (map2_sound _ _ H) in E as (Hle & Hty & Hwt); [|exact Hlen].
    split; [exact Hle|]. split; [reflexivity|]. intros Hf Hg. cbn [WT.wt].
    rewrite Hty, ty_eqb_refl. cbn [andb]. apply forallb_Forall. auto.
  - (* array *)
    destruct t as [| | | | |a n|]; try discriminate. apply negb_if_ok in Heq as [Hlen Heq]. apply Nat.eqb_eq in Hlen.
    rb Heq. destruct a0 as [es' s1]. injection Heq as <- <-.
    apply (map2_sound _ _ H) in E as (Hle & Hty & Hwt); [|now rewrite repeat_length].
    apply map_repeat_inv in Hty as [Hl Hall].
    split; [exact Hle|]. split; [reflexivity|]. intros Hf Hg. cbn [WT.wt].
    rewrite Hl, Hlen, Nat.eqb_refl. cbn [andb]. apply forallb_Forall. specialize (Hwt Hf Hg).
    rewrite Forall_forall in *. intros x Hx. rewrite (Hwt x Hx), (Hall x Hx), ty_eqb_refl. reflexivity.
  - (* list *)
    destruct t as [| | | | | |a k]; try discriminate. destruct k as [|k]; [discriminate|].
    destruct (Nat.leb (2 ^ S k) (length es)) eqn:Eb; [discriminate|]. apply Nat.leb_gt in Eb.
    rb Heq. destruct a0 as [es' s1]. injection Heq as <- <-.
    apply (map2_sound _ _ H) in E as (Hle & Hty & Hwt); [|now rewrite repeat_length].
    apply map_repeat_inv in Hty as [Hl Hall].
    split; [exact Hle|]. split; [reflexivity|]. intros Hf Hg. cbn [WT.wt].
    rewrite Hl. replace (Nat.ltb (length es) (2 ^ S k)) with true by (symmetry; now apply Nat.ltb_lt).
    cbn [Nat.leb andb]. apply forallb_Forall. specialize (Hwt Hf Hg).
    rewrite Forall_forall in *. intros x Hx. rewrite (Hwt x Hx), (Hall x Hx), ty_eqb_refl. reflexivity.
  - (* left *)
    destruct t; try discriminate. rb Heq. destruct a as [e1 s1]. injection Heq as <- <-.
    apply IHe in E as (Hle & Hty & Hwt). split; [exact Hle|]. split; [reflexivity|].
    intros Hf Hg. cbn [WT.wt]. rewrite (Hwt Hf Hg), Hty, ty_eqb_refl. reflexivity.
  - (* right *)
    destruct t; try discriminate. rb Heq. destruct a as [e1 s1]. injection Heq as <- <-.
    apply IHe in E as (Hle & Hty & Hwt). split; [exact Hle|]. split; [reflexivity|].
    intros Hf Hg. cbn [WT.wt]. rewrite (Hwt Hf Hg), Hty, ty_eqb_refl. reflexivity.
  - (* none *)
    destruct t; try discriminate. injection Heq as <- <-. split; [apply le_st_refl|]. split; reflexivity.
  - (* some *)
    destruct t; try discriminate. rb Heq. destruct a as [e1 s1]. injection Heq as <- <-.
    apply IHe in E as (Hle & Hty & Hwt). split; [exact Hle|]. split; [reflexivity|].
    intros Hf Hg. cbn [WT.wt]. rewrite (Hwt Hf Hg), Hty, ty_eqb_refl. reflexivity.
  - (* call *)
    rb Heq. rename a into cn. rb Heq. destruct a as [[[tys pre] post] build]. cbn zeta in Heq.
    rb Heq. destruct a as [args' s2]. injection Heq as <- <-.
    destruct (call_plan_sound _ _ _ _ _ _ _ _ E E0) as (Hlen & Hbuild).
    apply (map2_sound _ _ H) in E1 as (Hle & Hty & Hwt); [|now symmetry].
    destruct (Hbuild (concat (vars s)) args' Hty) as (Hty' & Hwt').
    destruct Hle as [Hm Hv]. rewrite track_opt_vars in Hv, Hwt.
    split; [|split; [exact Hty'|]].
    + split; [|rewrite track_opt_vars; exact Hv].
      eapply maps_le_same; [..|exact Hm]; rewrite ?track_opt_wits, ?track_opt_params; reflexivity.
    + intros Hf Hg. apply Hwt'; [exact Hf|]. apply Hwt; [exact Hf|].
      eapply good_same; [..|exact Hg]; rewrite ?track_opt_wits, ?track_opt_params; reflexivity.
  - (* match *)
    rb Heq. rename a into sa. rb Heq. rename a into sty. rb Heq. destruct a as [sc' s1].
    rb Heq. destruct a as [el' s2]. rb Heq. destruct a as [er' s3]. injection Heq as <- <-.
    apply IHe1 in E1 as (Hle1 & Hty1 & Hwt1).
    apply (arm_sound _ _ _ IHe2) in E2 as (Hle2 & Hty2 & Hwt2).
    apply (arm_sound _ _ _ IHe3) in E3 as (Hle3 & Hty3 & Hwt3).
    split; [eapply le_st_trans; [exact Hle1|eapply le_st_trans; eassumption]|]. split; [reflexivity|].
    intros Hf Hg.
    assert (Hg2 : good s2) by (eapply good_le; [apply Hle3|exact Hg]).
    assert (Hg1 : good s1) by (eapply good_le; [apply Hle2|exact Hg2]).
    assert (HG1 : ctx_eq (concat (vars s)) (concat (vars s1))) by apply vs_eq_concat, Hle1.
    assert (HG2 : ctx_eq (concat (vars s)) (concat (vars s2))).
    { eapply ctx_eq_trans; [exact HG1|]. apply vs_eq_concat, Hle2. }
    specialize (Hwt2 Hf Hg2 _ HG1). specialize (Hwt3 Hf Hg _ HG2).
    pose proof (scrutinee_resolve _ _ _ _ E E0) as Hs.
    cbn [WT.wt]. rewrite (Hwt1 Hf Hg1), Hty1, Hty2, Hty3, !ty_eqb_refl, !andb_true_r. cbn [andb].
    unfold arm_var. destruct (typed_var lp) as [[xl tl]|]; destruct (typed_var rp) as [[xr tr]|]; cbn [option_map fst].
    + destruct Hs as (a & b & -> & Ha & Hb). destruct Hwt2 as (tx & Hx & Hw2). destruct Hwt3 as (ty & Hy & Hw3).
      rewrite Ha in Hx. rewrite Hb in Hy. injection Hx as <-. injection Hy as <-. cbn [arm_ctx]. now rewrite Hw2, Hw3.
    + contradiction.
    + destruct Hs as (b & -> & Hb). destruct Hwt3 as (ty & Hy & Hw3).
      rewrite Hb in Hy. injection Hy as <-. cbn [arm_ctx]. now rewrite Hwt2, Hw3.
    + rewrite Hs. now rewrite Hwt2, Hwt3.
Qed.
End ExprS.

(* ---------- items and the program ---------- *)
Definition g_good (g:genv) : Prop := good (mkSt [] (g_params g) (g_wits g) (g_tlog g)).
Definition g_le (g g':genv) : Prop :=
  maps_le (mkSt [] (g_params g) (g_wits g) (g_tlog g)) (mkSt [] (g_params g') (g_wits g') (g_tlog g')).
Definition main_ok (r:option expr) : Prop :=
  match r with Some m => wt [] m = true /\ ty_of m = TUnit | None => True end.

Lemma function_sound name ps ret body g r g' :
  analyze_function jlook jsig balias main_name name ps ret body g = Ok (r, g') ->
  g_le g g' /\ (g_good g' -> fn_ok (g_fn g) -> fn_ok (g_fn g') /\ main_ok r).
Proof.
  unfold analyze_function. intros H. destruct (negb (N.eqb name main_name)).
  - rb H. rename a into ps'. destruct (negb (nodup_keys ps')); [discriminate|].
    rb H. rename a into rt. cbn zeta in H. rb H. destruct a as [body' s1]. rb H.
    destruct (lookupN (g_fn g) name) eqn:El; [discriminate|]. injection H as <- <-.
    apply analyze_expr_sound in E1 as (Hle & Hty & Hwt). split.
    + eapply maps_le_same; [..|apply Hle]; reflexivity.
    + intros Hg Hf. split; [|exact I]. intros f ps0 body0 Hl. cbn [g_fn lookupN] in Hl.
      destruct (N.eqb f name); [|exact (Hf _ _ _ Hl)]. injection Hl as <- <-.
      specialize (Hwt Hf). cbn [vars concat] in Hwt. rewrite app_nil_r in Hwt. apply Hwt.
      eapply good_same; [..|exact Hg]; reflexivity.
  - destruct ps; [|discriminate]. rb H. cbn zeta in H. rb H. destruct a0 as [body' s1]. rb H.
    injection H as <- <-. apply analyze_expr_sound in E0 as (Hle & Hty & Hwt). split.
    + eapply maps_le_same; [..|apply Hle]; reflexivity.
    + intros Hg Hf. split; [exact Hf|]. cbn [main_ok]. split; [|exact Hty].
      specialize (Hwt Hf). cbn [vars concat app] in Hwt. apply Hwt.
      eapply good_same; [..|exact Hg]; reflexivity.
Qed.

Lemma item_sound it g r g' :
  analyze_item jlook jsig balias main_name it g = Ok (r, g') ->
  g_le g g' /\ (g_good g' -> fn_ok (g_fn g) -> fn_ok (g_fn g') /\ main_ok r).
Proof.
  destruct it; cbn [analyze_item]; intros H.
  - rb H. injection H as <- <-. split; [apply maps_le_refl|]. intros _ Hf. split; [exact Hf|exact I].
  - now apply function_sound in H.
  - injection H as <- <-. split; [apply maps_le_refl|]. intros _ Hf. split; [exact Hf|exact I].
Qed.

Lemma items_sound p : forall g items g',
  map_st (analyze_item jlook jsig balias main_name) p g = Ok (items, g') ->
  g_le g g' /\
  (g_good g' -> fn_ok (g_fn g) -> Forall (fun m => wt [] m = true /\ ty_of m = TUnit) (mains items)).
Proof.
  induction p as [|it p IH]; intros g items g' H; cbn [map_st] in H.
  - injection H as <- <-. split; [apply maps_le_refl|]. intros _ _. constructor.
  - rb H. destruct a as [r g1]. rb H. destruct a as [items1 g2]. injection H as <- <-.
    apply item_sound in E as (Hle1 & Hs1). apply IH in E0 as (Hle2 & Hs2).
    split; [eapply maps_le_trans; eassumption|]. intros Hg Hf.
    destruct Hs1 as [Hf1 Hr]; [eapply good_le; eassumption|exact Hf|].
    specialize (Hs2 Hg Hf1). destruct r as [m|]; cbn [mains]; [constructor; assumption|assumption].
Qed.
End Sound.

(* the arguments supply a well-formed value of the recorded type for every parameter of the program *)
Definition args_consistent (args : N -> option value) (ps : list (N*ty)) : Prop :=
  forall n t, In (n,t) ps -> exists v, args n = Some v /\ value_wf v = true /\ type_of v = t.

(* MAIN THEOREM.  No hypothesis on jlook / jsig / balias is needed: the typing judgement is taken
   relative to the same jet signature table that the analysis used. *)
Theorem analyze_sound jlook jsig balias main_name p main ps ws tr W args :
  analyze_program jlook jsig balias main_name p = Ok (main, ps, ws, tr) ->
  (forall n t, lookupN ws n = Some t -> W n = Some t) ->
  args_consistent args ps ->
  wt_program jsig W args main = true.
Proof.
  unfold analyze_program. intros H HW Ha. rb H. destruct a as [items g].
  apply (items_sound jlook jsig balias main_name W args) in E as (_ & Hs).
  destruct (mains items) as [|m [|? ?]] eqn:Em; try discriminate. injection H as <- <- <- <-.
  assert (Hg : g_good W args g).
  { split; cbn [wits params]; [exact HW|]. intros n t Hl. apply Ha. now apply lookupN_In. }
  assert (Hf0 : fn_ok jsig W args (g_fn genv0)) by (intros f ps0 body0 Hl; discriminate).
  specialize (Hs Hg Hf0). inversion Hs as [|? ? [Hw Ht] _]; subst.
  unfold wt_program. rewrite Hw, Ht. reflexivity.
Qed.
Print Assumptions analyze_sound.

Corollary analyze_sound_lookup jlook jsig balias main_name p main ps ws tr args :
  analyze_program jlook jsig balias main_name p = Ok (main, ps, ws, tr) ->
  args_consistent args ps ->
  wt_program jsig (lookupN ws) args main = true.
Proof. intros H Ha. eapply analyze_sound; eauto. Qed.
