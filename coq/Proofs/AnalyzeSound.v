(* Theorems about the model of ast.rs (Front/Analyze.v):
     analyze_sound     whatever the analysis accepts is well typed (Lang/WT.v)
     tracked_ids       the tracked calls are exactly the tracked-kind call sites, each function body once
     analyze_no_panic  the analysis cannot panic on parse trees the parser can produce
     rejection lemmas  one per static rule *)
From Coq Require Import List Arith NArith Lia Bool.
Import ListNotations.
Require Import SV.Base.Util SV.Base.Res SV.Layout.Ty SV.Layout.Value SV.Lang.Ast SV.Lang.WT
               SV.Text.U256 SV.Text.Literal SV.Front.PTree SV.Front.Analyze
               SV.Proofs.LayoutRoundtrip SV.Proofs.EvalBasics SV.Proofs.CompileCorrect
               SV.Proofs.U256Correct SV.Proofs.LiteralCorrect.

(* ---------- inversion of the result monad ---------- *)
Ltac rb H :=
  match type of H with
  | rbind ?X _ = Ok _ =>
      let a := fresh "a" in let E := fresh "E" in
      destruct X as [a| |] eqn:E; cbn [rbind] in H; [|discriminate H|discriminate H]
  | rmap _ ?X = Ok _ =>
      let a := fresh "a" in let E := fresh "E" in
      destruct X as [a| |] eqn:E; cbn [rmap] in H; [|discriminate H|discriminate H]
  end.
Ltac rbn H En :=
  match type of H with
  | rbind ?X _ = Ok _ =>
      let a := fresh "a" in
      destruct X as [a| |] eqn:En; cbn [rbind] in H; [|discriminate H|discriminate H]
  end.

Lemma rbind_np {A B} (r:res A) (k:A -> res B) :
  r <> Panic -> (forall a, r = Ok a -> k a <> Panic) -> rbind r k <> Panic.
Proof. destruct r; cbn; intros H1 H2; [apply H2; reflexivity|discriminate|congruence]. Qed.
Lemma rmap_np {A B} (f:A -> B) (r:res A) : r <> Panic -> rmap f r <> Panic.
Proof. destruct r; cbn; congruence. Qed.
Lemma of_opt_np {A} (o:option A) : of_opt o <> Panic.
Proof. destruct o; cbn; discriminate. Qed.

(* ---------- equality tests ---------- *)
Lemma ty_eqb_refl t : ty_eqb t t = true.
Proof.
  induction t using ty_ind'; cbn; rewrite ?IHt, ?IHt1, ?IHt2, ?Nat.eqb_refl; auto.
  induction H as [|x l Hx Hl IH]; [reflexivity|]. rewrite Hx. exact IH.
Qed.
Lemma tys_eqb_refl l : tys_eqb l l = true.
Proof. induction l; cbn; [reflexivity|]. now rewrite ty_eqb_refl. Qed.
Lemma ty_eqb_false a b : ty_eqb a b = false -> a <> b.
Proof. intros H ->. rewrite ty_eqb_refl in H. discriminate. Qed.
Lemma negb_if_ok {A} (b:bool) (x:res A) r : (if negb b then Err else x) = Ok r -> b = true /\ x = Ok r.
Proof. destruct b; cbn; [auto|discriminate]. Qed.

Lemma lt_pow2_spec k : forall n, lt_pow2 k n = true <-> n < 2 ^ k.
Proof.
  induction k as [|k IH]; intros n; cbn [lt_pow2].
  - rewrite Nat.eqb_eq. cbn. lia.
  - destruct n as [|m]; [split; [intros _; apply Nat.neq_0_lt_0, Nat.pow_nonzero; discriminate|reflexivity]|].
    rewrite IH. pose proof (Nat.div2_odd (S m)) as Ho. rewrite Nat.pow_succ_r'.
    destruct (Nat.odd (S m)); cbn [Nat.b2n] in Ho; lia.
Qed.

(* ---------- association lists ---------- *)
Definition ctx_eq (a b:ctx) : Prop := forall x, lookupN a x = lookupN b x.
Lemma ctx_eq_refl a : ctx_eq a a. Proof. intros x; reflexivity. Qed.
Lemma ctx_eq_sym a b : ctx_eq a b -> ctx_eq b a. Proof. intros H x; symmetry; apply H. Qed.
Lemma ctx_eq_trans a b c : ctx_eq a b -> ctx_eq b c -> ctx_eq a c.
Proof. intros H1 H2 x. rewrite H1. apply H2. Qed.
Lemma ctx_eq_app c a b : ctx_eq a b -> ctx_eq (c ++ a) (c ++ b).
Proof. intros H x. rewrite !lookupN_app. destruct (lookupN c x); auto. Qed.
Lemma ctx_eq_cons p a b : ctx_eq a b -> ctx_eq (p :: a) (p :: b).
Proof. intros H. apply (ctx_eq_app [p]). exact H. Qed.

Lemma lookupN_In {A} (l:list (N*A)) x v : lookupN l x = Some v -> In (x,v) l.
Proof.
  induction l as [|[y w] l IH]; cbn; [discriminate|].
  destruct (N.eqb x y) eqn:E.
  - intros H. injection H as ->. apply N.eqb_eq in E. subst. now left.
  - intros H. right. auto.
Qed.
Lemma lookupN_None_notin {A} (l:list (N*A)) x : lookupN l x = None -> ~ In x (map fst l).
Proof.
  induction l as [|[y w] l IH]; cbn; [tauto|].
  destruct (N.eqb x y) eqn:E; [discriminate|]. intros H [H1|H1].
  - subst. rewrite N.eqb_refl in E. discriminate.
  - now apply IH.
Qed.
Lemma notin_lookupN_None {A} (l:list (N*A)) x : ~ In x (map fst l) -> lookupN l x = None.
Proof.
  induction l as [|[y w] l IH]; cbn; [reflexivity|]. intros H.
  destruct (N.eqb x y) eqn:E.
  - apply N.eqb_eq in E. subst. tauto.
  - apply IH. tauto.
Qed.
Lemma nodup_keys_NoDup c : nodup_keys c = true <-> NoDup (map fst c).
Proof.
  induction c as [|[x t] c IH]; cbn.
  - split; [constructor|reflexivity].
  - destruct (lookupN c x) eqn:E.
    + split; [discriminate|]. intros H. inversion H as [|? ? Hn _]; subst.
      exfalso. apply Hn. apply lookupN_In in E. apply (in_map fst) in E. exact E.
    + rewrite IH. split.
      * intros H. constructor; [now apply lookupN_None_notin|exact H].
      * intros H. now inversion H.
Qed.

(* ---------- literals: what is accepted is a well-formed value of the expected type ---------- *)
Local Open Scope N_scope.
Lemma parse_unchecked_digits : forall s acc n, parse_uint_unchecked s acc = Ok n -> all_digits s.
Proof.
  induction s as [|c r IH]; intros acc n H; [constructor|]. cbn [parse_uint_unchecked] in H.
  unfold to_digit10 in H. destruct (is_dec_digit c) eqn:Ed; [|discriminate].
  constructor; [|eapply IH; exact H]. unfold is_dec_digit in Ed. lia.
Qed.
Lemma parse_checked_digits : forall max s acc n, parse_uint_checked max s acc = Ok n -> all_digits s.
Proof.
  intros max. induction s as [|c r IH]; intros acc n H; [constructor|]. cbn [parse_uint_checked] in H.
  unfold to_digit10 in H. destruct (is_dec_digit c) eqn:Ed; [|discriminate].
  destruct (max <? acc * 10); [discriminate|]. destruct (max <? acc * 10 + (c - 48)); [discriminate|].
  constructor; [|eapply IH; exact H]. unfold is_dec_digit in Ed. lia.
Qed.
Lemma rust_parse_uint_range bits s n : std_bits bits -> rust_parse_uint bits s = Ok n -> n < 2 ^ bits.
Proof.
  intros Hb H.
  assert (Hd : exists d, all_digits d /\ rust_parse_uint bits d = Ok n).
  { unfold rust_parse_uint in H. destruct s as [|c rest]; [discriminate|].
    destruct (match rest with [] => (c =? 43) || (c =? 45) | _ :: _ => false end) eqn:Es; [discriminate|].
    set (digits := if c =? 43 then rest else c :: rest) in *.
    assert (Hdig : all_digits digits).
    { destruct (N.of_nat (length digits) <=? bits / 8 * 2);
        [eapply parse_unchecked_digits|eapply parse_checked_digits]; exact H. }
    destruct (c =? 43) eqn:Ec.
    - subst digits. exists rest. split; [exact Hdig|].
      apply N.eqb_eq in Ec. subst c.
      destruct rest as [|c2 r2]; [cbn in Es; discriminate|].
      rewrite <- (rust_parse_uint_plus bits (c2 :: r2) Hdig ltac:(discriminate)).
      unfold rust_parse_uint. cbn [N.eqb Pos.eqb]. exact H.
    - subst digits. exists (c :: rest). split; [exact Hdig|].
      unfold rust_parse_uint. rewrite Ec, Es. exact H. }
  destruct Hd as (d & Hd & E). apply (rust_parse_uint_ok_iff bits d n Hb Hd) in E. tauto.
Qed.
Lemma digit_dec (c:N) : {48 <= c <= 57} + {~ (48 <= c <= 57)}.
Proof. destruct (48 <=? c) eqn:E1; destruct (c <=? 57) eqn:E2; [left|right|right|right]; lia. Qed.
Lemma parse_decimal_range k s n : parse_decimal k s = Ok n -> n < 2 ^ 2 ^ N.of_nat k.
Proof.
  intros H.
  assert (S8 : std_bits 8) by (unfold std_bits; tauto).
  destruct k as [|[|[|[|[|[|[|[|[|k]]]]]]]]]; cbn [parse_decimal] in H; try discriminate.
  1-3: rb H; apply (rust_parse_uint_range 8 s a S8) in E;
       match type of H with (if ?c then _ else _) = _ => destruct c eqn:Ec end; [|discriminate];
       injection H as <-; cbn; lia.
  1-5: eapply N.lt_le_trans; [eapply rust_parse_uint_range; [|exact H]; unfold std_bits; tauto|];
       vm_compute; discriminate.
  rb H. injection H as <-.
  destruct (Forall_Exists_dec (fun c => 48 <= c <= 57) digit_dec s) as [Hd|Hx].
  - apply (u256_from_str_ok_iff s a Hd) in E. destruct E as (Hl & Hok & _).
    pose proof (bytes_value_lt a Hok) as L. rewrite Hl in L.
    replace (2 ^ 2 ^ N.of_nat 8) with (256 ^ N.of_nat 32) by (vm_compute; reflexivity). exact L.
  - rewrite (u256_from_str_invalid s) in E; [discriminate|].
    apply Exists_exists in Hx. apply Exists_exists. destruct Hx as (c & Hc & Hn). exists c. split; [exact Hc|lia].
Qed.
Lemma parse_hex_uint_range' k s n : parse_hex_uint k s = Ok n -> n < 2 ^ 2 ^ N.of_nat k.
Proof.
  intros H.
  destruct (Nat.lt_ge_cases k 3) as [Hk|Hk]; [|destruct (Nat.le_gt_cases k 8) as [Hk8|Hk8]].
  - exfalso. exact (parse_hex_uint_narrow k s n Hk H).
  - destruct (parse_hex_uint_wide_cases k s ltac:(lia)) as [(_ & Hh & _)|[(_ & _ & E)|(_ & E)]];
      [|rewrite E in H; discriminate..].
    now apply (parse_hex_uint_range k s n Hh).
  - rewrite (parse_hex_uint_not_a_type k s Hk8) in H. discriminate.
Qed.
Local Close Scope N_scope.

Lemma value_wf_uint k n : (n < 2 ^ 2 ^ N.of_nat k)%N -> value_wf (Value.AUInt k n) = true.
Proof.
  intros H. cbn [value_wf]. apply N.ltb_lt.
  replace (N.of_nat (2 ^ k)) with (2 ^ N.of_nat k)%N; [exact H|].
  rewrite Nat2N.inj_pow. reflexivity.
Qed.

Lemma analyze_lit_sound l t e : analyze_lit l t = Ok e ->
  exists v, e = EConst t v /\ value_wf v = true /\ type_of v = t.
Proof.
  destruct l as [s|s|s]; cbn [analyze_lit]; intros H.
  - destruct t; try discriminate. rb H. injection H as <-. eexists; split; [reflexivity|]. split; [|reflexivity].
    apply value_wf_uint. now apply (parse_decimal_range k s).
  - destruct t; try discriminate. rb H. injection H as <-. eexists; split; [reflexivity|]. split; [|reflexivity].
    apply value_wf_uint. now apply (parse_binary_range k s).
  - destruct t as [| | |k| |t0 n|]; try discriminate.
    + rb H. injection H as <-. eexists; split; [reflexivity|]. split; [|reflexivity].
      apply value_wf_uint. now apply (parse_hex_uint_range' k s).
    + destruct t0 as [| | |[|[|[|[|k]]]]| | |]; try discriminate.
      rb H. injection H as <-. eexists; split; [reflexivity|].
      apply parse_hex_bytes_length in E. destruct E as [Hl Hok]. split.
      * cbn [value_wf]. apply forallb_forall. intros x Hx. apply in_map_iff in Hx. destruct Hx as (b & <- & Hb).
        rewrite andb_true_iff. split; [|reflexivity].
        apply value_wf_uint. unfold bytes_ok in Hok. rewrite Forall_forall in Hok. apply Hok in Hb.
        change (2 ^ 2 ^ N.of_nat 3)%N with 256%N. exact Hb.
      * cbn [type_of]. rewrite map_length, Hl. reflexivity.
Qed.

(* ---------- wt only depends on the lookup function of the context ---------- *)
Section WtExt.
Variable jsig : N -> option (list ty * ty).
Variable W : N -> option ty.
Variable args : N -> option value.
Notation wt := (wt jsig W args).

(* the statement loop of wt (EBlock ..) as a function of its own *)
Definition wt_blk (t:ty) (last:option expr) :=
  fix blk (ss:list (option pat * expr)) (G:ctx) {struct ss} : bool :=
    match ss with
    | [] => match last with Some e' => wt G e' && ty_eqb (ty_of e') t | None => is_unit t end
    | (Some p, e') :: ss' => wt G e' && match pat_ctx p (ty_of e') with Some c => blk ss' (c ++ G) | None => false end
    | (None, e') :: ss' => wt G e' && is_unit (ty_of e') && blk ss' G
    end.
Lemma wt_block G t ss last : wt G (EBlock t ss last) = wt_blk t last ss G.
Proof. reflexivity. Qed.

Lemma forallb_ext_in {A} (f g:A -> bool) l : Forall (fun a => f a = g a) l -> forallb f l = forallb g l.
Proof. induction 1 as [|a l Ha _ IH]; cbn; [reflexivity|]. now rewrite Ha, IH. Qed.

Lemma arm_ctx_eq x a G G' : ctx_eq G G' -> ctx_eq (arm_ctx x a G) (arm_ctx x a G').
Proof. destruct x; cbn; [apply ctx_eq_cons|auto]. Qed.

Lemma wt_ext e : forall G G', ctx_eq G G' -> wt G e = wt G' e.
Proof.
  induction e using expr_ind'; intros G G' HG.
  - rewrite !wt_block. revert G G' HG.
    induction H as [|[[p|] e'] ss He _ IHss]; intros G G' HG; cbn [wt_blk].
    + destruct last as [l|]; [|reflexivity]. cbn in H0. now rewrite (H0 G G' HG).
    + cbn [snd] in He. rewrite (He G G' HG). destruct (pat_ctx p (ty_of e')) as [c|]; [|reflexivity].
      f_equal. apply IHss. now apply ctx_eq_app.
    + cbn [snd] in He. rewrite (He G G' HG). f_equal. now apply IHss.
  - reflexivity.
  - reflexivity.
  - reflexivity.
  - cbn [WT.wt]. now rewrite (HG x).
  - cbn [WT.wt]. auto.
  - cbn [WT.wt]. f_equal. apply forallb_ext_in. eapply Forall_impl; [|exact H]. cbn. auto.
  - cbn [WT.wt]. destruct t; try reflexivity. f_equal. apply forallb_ext_in.
    eapply Forall_impl; [|exact H]. cbn. intros a0 Ha. now rewrite (Ha G G' HG).
  - cbn [WT.wt]. destruct t; try reflexivity. f_equal. apply forallb_ext_in.
    eapply Forall_impl; [|exact H]. cbn. intros a0 Ha. now rewrite (Ha G G' HG).
  - cbn [WT.wt]. destruct t; try reflexivity. now rewrite (IHe G G' HG).
  - cbn [WT.wt]. destruct t; try reflexivity. now rewrite (IHe G G' HG).
  - reflexivity.
  - cbn [WT.wt]. destruct t; try reflexivity. now rewrite (IHe G G' HG).
  - cbn [WT.wt]. f_equal. apply forallb_ext_in. eapply Forall_impl; [|exact H]. cbn. auto.
  - cbn [WT.wt]. f_equal. f_equal. apply forallb_ext_in. eapply Forall_impl; [|exact H]. cbn. auto.
  - cbn [WT.wt]. rewrite (IHe1 G G' HG). f_equal. f_equal. f_equal.
    destruct (ty_of e1); try reflexivity.
    + rewrite (IHe2 _ _ (arm_ctx_eq xl _ _ _ HG)), (IHe3 _ _ (arm_ctx_eq xr _ _ _ HG)). reflexivity.
    + destruct xl; [reflexivity|]. rewrite (IHe2 _ _ HG), (IHe3 _ _ (arm_ctx_eq xr _ _ _ HG)). reflexivity.
    + destruct xl, xr; try reflexivity. rewrite (IHe2 _ _ HG), (IHe3 _ _ HG). reflexivity.
Qed.
End WtExt.

(* ====================================================================================== *)
(** * Soundness: the accepted program is well typed *)
Lemma forallb_Forall {A} (f:A -> bool) l : Forall (fun a => f a = true) l -> forallb f l = true.
Proof. induction 1 as [|a l Ha _ IH]; cbn; [reflexivity|]. now rewrite Ha, IH. Qed.
Lemma map_repeat_inv {A B} (f:A -> B) l b k : map f l = repeat b k -> length l = k /\ Forall (fun a => f a = b) l.
Proof.
  revert k. induction l as [|a l IH]; intros [|k] H; cbn in H; try discriminate; [split; [reflexivity|constructor]|].
  injection H as Ha H. apply IH in H as [Hl Hf]. split; [cbn; congruence|constructor; assumption].
Qed.

(* the variable stacks before and after the analysis of an expression: same depth, and at every
   depth the same lookup function for the stack from there downwards.  (ast.rs 949 re-inserts a
   variable into the innermost map when it is used, so the maps themselves may differ.) *)
Inductive vs_eq : list ctx -> list ctx -> Prop :=
| vs_eq_nil : vs_eq [] []
| vs_eq_cons m m' r r' : vs_eq r r' -> ctx_eq (m ++ concat r) (m' ++ concat r') -> vs_eq (m::r) (m'::r').
Lemma vs_eq_refl a : vs_eq a a.
Proof. induction a; constructor; [assumption|apply ctx_eq_refl]. Qed.
Lemma vs_eq_trans a b c : vs_eq a b -> vs_eq b c -> vs_eq a c.
Proof.
  intros H. revert c. induction H as [|m m' r r' Hr IH Hm]; intros c Hc; [exact Hc|].
  inversion Hc as [|? m2 ? r2 Hr2 Hm2]; subst. constructor; [now apply IH|]. eapply ctx_eq_trans; eassumption.
Qed.
Lemma vs_eq_concat a b : vs_eq a b -> ctx_eq (concat a) (concat b).
Proof. destruct 1; [apply ctx_eq_refl|assumption]. Qed.
Lemma vs_eq_cons_inv m r b : vs_eq (m::r) b ->
  exists m' r', b = m'::r' /\ vs_eq r r' /\ ctx_eq (m ++ concat r) (m' ++ concat r').
Proof. intros H. inversion H; subst. eauto. Qed.
Lemma vs_eq_length a b : vs_eq a b -> length a = length b.
Proof. induction 1; cbn; congruence. Qed.
(* the stack below the innermost scope is unchanged (up to vs_eq): what a block leaves behind *)
Definition tl_le (a b:list ctx) : Prop := match a, b with _::r, _::r' => vs_eq r r' | _, _ => False end.
Lemma vs_eq_tl_le a b : vs_eq a b -> a <> [] -> tl_le a b.
Proof. destruct 1; [congruence|]. intros _. assumption. Qed.
Lemma tl_le_trans a b c : tl_le a b -> tl_le b c -> tl_le a c.
Proof. destruct a, b, c; cbn; try tauto. apply vs_eq_trans. Qed.

Lemma get_variable_concat vs x : get_variable vs x = lookupN (concat vs) x.
Proof. induction vs as [|m r IH]; cbn; [reflexivity|]. rewrite lookupN_app, IH. reflexivity. Qed.
Lemma insert_vars_ok c m r : insert_vars c (m::r) = Ok ((c ++ m)::r).
Proof. destruct c; reflexivity. Qed.

(* the witness and parameter maps only grow, an entry is never changed, and no name is entered twice *)
Definition maps_le (s s':st) : Prop :=
  (forall n t, lookupN (wits s) n = Some t -> lookupN (wits s') n = Some t) /\
  (forall n t, lookupN (params s) n = Some t -> lookupN (params s') n = Some t) /\
  (NoDup (map fst (wits s)) -> NoDup (map fst (wits s'))) /\
  (NoDup (map fst (params s)) -> NoDup (map fst (params s'))).
Definition le_st (s s':st) : Prop := maps_le s s' /\ vs_eq (vars s) (vars s').
Lemma maps_le_refl s : maps_le s s. Proof. repeat split; auto. Qed.
Lemma maps_le_trans a b c : maps_le a b -> maps_le b c -> maps_le a c.
Proof. intros (H1 & H2 & H5 & H6) (H3 & H4 & H7 & H8). repeat split; auto. Qed.
Lemma le_st_refl s : le_st s s. Proof. split; [apply maps_le_refl|apply vs_eq_refl]. Qed.
Lemma le_st_trans a b c : le_st a b -> le_st b c -> le_st a c.
Proof. intros [H1 H2] [H3 H4]. split; [eapply maps_le_trans|eapply vs_eq_trans]; eassumption. Qed.
Lemma maps_le_same a a' b b' : wits a = wits a' -> params a = params a' -> wits b = wits b' -> params b = params b' ->
  maps_le a b -> maps_le a' b'.
Proof. unfold maps_le. intros -> -> -> ->. auto. Qed.

Lemma track_opt_vars sp o s : vars (track_opt sp o s) = vars s. Proof. destruct o; reflexivity. Qed.
Lemma track_opt_wits sp o s : wits (track_opt sp o s) = wits s. Proof. destruct o; reflexivity. Qed.
Lemma track_opt_params sp o s : params (track_opt sp o s) = params s. Proof. destruct o; reflexivity. Qed.

Section Sound.
Variable jlook : N -> option N.
Variable jsig : N -> option (list ty * ty).
Variable balias : N -> option ty.
Variable main_name : N.
Variable W : N -> option ty.
Variable args : N -> option value.
Notation wt := (WT.wt jsig W args).
Notation wtb := (wt_blk jsig W args).

(* the final witness / parameter maps are respected by W / args *)
Definition good (s:st) : Prop :=
  (forall n t, lookupN (wits s) n = Some t -> W n = Some t) /\
  (forall n t, lookupN (params s) n = Some t -> exists v, args n = Some v /\ value_wf v = true /\ type_of v = t).
Lemma good_le s s' : maps_le s s' -> good s' -> good s.
Proof. intros (H1 & H2 & _) [H3 H4]. split; auto. Qed.
Lemma good_same s s' : wits s = wits s' -> params s = params s' -> good s -> good s'.
Proof. unfold good. intros -> ->. auto. Qed.

(* every function of the table has a body that is well typed in the context of its parameters *)
Definition fn_ok (fn:list (N*fdef)) : Prop := forall f ps body, lookupN fn f = Some (ps, body) -> wt ps body = true.

Section ExprS.
Variable al : list (N*ty).
Variable fn : list (N*fdef).
Variable is_main : bool.
Notation AE := (analyze_expr jlook jsig balias al fn is_main).
Notation resolve := (resolve balias al).

Definition sound_fn (F : ty -> st -> res (expr*st)) : Prop :=
  forall t s e' s', F t s = Ok (e', s') ->
    le_st s s' /\ ty_of e' = t /\ (fn_ok fn -> good s' -> wt (concat (vars s)) e' = true).

Section Lists.
Variable F : pexpr -> ty -> st -> res (expr*st).

Lemma map2_sound l : Forall (fun e => sound_fn (F e)) l ->
  forall ts s bs s', map2_st F l ts s = Ok (bs, s') -> length l = length ts ->
    le_st s s' /\ map ty_of bs = ts /\
    (fn_ok fn -> good s' -> Forall (fun b => wt (concat (vars s)) b = true) bs).
Proof.
  induction 1 as [|e l He _ IH]; intros ts s bs s' H Hlen.
  - destruct ts; [|discriminate]. cbn in H. injection H as <- <-.
    split; [apply le_st_refl|]. split; [reflexivity|]. constructor.
  - destruct ts as [|t ts]; [discriminate|]. cbn [map2_st] in H.
    rb H. destruct a as [b s1]. rb H. destruct a as [bs1 s2]. injection H as <- <-.
    apply He in E as (Hle1 & Hty1 & Hwt1).
    apply IH in E0 as (Hle2 & Hty2 & Hwt2); [|cbn in Hlen; now injection Hlen].
    split; [eapply le_st_trans; eassumption|]. split; [cbn; congruence|].
    intros Hf Hg. constructor.
    + apply Hwt1; [exact Hf|]. eapply good_le; [apply Hle2|exact Hg].
    + specialize (Hwt2 Hf Hg). eapply Forall_impl; [|exact Hwt2]. cbn. intros b0 Hb.
      rewrite (wt_ext jsig W args b0 _ (concat (vars s1))); [exact Hb|]. apply vs_eq_concat, Hle1.
Qed.

Lemma stmts_sound stmts : Forall (fun sm => sound_fn (F (snd sm))) stmts ->
  forall s ss' s2, map_st (stmt_step balias al F) stmts s = Ok (ss', s2) -> vars s <> [] ->
    maps_le s s2 /\ tl_le (vars s) (vars s2) /\
    (fn_ok fn -> good s2 -> forall t last' G, ctx_eq G (concat (vars s)) ->
       (forall G2, ctx_eq G2 (concat (vars s2)) -> wtb t last' [] G2 = true) ->
       wtb t last' ss' G = true).
Proof.
  induction 1 as [|sm stmts Hsm _ IH]; intros s ss' s2 H Hne.
  - cbn in H. injection H as <- <-. split; [apply maps_le_refl|]. split.
    + destruct (vars s); [congruence|apply vs_eq_refl].
    + intros _ _ t last' G HG Hfin. apply Hfin, HG.
  - cbn [map_st] in H. rb H. destruct a as [b s1']. rb H. destruct a as [bs sF]. injection H as <- <-.
    destruct sm as [[[p a]|] e]; cbn [snd] in Hsm; cbn [stmt_step] in E.
    + rb E. rename a0 into te. rb E. destruct a0 as [e' s1]. rb E. rename a0 into c. rb E. rename a0 into vs.
      injection E as <- <-.
      apply Hsm in E2 as (Hle1 & Hty1 & Hwt1).
      unfold is_of_type in E3. destruct (pat_ctx p te) as [c0|] eqn:Epc; [|discriminate].
      destruct (nodup_keys c0); [|discriminate]. injection E3 as ->.
      destruct Hle1 as [Hm1 Hv1].
      destruct (vars s) as [|m r] eqn:Evs; [congruence|].
      apply vs_eq_cons_inv in Hv1 as (m1 & r1 & Eb & Hr1 & Hc1).
      rewrite Eb, insert_vars_ok in E4. injection E4 as <-.
      apply IH in E0 as (Hm2 & Htl2 & Hwt2); [|cbn; discriminate]. cbn [vars set_vars] in Htl2.
      split; [eapply maps_le_trans; [exact Hm1|]; eapply maps_le_same; [..|exact Hm2]; reflexivity|].
      split.
      * destruct (vars sF) as [|m2 r2]; [contradiction|]. cbn in Htl2 |- *. eapply vs_eq_trans; eassumption.
      * intros Hf Hg t last' G HG Hfin. cbn [wt_blk].
        rewrite (wt_ext jsig W args e' G _ HG), Hwt1; [|exact Hf|].
        2:{ eapply good_le; [|exact Hg]. eapply maps_le_same; [..|exact Hm2]; reflexivity. }
        rewrite Hty1, Epc. cbn [andb]. apply Hwt2; [exact Hf|exact Hg| |exact Hfin].
        cbn [vars set_vars concat]. rewrite <- app_assoc. apply ctx_eq_app.
        eapply ctx_eq_trans; [exact HG|]. exact Hc1.
    + rb E. destruct a as [e' s1]. injection E as <- <-.
      apply Hsm in E1 as (Hle1 & Hty1 & Hwt1). destruct Hle1 as [Hm1 Hv1].
      assert (Hne1 : vars s1 <> []).
      { intros E1. apply vs_eq_length in Hv1. rewrite E1 in Hv1. destruct (vars s); [congruence|discriminate]. }
      apply IH in E0 as (Hm2 & Htl2 & Hwt2); [|exact Hne1].
      split; [eapply maps_le_trans; eassumption|]. split.
      * eapply tl_le_trans; [apply vs_eq_tl_le; eassumption|exact Htl2].
      * intros Hf Hg t last' G HG Hfin. cbn [wt_blk].
        rewrite (wt_ext jsig W args e' G _ HG), Hwt1; [|exact Hf|eapply good_le; eassumption].
        rewrite Hty1. cbn [is_unit andb]. apply Hwt2; [exact Hf|exact Hg| |exact Hfin].
        eapply ctx_eq_trans; [exact HG|]. apply vs_eq_concat, Hv1.
Qed.

Lemma arm_sound mp e : sound_fn (F e) ->
  forall t s e' s', arm_step balias al F mp e t s = Ok (e', s') ->
    le_st s s' /\ ty_of e' = t /\
    (fn_ok fn -> good s' -> forall G, ctx_eq G (concat (vars s)) ->
       match typed_var mp with
       | Some (x, a) => exists tx, resolve a = Ok tx /\ wt ((x,tx)::G) e' = true
       | None => wt G e' = true
       end).
Proof.
  intros He t s e' s' H. unfold arm_step in H.
  rb H. rename a into s2. rb H. destruct a as [e1 s3]. rb H. rename a into vs. injection H as <- <-.
  apply He in E0 as (Hle & Hty & Hwt). destruct Hle as [Hm Hv].
  destruct (typed_var mp) as [[x a]|].
  - rb E. rename a0 into tx. rb E. cbn in E2. injection E2 as <-. injection E as <-.
    cbn [vars set_vars] in *.
    apply vs_eq_cons_inv in Hv as (m3 & r3 & Eb & Hr3 & Hc3). rewrite Eb in E1. cbn in E1. injection E1 as <-.
    split; [split; [exact Hm|exact Hr3]|]. split; [exact Hty|].
    intros Hf Hg G HG. exists tx. split; [reflexivity|].
    rewrite (wt_ext jsig W args e1 _ ((x,tx) :: concat (vars s))); [|apply ctx_eq_cons, HG].
    apply Hwt; [exact Hf|]. eapply good_same; [..|exact Hg]; reflexivity.
  - injection E as <-. cbn [vars set_vars push_scope] in *.
    apply vs_eq_cons_inv in Hv as (m3 & r3 & Eb & Hr3 & Hc3). rewrite Eb in E1. cbn in E1. injection E1 as <-.
    split; [split; [exact Hm|exact Hr3]|]. split; [exact Hty|].
    intros Hf Hg G HG.
    rewrite (wt_ext jsig W args e1 _ (concat (vars s))); [|exact HG].
    apply Hwt; [exact Hf|]. eapply good_same; [..|exact Hg]; reflexivity.
Qed.
End Lists.

(* Call::analyze up to the arguments: the plan fixes the argument types, and the node it builds is well
   typed as soon as the arguments are *)
Ltac one_arg as' Hm :=
  destruct as' as [|?x [|? ?]]; try discriminate Hm; cbn [map] in Hm; injection Hm as Hm.
Lemma call_plan_sound name cn t n tys pre post build :
  analyze_callname jlook balias al fn name = Ok cn -> call_plan jsig cn t n = Ok (tys, pre, post, build) ->
  length tys = n /\
  forall G as', map ty_of as' = tys ->
    ty_of (build as') = t /\ (fn_ok fn -> Forall (fun a => wt G a = true) as' -> wt G (build as') = true).
Proof.
  intros Hcn Hp. destruct name; cbn [analyze_callname] in Hcn.
  - (* jet *)
    destruct (jlook n0) as [j|]; [|discriminate]. injection Hcn as <-. cbn [call_plan] in Hp.
    destruct (jsig j) as [[ps r]|] eqn:Ej; [|discriminate].
    apply negb_if_ok in Hp as [Hn Hp]. apply negb_if_ok in Hp as [Hr Hp]. injection Hp as <- <- <- <-.
    apply Nat.eqb_eq in Hn. apply ty_eqb_eq in Hr. subst r. split; [auto|].
    intros G as' Hm. split; [reflexivity|]. intros _ Hall. cbn [WT.wt wt_builtin].
    rewrite (forallb_Forall (fun e0 => wt G e0) _ Hall), Ej, Hm, tys_eqb_refl, ty_eqb_refl. reflexivity.
  - (* unwrap_left *)
    rb Hcn. injection Hcn as <-. cbn [call_plan] in Hp. apply negb_if_ok in Hp as [Hn Hp]. injection Hp as <- <- <- <-.
    apply Nat.eqb_eq in Hn. split; [auto|]. intros G as' Hm. split; [reflexivity|]. intros _ Hall.
    one_arg as' Hm. cbn [WT.wt wt_builtin map]. rewrite (forallb_Forall (fun e0 => wt G e0) _ Hall), Hm, ty_eqb_refl. reflexivity.
  - (* unwrap_right *)
    rb Hcn. injection Hcn as <-. cbn [call_plan] in Hp. apply negb_if_ok in Hp as [Hn Hp]. injection Hp as <- <- <- <-.
    apply Nat.eqb_eq in Hn. split; [auto|]. intros G as' Hm. split; [reflexivity|]. intros _ Hall.
    one_arg as' Hm. cbn [WT.wt wt_builtin map]. rewrite (forallb_Forall (fun e0 => wt G e0) _ Hall), Hm, ty_eqb_refl. reflexivity.
  - (* is_none *)
    rb Hcn. injection Hcn as <-. cbn [call_plan] in Hp. apply negb_if_ok in Hp as [Hn Hp].
    apply negb_if_ok in Hp as [Hr Hp]. injection Hp as <- <- <- <-.
    apply Nat.eqb_eq in Hn. apply ty_eqb_eq in Hr. subst t. split; [auto|]. intros G as' Hm. split; [reflexivity|]. intros _ Hall.
    one_arg as' Hm. cbn [WT.wt wt_builtin map]. rewrite (forallb_Forall (fun e0 => wt G e0) _ Hall), Hm. reflexivity.
  - (* unwrap *)
    injection Hcn as <-. cbn [call_plan] in Hp. apply negb_if_ok in Hp as [Hn Hp]. injection Hp as <- <- <- <-.
    apply Nat.eqb_eq in Hn. split; [auto|]. intros G as' Hm. split; [reflexivity|]. intros _ Hall.
    one_arg as' Hm. cbn [WT.wt wt_builtin map]. rewrite (forallb_Forall (fun e0 => wt G e0) _ Hall), Hm, ty_eqb_refl. reflexivity.
  - (* assert *)
    injection Hcn as <-. cbn [call_plan] in Hp. apply negb_if_ok in Hp as [Hn Hp].
    apply negb_if_ok in Hp as [Hr Hp]. injection Hp as <- <- <- <-.
    apply Nat.eqb_eq in Hn. apply ty_eqb_eq in Hr. subst t. split; [auto|]. intros G as' Hm. split; [reflexivity|]. intros _ Hall.
    one_arg as' Hm. cbn [WT.wt wt_builtin map]. rewrite (forallb_Forall (fun e0 => wt G e0) _ Hall), Hm. reflexivity.
  - (* panic *)
    injection Hcn as <-. cbn [call_plan] in Hp. apply negb_if_ok in Hp as [Hn Hp]. injection Hp as <- <- <- <-.
    apply Nat.eqb_eq in Hn. split; [auto|]. intros G as' Hm. split; [reflexivity|]. intros _ Hall.
    destruct as'; [|discriminate]. reflexivity.
  - (* dbg *)
    injection Hcn as <-. cbn [call_plan] in Hp. apply negb_if_ok in Hp as [Hn Hp]. injection Hp as <- <- <- <-.
    apply Nat.eqb_eq in Hn. split; [auto|]. intros G as' Hm. split; [reflexivity|]. intros _ Hall.
    one_arg as' Hm. cbn [WT.wt wt_builtin map]. rewrite (forallb_Forall (fun e0 => wt G e0) _ Hall), Hm, ty_eqb_refl. reflexivity.
  - (* cast *)
    rb Hcn. injection Hcn as <-. cbn [call_plan] in Hp. apply negb_if_ok in Hp as [Hc Hp].
    apply negb_if_ok in Hp as [Hn Hp]. injection Hp as <- <- <- <-.
    apply Nat.eqb_eq in Hn. split; [auto|]. intros G as' Hm. split; [reflexivity|]. intros _ Hall.
    one_arg as' Hm. cbn [WT.wt wt_builtin map]. rewrite (forallb_Forall (fun e0 => wt G e0) _ Hall), Hm, ty_eqb_refl, Hc. reflexivity.
  - (* custom function *)
    destruct (lookupN fn f) as [[ps body]|] eqn:Ef; [|discriminate]. injection Hcn as <-. cbn [call_plan] in Hp.
    apply negb_if_ok in Hp as [Hn Hp]. apply negb_if_ok in Hp as [Hr Hp]. injection Hp as <- <- <- <-.
    apply Nat.eqb_eq in Hn. split; [rewrite map_length; auto|]. intros G as' Hm. split; [reflexivity|]. intros Hf Hall.
    cbn [WT.wt]. rewrite (forallb_Forall (fun e0 => wt G e0) _ Hall), (Hf _ _ _ Ef), Hm, tys_eqb_refl, Hr. reflexivity.
  - (* fold *)
    destruct k as [|k]; [discriminate|].
    destruct (lookupN fn f) as [[ps body]|] eqn:Ef; [|discriminate].
    destruct ps as [|[x1 e1] [|[x2 a2] [|? ?]]]; try discriminate.
    destruct (ty_eqb a2 (ty_of body)) eqn:Ea; [|discriminate]. injection Hcn as <-. cbn [call_plan] in Hp.
    apply negb_if_ok in Hp as [Hn Hp]. apply negb_if_ok in Hp as [Hr Hp]. injection Hp as <- <- <- <-.
    apply Nat.eqb_eq in Hn. apply ty_eqb_eq in Ea. apply ty_eqb_eq in Hr. split; [auto|].
    intros G as' Hm. split; [reflexivity|]. intros Hf Hall.
    cbn [WT.wt]. rewrite (forallb_Forall (fun e0 => wt G e0) _ Hall), (Hf _ _ _ Ef), Hm, tys_eqb_refl. subst a2 t.
    rewrite ty_eqb_refl. reflexivity.
  - (* for_while *)
    destruct (lookupN fn f) as [[ps body]|] eqn:Ef; [|discriminate].
    destruct ps as [|[x1 a1] [|[x2 c2] [|[x3 c3] [|? ?]]]]; try discriminate.
    destruct (ty_of body) as [b r| | | | | |] eqn:Eb; try discriminate.
    destruct (ty_eqb r a1) eqn:Ea; [|discriminate].
    destruct c3 as [| | |w| | |]; try discriminate. destruct (Nat.leb w 4); [|discriminate].
    injection Hcn as <-. cbn [call_plan] in Hp.
    apply negb_if_ok in Hp as [Hn Hp]. apply negb_if_ok in Hp as [Hr Hp]. injection Hp as <- <- <- <-.
    apply Nat.eqb_eq in Hn. apply ty_eqb_eq in Ea. apply ty_eqb_eq in Hr. split; [auto|].
    intros G as' Hm. split; [reflexivity|]. intros Hf Hall.
    cbn [WT.wt]. rewrite (forallb_Forall (fun e0 => wt G e0) _ Hall), (Hf _ _ _ Ef), Hm. rewrite <- Hr, Eb. subst r.
    rewrite Nat.eqb_refl, !ty_eqb_refl, tys_eqb_refl. reflexivity.
Qed.

Lemma scrutinee_resolve lp rp sa sty : scrutinee_type lp rp = Ok sa -> resolve sa = Ok sty ->
  match typed_var lp, typed_var rp with
  | Some (_, tl), Some (_, tr) => exists a b, sty = TEither a b /\ resolve tl = Ok a /\ resolve tr = Ok b
  | None, Some (_, tr) => exists b, sty = TOption b /\ resolve tr = Ok b
  | None, None => sty = TBool
  | Some _, None => False
  end.
Proof.
  destruct lp, rp; cbn [scrutinee_type typed_var]; intros H1 H2; try discriminate; injection H1 as <-;
    cbn [Analyze.resolve] in H2.
  - rb H2. rb H2. injection H2 as <-. eauto.
  - rb H2. injection H2 as <-. eauto.
  - injection H2 as <-. reflexivity.
Qed.

Theorem analyze_expr_sound e : sound_fn (AE e).
Proof.
  induction e using pexpr_ind'; intros t s e' s' Heq; cbn [analyze_expr] in Heq.
  - (* block *)
    rb Heq. destruct a as [ss' s2]. rb Heq. destruct a as [last' s3]. rb Heq. rename a into vs. injection Heq as <- <-.
    apply (stmts_sound _ _ H) in E as (Hm2 & Htl2 & Hwt2); [|cbn; discriminate].
    cbn [vars set_vars push_scope] in Htl2, Hwt2.
    destruct (vars s2) as [|m2 r2] eqn:Ev2; [contradiction|]. cbn in Htl2.
    assert (Hlast : le_st s2 s3 /\
              (fn_ok fn -> good s3 -> forall G2, ctx_eq G2 (concat (vars s2)) -> wtb t last' [] G2 = true)).
    { destruct last as [l|].
      - rb E0. destruct a as [l' s3']. injection E0 as <- <-. cbn in H0.
        apply H0 in E as (Hle & Hty & Hwt). split; [exact Hle|].
        intros Hf Hg G2 HG2. cbn [wt_blk]. rewrite (wt_ext jsig W args l' G2 _ HG2), (Hwt Hf Hg), Hty, ty_eqb_refl. reflexivity.
      - destruct (is_unit t) eqn:Eu; [|discriminate]. injection E0 as <- <-. split; [apply le_st_refl|].
        intros _ _ G2 _. cbn [wt_blk]. exact Eu. }
    destruct Hlast as ([Hm3 Hv3] & Hwl). rewrite Ev2 in Hv3.
    apply vs_eq_cons_inv in Hv3 as (m3 & r3 & Eb & Hr3 & Hc3). rewrite Eb in E1. cbn in E1. injection E1 as <-.
    split.
    { split; [|cbn [vars set_vars]; eapply vs_eq_trans; eassumption].
      eapply maps_le_same; [..|eapply maps_le_trans; [exact Hm2|exact Hm3]]; reflexivity. }
    split; [reflexivity|]. intros Hf Hg.
    assert (Hg3 : good s3) by (eapply good_same; [..|exact Hg]; reflexivity).
    rewrite wt_block. apply Hwt2.
    + exact Hf.
    + eapply good_le; eassumption.
    + cbn [concat app]. apply ctx_eq_refl.
    + rewrite <- Ev2. apply Hwl; assumption.
  - (* bool *)
    destruct t; try discriminate. injection Heq as <- <-. split; [apply le_st_refl|]. split; reflexivity.
  - (* literal *)
    rb Heq. injection Heq as <- <-. apply analyze_lit_sound in E as (v & -> & Hwf & Hty).
    split; [apply le_st_refl|]. split; [reflexivity|]. intros _ _. cbn [WT.wt]. rewrite Hwf, Hty, ty_eqb_refl. reflexivity.
  - (* witness *)
    rb Heq. injection Heq as <- <-. unfold insert_witness in E. destruct (negb is_main); [discriminate|].
    destruct (lookupN (wits s) n) eqn:El; [discriminate|]. injection E as <-.
    split; [|split; [reflexivity|]].
    + split; [|apply vs_eq_refl]. split; [|split; [auto|split; [|auto]]].
      * intros n0 t0 H0. cbn [wits set_wits lookupN].
        destruct (N.eqb n0 n) eqn:En; [|exact H0]. apply N.eqb_eq in En. subst. congruence.
      * intros Hnd. cbn [wits set_wits map fst]. constructor; [now apply lookupN_None_notin|exact Hnd].
    + intros _ [Hg _]. cbn [WT.wt]. rewrite (Hg n t); [apply ty_eqb_refl|].
      cbn [wits set_wits lookupN]. now rewrite N.eqb_refl.
  - (* parameter *)
    rb Heq. injection Heq as <- <-. unfold insert_parameter in E.
    destruct (lookupN (params s) n) as [t'|] eqn:El.
    + destruct (ty_eqb t' t) eqn:Et; [|discriminate]. injection E as <-. apply ty_eqb_eq in Et. subst t'.
      split; [apply le_st_refl|]. split; [reflexivity|]. intros _ [_ Hg]. cbn [WT.wt].
      destruct (Hg n t El) as (v & -> & Hwf & Hty). rewrite Hwf, Hty, ty_eqb_refl. reflexivity.
    + injection E as <-. split; [|split; [reflexivity|]].
      * split; [|apply vs_eq_refl]. split; [auto|split; [|split; [auto|]]].
        -- intros n0 t0 H0. cbn [params set_params lookupN].
           destruct (N.eqb n0 n) eqn:En; [|exact H0]. apply N.eqb_eq in En. subst. congruence.
        -- intros Hnd. cbn [params set_params map fst]. constructor; [now apply lookupN_None_notin|exact Hnd].
      * intros _ [_ Hg]. cbn [WT.wt]. destruct (Hg n t) as (v & -> & Hwf & Hty).
        { cbn [params set_params lookupN]. now rewrite N.eqb_refl. }
        rewrite Hwf, Hty, ty_eqb_refl. reflexivity.
  - (* variable *)
    destruct (get_variable (vars s) x) as [bound|] eqn:Eg; [|discriminate].
    destruct (ty_eqb t bound) eqn:Et; cbn [negb] in Heq; [|discriminate]. apply ty_eqb_eq in Et. subst bound.
    rb Heq. injection Heq as <- <-. rewrite get_variable_concat in Eg.
    unfold insert_variable in E. destruct (vars s) as [|m r] eqn:Ev; [discriminate|]. injection E as <-.
    split; [|split; [reflexivity|]].
    + split; [repeat split; auto|]. cbn [vars set_vars]. rewrite Ev. constructor; [apply vs_eq_refl|].
      intros y. cbn [app lookupN]. destruct (N.eqb y x) eqn:Ey; [|reflexivity].
      apply N.eqb_eq in Ey. subst y. cbn [concat] in Eg. now rewrite Eg.
    + intros _ _. cbn [WT.wt]. rewrite Eg. apply ty_eqb_refl.
  - (* parentheses *)
    rb Heq. destruct a as [e1 s1]. injection Heq as <- <-. apply IHe in E as (Hle & Hty & Hwt). auto.
  - (* tuple *)
    destruct t as [| | | |ts| |]; try discriminate. apply negb_if_ok in Heq as [Hlen Heq]. apply Nat.eqb_eq in Hlen.
    rb Heq. destruct a as [es' s1]. injection Heq as <- <-.
    apply (map2_sound _ _ H) in E as (Hle & Hty & Hwt); [|exact Hlen].
    split; [exact Hle|]. split; [reflexivity|]. intros Hf Hg. cbn [WT.wt].
    rewrite Hty, ty_eqb_refl. cbn [andb]. apply forallb_Forall. auto.
  - (* array *)
    destruct t as [| | | | |a n|]; try discriminate. apply negb_if_ok in Heq as [Hlen Heq]. apply Nat.eqb_eq in Hlen.
    rb Heq. destruct a0 as [es' s1]. injection Heq as <- <-.
    apply (map2_sound _ _ H) in E as (Hle & Hty & Hwt); [|now rewrite repeat_length].
    apply map_repeat_inv in Hty as [Hl Hall].
    split; [exact Hle|]. split; [reflexivity|]. intros Hf Hg. cbn [WT.wt].
    rewrite Hl, Hlen, Nat.eqb_refl. cbn [andb]. apply forallb_Forall. specialize (Hwt Hf Hg).
    rewrite Forall_forall in *. intros x Hx. rewrite (Hwt x Hx), (Hall x Hx), ty_eqb_refl. reflexivity.
  - (* list *)
    destruct t as [| | | | | |a k]; try discriminate. destruct k as [|k]; [discriminate|].
    destruct (lt_pow2 (S k) (length es)) eqn:Eb; [|discriminate]. cbn [negb] in Heq. apply lt_pow2_spec in Eb.
    rb Heq. destruct a0 as [es' s1]. injection Heq as <- <-.
    apply (map2_sound _ _ H) in E as (Hle & Hty & Hwt); [|now rewrite repeat_length].
    apply map_repeat_inv in Hty as [Hl Hall].
    split; [exact Hle|]. split; [reflexivity|]. intros Hf Hg. cbn [WT.wt].
    rewrite Hl. replace (Nat.ltb (length es) (2 ^ S k)) with true by (symmetry; now apply Nat.ltb_lt).
    cbn [Nat.leb andb]. apply forallb_Forall. specialize (Hwt Hf Hg).
    rewrite Forall_forall in *. intros x Hx. rewrite (Hwt x Hx), (Hall x Hx), ty_eqb_refl. reflexivity.
  - (* left *)
    destruct t; try discriminate. rb Heq. destruct a as [e1 s1]. injection Heq as <- <-.
    apply IHe in E as (Hle & Hty & Hwt). split; [exact Hle|]. split; [reflexivity|].
    intros Hf Hg. cbn [WT.wt]. rewrite (Hwt Hf Hg), Hty, ty_eqb_refl. reflexivity.
  - (* right *)
    destruct t; try discriminate. rb Heq. destruct a as [e1 s1]. injection Heq as <- <-.
    apply IHe in E as (Hle & Hty & Hwt). split; [exact Hle|]. split; [reflexivity|].
    intros Hf Hg. cbn [WT.wt]. rewrite (Hwt Hf Hg), Hty, ty_eqb_refl. reflexivity.
  - (* none *)
    destruct t; try discriminate. injection Heq as <- <-. split; [apply le_st_refl|]. split; reflexivity.
  - (* some *)
    destruct t; try discriminate. rb Heq. destruct a as [e1 s1]. injection Heq as <- <-.
    apply IHe in E as (Hle & Hty & Hwt). split; [exact Hle|]. split; [reflexivity|].
    intros Hf Hg. cbn [WT.wt]. rewrite (Hwt Hf Hg), Hty, ty_eqb_refl. reflexivity.
  - (* call *)
    rb Heq. rename a into cn. rb Heq. destruct a as [[[tys pre] post] build]. cbn zeta in Heq.
    rb Heq. destruct a as [args' s2]. injection Heq as <- <-.
    destruct (call_plan_sound _ _ _ _ _ _ _ _ E E0) as (Hlen & Hbuild).
    apply (map2_sound _ _ H) in E1 as (Hle & Hty & Hwt); [|now symmetry].
    destruct (Hbuild (concat (vars s)) args' Hty) as (Hty' & Hwt').
    destruct Hle as [Hm Hv]. rewrite track_opt_vars in Hv, Hwt.
    split; [|split; [exact Hty'|]].
    + split; [|rewrite track_opt_vars; exact Hv].
      eapply maps_le_same; [..|exact Hm]; rewrite ?track_opt_wits, ?track_opt_params; reflexivity.
    + intros Hf Hg. apply Hwt'; [exact Hf|]. apply Hwt; [exact Hf|].
      eapply good_same; [..|exact Hg]; rewrite ?track_opt_wits, ?track_opt_params; reflexivity.
  - (* match *)
    rb Heq. rename a into sa. rb Heq. rename a into sty. rb Heq. destruct a as [sc' s1].
    rb Heq. destruct a as [el' s2]. rb Heq. destruct a as [er' s3]. injection Heq as <- <-.
    apply IHe1 in E1 as (Hle1 & Hty1 & Hwt1).
    apply (arm_sound _ _ _ IHe2) in E2 as (Hle2 & Hty2 & Hwt2).
    apply (arm_sound _ _ _ IHe3) in E3 as (Hle3 & Hty3 & Hwt3).
    split; [eapply le_st_trans; [exact Hle1|eapply le_st_trans; eassumption]|]. split; [reflexivity|].
    intros Hf Hg.
    assert (Hg2 : good s2) by (eapply good_le; [apply Hle3|exact Hg]).
    assert (Hg1 : good s1) by (eapply good_le; [apply Hle2|exact Hg2]).
    assert (HG1 : ctx_eq (concat (vars s)) (concat (vars s1))) by apply vs_eq_concat, Hle1.
    assert (HG2 : ctx_eq (concat (vars s)) (concat (vars s2))).
    { eapply ctx_eq_trans; [exact HG1|]. apply vs_eq_concat, Hle2. }
    specialize (Hwt2 Hf Hg2 _ HG1). specialize (Hwt3 Hf Hg _ HG2).
    pose proof (scrutinee_resolve _ _ _ _ E E0) as Hs.
    cbn [WT.wt]. rewrite (Hwt1 Hf Hg1), Hty1, Hty2, Hty3, !ty_eqb_refl, !andb_true_r. cbn [andb].
    unfold arm_var. destruct (typed_var lp) as [[xl tl]|]; destruct (typed_var rp) as [[xr tr]|]; cbn [option_map fst].
    + destruct Hs as (a & b & -> & Ha & Hb). destruct Hwt2 as (tx & Hx & Hw2). destruct Hwt3 as (ty & Hy & Hw3).
      rewrite Ha in Hx. rewrite Hb in Hy. injection Hx as <-. injection Hy as <-. cbn [arm_ctx]. now rewrite Hw2, Hw3.
    + contradiction.
    + destruct Hs as (b & -> & Hb). destruct Hwt3 as (ty & Hy & Hw3).
      rewrite Hb in Hy. injection Hy as <-. cbn [arm_ctx]. now rewrite Hwt2, Hw3.
    + rewrite Hs. now rewrite Hwt2, Hwt3.
Qed.
End ExprS.

(* ---------- items and the program ---------- *)
Definition g_good (g:genv) : Prop := good (mkSt [] (g_params g) (g_wits g) (g_tlog g)).
Definition g_le (g g':genv) : Prop :=
  maps_le (mkSt [] (g_params g) (g_wits g) (g_tlog g)) (mkSt [] (g_params g') (g_wits g') (g_tlog g')).
Definition main_ok (r:option expr) : Prop :=
  match r with Some m => wt [] m = true /\ ty_of m = TUnit | None => True end.

Lemma function_sound name ps ret body g r g' :
  analyze_function jlook jsig balias main_name name ps ret body g = Ok (r, g') ->
  g_le g g' /\ (g_good g' -> fn_ok (g_fn g) -> fn_ok (g_fn g') /\ main_ok r).
Proof.
  unfold analyze_function. intros H. destruct (negb (N.eqb name main_name)).
  - rb H. rename a into ps'. destruct (negb (nodup_keys ps')); [discriminate|].
    rb H. rename a into rt. cbn zeta in H. rb H. destruct a as [body' s1]. rb H.
    destruct (lookupN (g_fn g) name) eqn:El; [discriminate|]. injection H as <- <-.
    apply analyze_expr_sound in E1 as (Hle & Hty & Hwt). split.
    + eapply maps_le_same; [..|apply Hle]; reflexivity.
    + intros Hg Hf. split; [|exact I]. intros f ps0 body0 Hl. cbn [g_fn lookupN] in Hl.
      destruct (N.eqb f name); [|exact (Hf _ _ _ Hl)]. injection Hl as <- <-.
      specialize (Hwt Hf). cbn [vars concat] in Hwt. rewrite app_nil_r in Hwt. apply Hwt.
      eapply good_same; [..|exact Hg]; reflexivity.
  - destruct ps; [|discriminate]. rb H. cbn zeta in H. rb H. destruct a0 as [body' s1]. rb H.
    injection H as <- <-. apply analyze_expr_sound in E0 as (Hle & Hty & Hwt). split.
    + eapply maps_le_same; [..|apply Hle]; reflexivity.
    + intros Hg Hf. split; [exact Hf|]. cbn [main_ok]. split; [|exact Hty].
      specialize (Hwt Hf). cbn [vars concat app] in Hwt. apply Hwt.
      eapply good_same; [..|exact Hg]; reflexivity.
Qed.

Lemma item_sound it g r g' :
  analyze_item jlook jsig balias main_name it g = Ok (r, g') ->
  g_le g g' /\ (g_good g' -> fn_ok (g_fn g) -> fn_ok (g_fn g') /\ main_ok r).
Proof.
  destruct it; cbn [analyze_item]; intros H.
  - rb H. injection H as <- <-. split; [apply maps_le_refl|]. intros _ Hf. split; [exact Hf|exact I].
  - now apply function_sound in H.
  - injection H as <- <-. split; [apply maps_le_refl|]. intros _ Hf. split; [exact Hf|exact I].
Qed.

Lemma items_sound p : forall g items g',
  map_st (analyze_item jlook jsig balias main_name) p g = Ok (items, g') ->
  g_le g g' /\
  (g_good g' -> fn_ok (g_fn g) -> Forall (fun m => wt [] m = true /\ ty_of m = TUnit) (mains items)).
Proof.
  induction p as [|it p IH]; intros g items g' H; cbn [map_st] in H.
  - injection H as <- <-. split; [apply maps_le_refl|]. intros _ _. constructor.
  - rb H. destruct a as [r g1]. rb H. destruct a as [items1 g2]. injection H as <- <-.
    apply item_sound in E as (Hle1 & Hs1). apply IH in E0 as (Hle2 & Hs2).
    split; [eapply maps_le_trans; eassumption|]. intros Hg Hf.
    destruct Hs1 as [Hf1 Hr]; [eapply good_le; eassumption|exact Hf|].
    specialize (Hs2 Hg Hf1). destruct r as [m|]; cbn [mains]; [constructor; assumption|assumption].
Qed.
End Sound.

(* the arguments supply a well-formed value of the recorded type for every parameter of the program *)
Definition args_consistent (args : N -> option value) (ps : list (N*ty)) : Prop :=
  forall n t, In (n,t) ps -> exists v, args n = Some v /\ value_wf v = true /\ type_of v = t.

(* MAIN THEOREM.  No hypothesis on jlook / jsig / balias is needed: the typing judgement is taken
   relative to the same jet signature table that the analysis used. *)
Theorem analyze_sound jlook jsig balias main_name p main ps ws tr W args :
  analyze_program jlook jsig balias main_name p = Ok (main, ps, ws, tr) ->
  (forall n t, lookupN ws n = Some t -> W n = Some t) ->
  args_consistent args ps ->
  wt_program jsig W args main = true.
Proof.
  unfold analyze_program. intros H HW Ha. rb H. destruct a as [items g].
  apply (items_sound jlook jsig balias main_name W args) in E as (_ & Hs).
  destruct (mains items) as [|m [|? ?]] eqn:Em; try discriminate. injection H as <- <- <- <-.
  assert (Hg : g_good W args g).
  { split; cbn [wits params]; [exact HW|]. intros n t Hl. apply Ha. now apply lookupN_In. }
  assert (Hf0 : fn_ok jsig W args (g_fn genv0)) by (intros f ps0 body0 Hl; discriminate).
  specialize (Hs Hg Hf0). inversion Hs as [|? ? [Hw Ht] _]; subst.
  unfold wt_program. rewrite Hw, Ht. reflexivity.
Qed.
Print Assumptions analyze_sound.

Corollary analyze_sound_lookup jlook jsig balias main_name p main ps ws tr args :
  analyze_program jlook jsig balias main_name p = Ok (main, ps, ws, tr) ->
  args_consistent args ps ->
  wt_program jsig (lookupN ws) args main = true.
Proof. intros H Ha. eapply analyze_sound; eauto. Qed.
Print Assumptions analyze_sound_lookup.

(* the returned parameter and witness maps have pairwise distinct names: every witness name is used
   exactly once, and the order of the association lists is immaterial *)
Theorem params_wits_nodup jlook jsig balias main_name p main ps ws tr :
  analyze_program jlook jsig balias main_name p = Ok (main, ps, ws, tr) ->
  NoDup (map fst ps) /\ NoDup (map fst ws).
Proof.
  unfold analyze_program. intros H. rb H. destruct a as [items g].
  apply (items_sound jlook jsig balias main_name (fun _ => None) (fun _ => None)) in E as ((_ & _ & Hw & Hp) & _).
  destruct (mains items) as [|m [|? ?]]; try discriminate. injection H as <- <- <- <-.
  cbn [wits params g_wits g_params genv0 map] in Hw, Hp. split; [apply Hp|apply Hw]; constructor.
Qed.
Print Assumptions params_wits_nodup.

(* ====================================================================================== *)
(** * Tracked calls: exactly the tracked-kind call sites, every function body once *)

(* the calls for which Call::analyze calls scope.track_call (ast.rs 1103-1155) ... *)
Definition tracked_name (n:pcallname) : bool :=
  match n with
  | PJet _ | PUnwrapLeft _ | PUnwrapRight _ | PUnwrap | PAssert | PPanic | PDebug => true
  | PIsNone _ | PCast _ | PCustom _ | PFold _ _ | PForWhile _ => false
  end.
(* ... and those among them that are tracked AFTER their arguments were analysed *)
Definition post_name (n:pcallname) : bool :=
  match n with PUnwrapLeft _ | PUnwrapRight _ | PDebug => true | _ => false end.

(* all call sites of an expression, in the order in which a successful analysis visits them *)
Fixpoint calls (e:pexpr) : list (N*pcallname) :=
  match e with
  | PBlock stmts last =>
      flat_map (fun sm => calls (snd sm)) stmts ++ match last with Some l => calls l | None => [] end
  | PBool _ | PLit _ | PWitness _ | PParam _ | PVar _ | PNone => []
  | PParen e1 | PLeft e1 | PRight e1 | PSome e1 => calls e1
  | PTuple es | PArray es | PList es => flat_map calls es
  | PCall sp name args =>
      if post_name name then flat_map calls args ++ [(sp,name)] else (sp,name) :: flat_map calls args
  | PMatch s _ el _ er => calls s ++ calls el ++ calls er
  end.
Definition calls_item (it:pitem) : list (N*pcallname) :=
  match it with IFunction _ _ _ body => calls body | _ => [] end.
Definition calls_program (p:pprogram) : list (N*pcallname) := flat_map calls_item p.

(* span ids of the tracked-kind calls of a call list *)
Definition ts (l:list (N*pcallname)) : list N := map fst (filter (fun c => tracked_name (snd c)) l).
Lemma ts_app a b : ts (a ++ b) = ts a ++ ts b.
Proof. unfold ts. now rewrite filter_app, map_app. Qed.
Lemma ts_flat_map {A} (f:A -> list (N*pcallname)) l : ts (flat_map f l) = flat_map (fun a => ts (f a)) l.
Proof. induction l as [|a l IH]; cbn [flat_map]; [reflexivity|]. now rewrite ts_app, IH. Qed.

Section Tracked.
Variable jlook : N -> option N.
Variable jsig : N -> option (list ty * ty).
Variable balias : N -> option ty.
Variable main_name : N.

Section ExprT.
Variable al : list (N*ty).
Variable fn : list (N*fdef).
Variable is_main : bool.
Notation AE := (analyze_expr jlook jsig balias al fn is_main).

Definition trk_fn (F : ty -> st -> res (expr*st)) (l:list N) : Prop :=
  forall t s e' s', F t s = Ok (e', s') -> map fst (tlog s') = rev l ++ map fst (tlog s).

Section ListsT.
Variable F : pexpr -> ty -> st -> res (expr*st).
Lemma map2_trk l : Forall (fun e => trk_fn (F e) (ts (calls e))) l ->
  forall tys s bs s', map2_st F l tys s = Ok (bs, s') -> length l = length tys ->
    map fst (tlog s') = rev (ts (flat_map calls l)) ++ map fst (tlog s).
Proof.
  induction 1 as [|e l He _ IH]; intros tys s bs s' H Hlen.
  - destruct tys; [|discriminate]. cbn in H. injection H as <- <-. reflexivity.
  - destruct tys as [|t tys]; [discriminate|]. cbn [map2_st] in H.
    rb H. destruct a as [b s1]. rb H. destruct a as [bs1 s2]. injection H as <- <-.
    apply He in E. apply IH in E0; [|cbn in Hlen; now injection Hlen].
    cbn [flat_map]. rewrite ts_app, rev_app_distr, <- app_assoc, E0, E. reflexivity.
Qed.
Lemma stmts_trk stmts : Forall (fun sm => trk_fn (F (snd sm)) (ts (calls (snd sm)))) stmts ->
  forall s ss' s2, map_st (stmt_step balias al F) stmts s = Ok (ss', s2) ->
    map fst (tlog s2) = rev (ts (flat_map (fun sm => calls (snd sm)) stmts)) ++ map fst (tlog s).
Proof.
  induction 1 as [|sm stmts Hsm _ IH]; intros s ss' s2 H.
  - cbn in H. injection H as <- <-. reflexivity.
  - cbn [map_st] in H. rb H. destruct a as [b s1']. rb H. destruct a as [bs sF]. injection H as <- <-.
    apply IH in E0. cbn [flat_map]. rewrite ts_app, rev_app_distr, <- app_assoc, E0. f_equal.
    destruct sm as [[[p a]|] e]; cbn [snd] in *; cbn [stmt_step] in E.
    + rb E. rb E. destruct a1 as [e' s1]. rb E. rb E. injection E as <- <-. apply Hsm in E2. exact E2.
    + rb E. destruct a as [e' s1]. injection E as <- <-. now apply Hsm in E1.
Qed.
Lemma arm_trk mp e l : trk_fn (F e) l -> trk_fn (arm_step balias al F mp e) l.
Proof.
  intros He t s e' s' H. unfold arm_step in H.
  rb H. rename a into s2. rb H. destruct a as [e1 s3]. rb H. injection H as <- <-.
  apply He in E0. cbn [tlog set_vars]. rewrite E0. f_equal.
  destruct (typed_var mp) as [[x a0]|].
  - rb E. rb E. injection E as <-. reflexivity.
  - injection E as <-. reflexivity.
Qed.
End ListsT.

Lemma call_plan_track name cn t n tys pre post build :
  analyze_callname jlook balias al fn name = Ok cn -> call_plan jsig cn t n = Ok (tys, pre, post, build) ->
  length tys = n /\
  if post_name name then pre = None /\ tracked_name name = true /\ exists k, post = Some k
  else post = None /\ if tracked_name name then exists k, pre = Some k else pre = None.
Proof.
  intros Hcn Hp. destruct name; cbn [analyze_callname] in Hcn; cbn [post_name tracked_name].
  - destruct (jlook n0) as [j|]; [|discriminate]. injection Hcn as <-. cbn [call_plan] in Hp.
    destruct (jsig j) as [[ps r]|]; [|discriminate].
    apply negb_if_ok in Hp as [Hn Hp]. apply negb_if_ok in Hp as [_ Hp]. injection Hp as <- <- <- <-.
    apply Nat.eqb_eq in Hn. eauto.
  - rb Hcn. injection Hcn as <-. cbn [call_plan] in Hp. apply negb_if_ok in Hp as [Hn Hp]. injection Hp as <- <- <- <-.
    apply Nat.eqb_eq in Hn. eauto.
  - rb Hcn. injection Hcn as <-. cbn [call_plan] in Hp. apply negb_if_ok in Hp as [Hn Hp]. injection Hp as <- <- <- <-.
    apply Nat.eqb_eq in Hn. eauto.
  - rb Hcn. injection Hcn as <-. cbn [call_plan] in Hp. apply negb_if_ok in Hp as [Hn Hp].
    apply negb_if_ok in Hp as [_ Hp]. injection Hp as <- <- <- <-. apply Nat.eqb_eq in Hn. eauto.
  - injection Hcn as <-. cbn [call_plan] in Hp. apply negb_if_ok in Hp as [Hn Hp]. injection Hp as <- <- <- <-.
    apply Nat.eqb_eq in Hn. eauto.
  - injection Hcn as <-. cbn [call_plan] in Hp. apply negb_if_ok in Hp as [Hn Hp].
    apply negb_if_ok in Hp as [_ Hp]. injection Hp as <- <- <- <-. apply Nat.eqb_eq in Hn. eauto.
  - injection Hcn as <-. cbn [call_plan] in Hp. apply negb_if_ok in Hp as [Hn Hp]. injection Hp as <- <- <- <-.
    apply Nat.eqb_eq in Hn. eauto.
  - injection Hcn as <-. cbn [call_plan] in Hp. apply negb_if_ok in Hp as [Hn Hp]. injection Hp as <- <- <- <-.
    apply Nat.eqb_eq in Hn. eauto.
  - rb Hcn. injection Hcn as <-. cbn [call_plan] in Hp. apply negb_if_ok in Hp as [_ Hp].
    apply negb_if_ok in Hp as [Hn Hp]. injection Hp as <- <- <- <-. apply Nat.eqb_eq in Hn. eauto.
  - destruct (lookupN fn f) as [[ps body]|]; [|discriminate]. injection Hcn as <-. cbn [call_plan] in Hp.
    apply negb_if_ok in Hp as [Hn Hp]. apply negb_if_ok in Hp as [_ Hp]. injection Hp as <- <- <- <-.
    apply Nat.eqb_eq in Hn. rewrite map_length. eauto.
  - destruct k as [|k]; [discriminate|].
    destruct (lookupN fn f) as [[ps body]|]; [|discriminate].
    destruct ps as [|[x1 e1] [|[x2 a2] [|? ?]]]; try discriminate.
    destruct (ty_eqb a2 (ty_of body)); [|discriminate]. injection Hcn as <-. cbn [call_plan] in Hp.
    apply negb_if_ok in Hp as [Hn Hp]. apply negb_if_ok in Hp as [_ Hp]. injection Hp as <- <- <- <-.
    apply Nat.eqb_eq in Hn. eauto.
  - destruct (lookupN fn f) as [[ps body]|]; [|discriminate].
    destruct ps as [|[x1 a1] [|[x2 c2] [|[x3 c3] [|? ?]]]]; try discriminate.
    destruct (ty_of body) as [b r| | | | | |]; try discriminate.
    destruct (ty_eqb r a1); [|discriminate].
    destruct c3 as [| | |w| | |]; try discriminate. destruct (Nat.leb w 4); [|discriminate].
    injection Hcn as <-. cbn [call_plan] in Hp.
    apply negb_if_ok in Hp as [Hn Hp]. apply negb_if_ok in Hp as [_ Hp]. injection Hp as <- <- <- <-.
    apply Nat.eqb_eq in Hn. eauto.
Qed.

Theorem analyze_expr_tracked e : trk_fn (AE e) (ts (calls e)).
Proof.
  induction e using pexpr_ind'; intros t s e' s' Heq; cbn [analyze_expr] in Heq; cbn [calls].
  - rb Heq. destruct a as [ss' s2]. rb Heq. destruct a as [last' s3]. rb Heq. injection Heq as <- <-.
    apply (stmts_trk _ _ H) in E. cbn [tlog set_vars] in *.
    rewrite ts_app, rev_app_distr, <- app_assoc, <- E.
    destruct last as [l|].
    + rbn E0 El. destruct a0 as [l' s3']. injection E0 as <- <-. cbn in H0. now apply H0 in El.
    + destruct (is_unit t); [|discriminate]. injection E0 as <- <-. reflexivity.
  - destruct t; try discriminate. injection Heq as <- <-. reflexivity.
  - rb Heq. injection Heq as <- <-. reflexivity.
  - rb Heq. injection Heq as <- <-. unfold insert_witness in E. destruct (negb is_main); [discriminate|].
    destruct (lookupN (wits s) n); [discriminate|]. injection E as <-. reflexivity.
  - rb Heq. injection Heq as <- <-. unfold insert_parameter in E. destruct (lookupN (params s) n).
    + destruct (ty_eqb t0 t); [|discriminate]. injection E as <-. reflexivity.
    + injection E as <-. reflexivity.
  - destruct (get_variable (vars s) x); [|discriminate]. destruct (negb (ty_eqb t t0)); [discriminate|].
    rb Heq. injection Heq as <- <-. reflexivity.
  - rb Heq. destruct a as [e1 s1]. injection Heq as <- <-. now apply IHe in E.
  - destruct t as [| | | |tys| |]; try discriminate. apply negb_if_ok in Heq as [Hlen Heq]. apply Nat.eqb_eq in Hlen.
    rb Heq. destruct a as [es' s1]. injection Heq as <- <-. now apply (map2_trk _ _ H) in E.
  - destruct t as [| | | | |a n|]; try discriminate. apply negb_if_ok in Heq as [Hlen Heq].
    rb Heq. destruct a0 as [es' s1]. injection Heq as <- <-.
    apply (map2_trk _ _ H) in E; [exact E|now rewrite repeat_length].
  - destruct t as [| | | | | |a k]; try discriminate. destruct k as [|k]; [discriminate|].
    destruct (negb (lt_pow2 (S k) (length es))); [discriminate|].
    rb Heq. destruct a0 as [es' s1]. injection Heq as <- <-.
    apply (map2_trk _ _ H) in E; [exact E|now rewrite repeat_length].
  - destruct t; try discriminate. rb Heq. destruct a as [e1 s1]. injection Heq as <- <-. now apply IHe in E.
  - destruct t; try discriminate. rb Heq. destruct a as [e1 s1]. injection Heq as <- <-. now apply IHe in E.
  - destruct t; try discriminate. injection Heq as <- <-. reflexivity.
  - destruct t; try discriminate. rb Heq. destruct a as [e1 s1]. injection Heq as <- <-. now apply IHe in E.
  - rb Heq. rename a into cn. rb Heq. destruct a as [[[tys pre] post] build]. cbn zeta in Heq.
    rb Heq. destruct a as [args' s2]. injection Heq as <- <-.
    destruct (call_plan_track _ _ _ _ _ _ _ _ E E0) as (Hlen & Hk).
    apply (map2_trk _ _ H) in E1; [|now symmetry].
    destruct (post_name name).
    + destruct Hk as (-> & Ht & k & ->). cbn [track_opt track tlog map fst] in *.
      rewrite ts_app, rev_app_distr. unfold ts at 1. cbn [filter snd]. rewrite Ht. cbn [map fst rev app].
      now rewrite E1.
    + destruct Hk as (-> & Hk). cbn [track_opt]. rewrite E1. unfold ts at 2. cbn [filter snd].
      destruct (tracked_name name).
      * destruct Hk as (k & ->). cbn [track_opt track tlog map fst rev]. fold (ts (flat_map calls args)).
        now rewrite <- app_assoc.
      * subst pre. reflexivity.
  - rb Heq. rename a into sa. rb Heq. rename a into sty. rb Heq. destruct a as [sc' s1].
    rb Heq. destruct a as [el' s2]. rb Heq. destruct a as [er' s3]. injection Heq as <- <-.
    apply IHe1 in E1. apply (arm_trk _ _ _ _ IHe2) in E2. apply (arm_trk _ _ _ _ IHe3) in E3.
    rewrite !ts_app, !rev_app_distr, <- !app_assoc, E3, E2, E1. reflexivity.
Qed.
End ExprT.

Lemma function_tracked name ps ret body g r g' :
  analyze_function jlook jsig balias main_name name ps ret body g = Ok (r, g') ->
  map fst (g_tlog g') = rev (ts (calls body)) ++ map fst (g_tlog g).
Proof.
  unfold analyze_function. intros H. destruct (negb (N.eqb name main_name)).
  - rb H. destruct (negb (nodup_keys a)); [discriminate|]. rb H. cbn zeta in H. rb H. destruct a1 as [body' s1]. rb H.
    destruct (lookupN (g_fn g) name); [discriminate|]. injection H as <- <-.
    now apply analyze_expr_tracked in E1.
  - destruct ps; [|discriminate]. rb H. cbn zeta in H. rb H. destruct a0 as [body' s1]. rb H.
    injection H as <- <-. now apply analyze_expr_tracked in E0.
Qed.

Lemma items_tracked p : forall g items g',
  map_st (analyze_item jlook jsig balias main_name) p g = Ok (items, g') ->
  map fst (g_tlog g') = rev (ts (calls_program p)) ++ map fst (g_tlog g).
Proof.
  induction p as [|it p IH]; intros g items g' H; cbn [map_st] in H.
  - injection H as <- <-. reflexivity.
  - rb H. destruct a as [r g1]. rb H. destruct a as [items1 g2]. injection H as <- <-.
    apply IH in E0. unfold calls_program. cbn [flat_map]. fold (calls_program p).
    rewrite ts_app, rev_app_distr, <- app_assoc, E0. f_equal.
    destruct it; cbn [analyze_item calls_item] in *.
    + rb E. injection E as <- <-. reflexivity.
    + now apply function_tracked in E.
    + injection E as <- <-. reflexivity.
Qed.

(* the tracked calls, in id order, are exactly the tracked-kind call sites of all function bodies
   (main included) in item order; within a body in analysis order (jet, unwrap, assert!, panic! before
   their arguments; unwrap_left, unwrap_right, dbg! after them).  A function body is analysed, and its
   calls are tracked, once: at its definition, not at its calls. *)
Theorem tracked_exact p main ps ws tr :
  analyze_program jlook jsig balias main_name p = Ok (main, ps, ws, tr) ->
  map fst tr = ts (calls_program p).
Proof.
  unfold analyze_program. intros H. rb H. destruct a as [items g]. apply items_tracked in E.
  destruct (mains items) as [|m [|? ?]]; try discriminate. injection H as <- <- <- <-.
  rewrite map_rev, E. cbn [g_tlog genv0 map]. rewrite app_nil_r. apply rev_involutive.
Qed.

Lemma NoDup_ts l : NoDup (map fst l) -> NoDup (ts l).
Proof.
  unfold ts. induction l as [|c l IH]; cbn [map filter]; intros H; [constructor|].
  inversion H as [|? ? Hn Hd]; subst. destruct (tracked_name (snd c)); [|auto].
  cbn [map]. constructor; [|auto]. intros Hin. apply Hn.
  apply in_map_iff in Hin as (c' & Hc & Hin). apply filter_In in Hin as [Hin _].
  apply in_map_iff. eauto.
Qed.

(* markers are injective: if the call sites of the program have pairwise distinct span ids,
   no span is tracked twice (so CallTracker's map loses no entry) *)
Theorem tracked_ids p main ps ws tr :
  analyze_program jlook jsig balias main_name p = Ok (main, ps, ws, tr) ->
  NoDup (map fst (calls_program p)) -> NoDup (map fst tr).
Proof. intros H Hn. rewrite (tracked_exact _ _ _ _ _ H). now apply NoDup_ts. Qed.
End Tracked.
Print Assumptions tracked_exact.
Print Assumptions tracked_ids.

(* ====================================================================================== *)
(** * No panic on the parse trees the parser can produce *)

(* What Match::parse and the grammar guarantee (parse.rs 1230-1240; minimal.pest hex_literal):
   the two arms of a match form one of the three valid pairs, and a hexadecimal literal is a
   non-empty string of hex digits.  These are the only inputs on which ast.rs can panic:
   see [analyze_no_panic] and the witnesses [panic_invalid_arms], [panic_hex_u1_empty], [panic_hex_bad_char]. *)
Definition is_hex_b (c:N) : bool :=
  ((48 <=? c) && (c <=? 57) || (97 <=? c) && (c <=? 102) || (65 <=? c) && (c <=? 70))%N.
Definition lit_wf (l:lit) : bool :=
  match l with
  | LHex s => forallb is_hex_b s && match s with [] => false | _ => true end
  | _ => true
  end.
Definition arms_ok (lp rp:mpat) : bool :=
  match lp, rp with MLeft _ _, MRight _ _ | MNone, MSome _ _ | MFalse, MTrue => true | _, _ => false end.
Fixpoint pexpr_wf (e:pexpr) : bool :=
  match e with
  | PBlock stmts last =>
      forallb (fun sm => pexpr_wf (snd sm)) stmts && match last with Some l => pexpr_wf l | None => true end
  | PLit l => lit_wf l
  | PBool _ | PWitness _ | PParam _ | PVar _ | PNone => true
  | PParen e1 | PLeft e1 | PRight e1 | PSome e1 => pexpr_wf e1
  | PTuple es | PArray es | PList es => forallb pexpr_wf es
  | PCall _ _ args => forallb pexpr_wf args
  | PMatch s lp el rp er => arms_ok lp rp && pexpr_wf s && pexpr_wf el && pexpr_wf er
  end.
Definition item_wf (it:pitem) : bool := match it with IFunction _ _ _ body => pexpr_wf body | _ => true end.
Definition program_wf (p:pprogram) : bool := forallb item_wf p.

Lemma is_hex_b_all s : forallb is_hex_b s = true -> all_hex s.
Proof.
  intros H. apply Forall_forall. intros c Hc. rewrite forallb_forall in H. specialize (H c Hc).
  unfold is_hex_b in H. unfold is_hex. lia.
Qed.

Lemma analyze_lit_np l t : lit_wf l = true -> analyze_lit l t <> Panic.
Proof.
  destruct l as [s|s|s]; cbn [lit_wf analyze_lit]; intros Hwf.
  - destruct t; try discriminate. apply rmap_np, parse_decimal_no_panic.
  - destruct t; try discriminate. apply rmap_np, parse_binary_no_panic.
  - apply andb_true_iff in Hwf as [Hh Hne]. apply is_hex_b_all in Hh.
    destruct t as [| | |k| |t0 n|]; try discriminate.
    + apply rmap_np. intros Hp. apply (parse_hex_uint_panic_iff_hex k s Hh) in Hp as [_ ->]. discriminate.
    + destruct t0 as [| | |[|[|[|[|k]]]]| | |]; try discriminate.
      apply rmap_np. now apply parse_hex_bytes_no_panic.
Qed.

Lemma mapr_np {A B} (F:A -> res B) l : Forall (fun a => F a <> Panic) l -> mapr F l <> Panic.
Proof.
  induction 1 as [|a l Ha _ IH]; cbn [mapr]; [discriminate|].
  apply rbind_np; [exact Ha|]. intros b _. now apply rmap_np.
Qed.
Lemma resolve_np balias al a : resolve balias al a <> Panic.
Proof.
  induction a using aty_ind'; cbn [resolve]; try discriminate; try apply of_opt_np; try now apply rmap_np.
  - apply rbind_np; [exact IHa1|]. intros x _. apply rbind_np; [exact IHa2|]. discriminate.
  - apply rmap_np, mapr_np. exact H.
Qed.

Section NoPanic.
Variable jlook : N -> option N.
Variable jsig : N -> option (list ty * ty).
Variable balias : N -> option ty.
Variable main_name : N.

(* the monotonicity part of soundness does not depend on W / args *)
Definition W0 : N -> option ty := fun _ => None.
Definition args0 : N -> option value := fun _ => None.

Section ExprN.
Variable al : list (N*ty).
Variable fn : list (N*fdef).
Variable is_main : bool.
Notation AE := (analyze_expr jlook jsig balias al fn is_main).

Lemma analyze_expr_le e t s e' s' : AE e t s = Ok (e', s') -> le_st s s'.
Proof. intros H. now apply (analyze_expr_sound jlook jsig balias W0 args0) in H. Qed.

Lemma analyze_callname_np name : analyze_callname jlook balias al fn name <> Panic.
Proof.
  destruct name; cbn [analyze_callname]; try discriminate; try (apply rmap_np, resolve_np).
  - destruct (jlook n); discriminate.
  - destruct (lookupN fn f); discriminate.
  - destruct k; [discriminate|]. destruct (lookupN fn f) as [[ps body]|]; [|discriminate].
    destruct ps as [|? [|[? a2] [|? ?]]]; try discriminate. destruct (ty_eqb a2 (ty_of body)); discriminate.
  - destruct (lookupN fn f) as [[ps body]|]; [|discriminate].
    destruct ps as [|[? a1] [|? [|[? c3] [|? ?]]]]; try discriminate.
    destruct (ty_of body); try discriminate. destruct (ty_eqb _ a1); [|discriminate].
    destruct c3; try discriminate. destruct (Nat.leb k 4); discriminate.
Qed.

(* the `expect("foldable function")` / `expect("loopable function")` sites of Call::analyze
   (ast.rs 1184-1216) are unreachable: CallName::analyze has checked the number of parameters *)
Lemma fold_expect_unreachable name cn t n :
  analyze_callname jlook balias al fn name = Ok cn -> call_plan jsig cn t n <> Panic.
Proof.
  intros Hcn. destruct name; cbn [analyze_callname] in Hcn.
  - destruct (jlook n0); [|discriminate]. injection Hcn as <-. cbn [call_plan].
    destruct (jsig n1) as [[ps r]|]; [|discriminate].
    destruct (negb (Nat.eqb n (length ps))); [discriminate|]. destruct (negb (ty_eqb r t)); discriminate.
  - rb Hcn. injection Hcn as <-. cbn [call_plan]. destruct (negb (Nat.eqb n 1)); discriminate.
  - rb Hcn. injection Hcn as <-. cbn [call_plan]. destruct (negb (Nat.eqb n 1)); discriminate.
  - rb Hcn. injection Hcn as <-. cbn [call_plan]. destruct (negb (Nat.eqb n 1)); [discriminate|].
    destruct (negb (ty_eqb TBool t)); discriminate.
  - injection Hcn as <-. cbn [call_plan]. destruct (negb (Nat.eqb n 1)); discriminate.
  - injection Hcn as <-. cbn [call_plan]. destruct (negb (Nat.eqb n 1)); [discriminate|].
    destruct (negb (ty_eqb TUnit t)); discriminate.
  - injection Hcn as <-. cbn [call_plan]. destruct (negb (Nat.eqb n 0)); discriminate.
  - injection Hcn as <-. cbn [call_plan]. destruct (negb (Nat.eqb n 1)); discriminate.
  - rb Hcn. injection Hcn as <-. cbn [call_plan]. destruct (negb (cast_ok a t)); [discriminate|].
    destruct (negb (Nat.eqb n 1)); discriminate.
  - destruct (lookupN fn f) as [[ps body]|]; [|discriminate]. injection Hcn as <-. cbn [call_plan].
    destruct (negb (Nat.eqb n (length ps))); [discriminate|]. destruct (negb (ty_eqb (ty_of body) t)); discriminate.
  - destruct k; [discriminate|]. destruct (lookupN fn f) as [[ps body]|]; [|discriminate].
    destruct ps as [|[? ?] [|[? a2] [|? ?]]]; try discriminate.
    destruct (ty_eqb a2 (ty_of body)); [|discriminate]. injection Hcn as <-. cbn [call_plan].
    destruct (negb (Nat.eqb n 2)); [discriminate|]. destruct (negb (ty_eqb (ty_of body) t)); discriminate.
  - destruct (lookupN fn f) as [[ps body]|]; [|discriminate].
    destruct ps as [|[? a1] [|[? ?] [|[? c3] [|? ?]]]]; try discriminate.
    destruct (ty_of body) eqn:Eb; try discriminate. destruct (ty_eqb _ a1); [|discriminate].
    destruct c3; try discriminate. destruct (Nat.leb k 4); [|discriminate]. injection Hcn as <-. cbn [call_plan].
    destruct (negb (Nat.eqb n 2)); [discriminate|]. rewrite Eb. destruct (negb (ty_eqb _ t)); discriminate.
Qed.

Definition np_fn (F : ty -> st -> res (expr*st)) : Prop := forall t s, F t s <> Panic.

Section ListsN.
Variable F : pexpr -> ty -> st -> res (expr*st).
Hypothesis HF : forall e t s, F e t s = AE e t s.

Lemma map2_np l : Forall (fun e => np_fn (F e)) l -> forall tys s, map2_st F l tys s <> Panic.
Proof.
  induction 1 as [|e l He _ IH]; intros tys s; [destruct tys; discriminate|].
  destruct tys as [|t tys]; [discriminate|]. cbn [map2_st].
  apply rbind_np; [apply He|]. intros [b s1] _. apply rbind_np; [apply IH|]. intros [bs s2] _. discriminate.
Qed.

Lemma stmts_np stmts : Forall (fun sm => np_fn (F (snd sm))) stmts ->
  forall s, vars s <> [] -> map_st (stmt_step balias al F) stmts s <> Panic.
Proof.
  induction 1 as [|sm stmts Hsm _ IH]; intros s Hne; [discriminate|]. cbn [map_st].
  apply rbind_np.
  - destruct sm as [[[p a]|] e]; cbn [snd] in Hsm; cbn [stmt_step].
    + apply rbind_np; [apply resolve_np|]. intros te _.
      apply rbind_np; [apply Hsm|]. intros [e' s1] E1. rewrite HF in E1. apply analyze_expr_le in E1 as [_ Hv].
      apply rbind_np; [unfold is_of_type; destruct (pat_ctx p te); [destruct (nodup_keys c)|]; discriminate|].
      intros c _. apply rbind_np; [|discriminate].
      destruct (vars s) as [|m r]; [congruence|]. apply vs_eq_cons_inv in Hv as (m1 & r1 & -> & _).
      rewrite insert_vars_ok. discriminate.
    + apply rbind_np; [apply Hsm|]. intros [e' s1] _. discriminate.
  - intros [b s1] E1. apply rbind_np; [|intros [bs s2] _; discriminate]. apply IH.
    (* the stack is still non-empty after the statement *)
    assert (Hone : map_st (stmt_step balias al F) [sm] s = Ok ([b], s1)) by (cbn [map_st]; rewrite E1; reflexivity).
    apply (stmts_sound jsig balias W0 args0 al fn F) in Hone as (_ & Htl & _); [|constructor; [|constructor]|exact Hne].
    + destruct (vars s); [congruence|]. destruct (vars s1); [contradiction|discriminate].
    + intros t0 s0 e0 s0' H0. rewrite HF in H0. eapply analyze_expr_sound; exact H0.
Qed.

Lemma arm_np mp e : np_fn (F e) -> np_fn (arm_step balias al F mp e).
Proof.
  intros He t s. unfold arm_step. apply rbind_np.
  - destruct (typed_var mp) as [[x a]|]; [|discriminate].
    apply rbind_np; [apply resolve_np|]. intros tx _. cbn. discriminate.
  - intros s2 E2. apply rbind_np; [apply He|]. intros [e' s3] E3. apply rbind_np; [|discriminate].
    rewrite HF in E3. apply analyze_expr_le in E3 as [_ Hv].
    assert (Hne : exists m r, vars s2 = m :: r).
    { destruct (typed_var mp) as [[x a]|].
      - rb E2. cbn in E2. injection E2 as <-. do 2 eexists; reflexivity.
      - injection E2 as <-. do 2 eexists; reflexivity. }
    destruct Hne as (m & r & Ev). rewrite Ev in Hv. apply vs_eq_cons_inv in Hv as (m3 & r3 & -> & _). discriminate.
Qed.
End ListsN.

Theorem analyze_expr_np e : pexpr_wf e = true -> np_fn (AE e).
Proof.
  assert (HF : forall e t s, (fun e0 t0 s0 => AE e0 t0 s0) e t s = AE e t s) by reflexivity.
  induction e using pexpr_ind'; intros Hwf t s; cbn [pexpr_wf] in Hwf; cbn [analyze_expr].
  - (* block *)
    apply andb_true_iff in Hwf as [Hws Hwl].
    assert (Hnp : Forall (fun sm => np_fn (AE (snd sm))) stmts).
    { rewrite forallb_forall in Hws. rewrite Forall_forall in *. intros sm Hin. apply H; auto. }
    apply rbind_np; [apply (stmts_np _ HF); [exact Hnp|cbn; discriminate]|].
    intros [ss' s2] E. apply rbind_np.
    + destruct last as [l|]; [|destruct (is_unit t); discriminate].
      apply rbind_np; [apply H0, Hwl|]. intros [l' s3] _. discriminate.
    + intros [last' s3] E0. apply rbind_np; [|discriminate].
      apply (stmts_sound jsig balias W0 args0 al fn) in E as (_ & Htl & _); [| |cbn; discriminate].
      2:{ apply Forall_forall. intros sm _. apply analyze_expr_sound. }
      cbn [vars set_vars push_scope] in Htl. destruct (vars s2) as [|m2 r2] eqn:Ev2; [contradiction|].
      assert (Hv : vs_eq (vars s2) (vars s3)).
      { destruct last as [l|].
        - rb E0. destruct a as [l' s3']. injection E0 as <- <-. apply analyze_expr_le in E as [_ Hv']; exact Hv'.
        - destruct (is_unit t); [|discriminate]. injection E0 as <- <-. apply vs_eq_refl. }
      rewrite Ev2 in Hv. apply vs_eq_cons_inv in Hv as (m3 & r3 & -> & _). discriminate.
  - destruct t; discriminate.
  - apply rmap_np, analyze_lit_np, Hwf.
  - apply rmap_np. unfold insert_witness. destruct (negb is_main); [discriminate|]. destruct (lookupN (wits s) n); discriminate.
  - apply rmap_np. unfold insert_parameter. destruct (lookupN (params s) n); [destruct (ty_eqb t0 t)|]; discriminate.
  - destruct (get_variable (vars s) x) eqn:Eg; [|discriminate]. destruct (negb (ty_eqb t t0)); [discriminate|].
    apply rbind_np; [|discriminate]. destruct (vars s); [discriminate|]. discriminate.
  - apply rbind_np; [apply IHe, Hwf|]. intros [e1 s1] _. discriminate.
  - destruct t as [| | | |tys| |]; try discriminate. destruct (negb (Nat.eqb (length es) (length tys))); [discriminate|].
    apply rbind_np; [|intros [? ?] _; discriminate]. apply map2_np.
    rewrite forallb_forall in Hwf. rewrite Forall_forall in *. auto.
  - destruct t; try discriminate. destruct (negb (Nat.eqb (length es) n)); [discriminate|].
    apply rbind_np; [|intros [? ?] _; discriminate]. apply map2_np.
    rewrite forallb_forall in Hwf. rewrite Forall_forall in *. auto.
  - destruct t; try discriminate. destruct k; [discriminate|]. destruct (negb (lt_pow2 (S k) (length es))); [discriminate|].
    apply rbind_np; [|intros [? ?] _; discriminate]. apply map2_np.
    rewrite forallb_forall in Hwf. rewrite Forall_forall in *. auto.
  - destruct t; try discriminate. apply rbind_np; [apply IHe, Hwf|]. intros [e1 s1] _. discriminate.
  - destruct t; try discriminate. apply rbind_np; [apply IHe, Hwf|]. intros [e1 s1] _. discriminate.
  - destruct t; discriminate.
  - destruct t; try discriminate. apply rbind_np; [apply IHe, Hwf|]. intros [e1 s1] _. discriminate.
  - apply rbind_np; [apply analyze_callname_np|]. intros cn Ecn.
    apply rbind_np; [now apply fold_expect_unreachable with (name := name)|]. intros [[[tys pre] post] build] _. cbn zeta.
    apply rbind_np; [|intros [? ?] _; discriminate]. apply map2_np.
    rewrite forallb_forall in Hwf. rewrite Forall_forall in *. auto.
  - apply andb_true_iff in Hwf as [Hwf Hw3]. apply andb_true_iff in Hwf as [Hwf Hw2]. apply andb_true_iff in Hwf as [Harms Hw1].
    apply rbind_np; [destruct lp, rp; cbn in Harms |- *; discriminate|]. intros sa _.
    apply rbind_np; [apply resolve_np|]. intros sty _.
    apply rbind_np; [apply IHe1, Hw1|]. intros [sc' s1] _.
    apply rbind_np; [apply (arm_np _ HF), IHe2, Hw2|]. intros [el' s2] _.
    apply rbind_np; [apply (arm_np _ HF), IHe3, Hw3|]. intros [er' s3] _. discriminate.
Qed.
End ExprN.

Lemma function_np name ps ret body g : pexpr_wf body = true ->
  analyze_function jlook jsig balias main_name name ps ret body g <> Panic.
Proof.
  intros Hwf. unfold analyze_function. destruct (negb (N.eqb name main_name)).
  - apply rbind_np.
    + apply mapr_np. apply Forall_forall. intros [x a] _. apply rmap_np, resolve_np.
    + intros ps' _. destruct (negb (nodup_keys ps')); [discriminate|].
      apply rbind_np; [destruct ret; [apply resolve_np|discriminate]|]. intros rt _. cbn zeta.
      apply rbind_np; [now apply analyze_expr_np|]. intros [body' s1] E.
      apply analyze_expr_le in E as [_ Hv]. cbn [vars] in Hv. apply vs_eq_cons_inv in Hv as (m & r & -> & _).
      cbn [pop_scope rbind]. destruct (lookupN (g_fn g) name); discriminate.
  - destruct ps; [|discriminate]. apply rbind_np.
    + destruct ret; [|discriminate]. apply rbind_np; [apply resolve_np|]. intros rt _. destruct (is_unit rt); discriminate.
    + intros _ _. cbn zeta. apply rbind_np; [now apply analyze_expr_np|]. intros [body' s1] E.
      apply analyze_expr_le in E as [_ Hv]. cbn [vars] in Hv. apply vs_eq_cons_inv in Hv as (m & r & -> & _).
      cbn [pop_scope rbind]. discriminate.
Qed.

Lemma items_np p : program_wf p = true -> forall g, map_st (analyze_item jlook jsig balias main_name) p g <> Panic.
Proof.
  induction p as [|it p IH]; intros Hwf g; [discriminate|]. cbn [program_wf forallb] in Hwf.
  apply andb_true_iff in Hwf as [Hit Hp]. cbn [map_st].
  apply rbind_np.
  - destruct it; cbn [analyze_item].
    + apply rbind_np; [apply resolve_np|]. discriminate.
    + now apply function_np.
    + discriminate.
  - intros [r g1] _. apply rbind_np; [now apply IH|]. intros [items g2] _. discriminate.
Qed.

(* ast.rs never panics on a parse tree that the parser can produce *)
Theorem analyze_no_panic p : program_wf p = true -> analyze_program jlook jsig balias main_name p <> Panic.
Proof.
  intros Hwf. unfold analyze_program. apply rbind_np; [now apply items_np|].
  intros [items g] _. destruct (mains items) as [|m [|? ?]]; discriminate.
Qed.
End NoPanic.
Print Assumptions analyze_no_panic.

(* ... and both conditions of program_wf are necessary: parse TREES outside the parser's image on which
   the Rust panics (computed with the example tables of Front/Analyze.v) *)
Module PanicWitnesses.
Import Analyze.Examples.
Local Open Scope N_scope.
(* match true { true => {}, false => {} } with the arms stored in the order (true, false): parse.rs:352 unreachable!() *)
Lemma panic_invalid_arms :
  A [ main_of [(None, PMatch (PBool true) MTrue (PBlock [] None) MFalse (PBlock [] None))] ] = Panic.
Proof. vm_compute. reflexivity. Qed.
(* let x: u1 = 0x;  value.rs:640 expect("valid length")  (D4; the grammar no longer produces `0x_`) *)
Lemma panic_hex_u1_empty : A [ main_of [(Some (PId 6, PTree.AUInt 0), PLit (LHex []))] ] = Panic.
Proof. vm_compute. reflexivity. Qed.
(* let x: u8 = 0xfg;  value.rs:636 expect("valid chars and valid length") *)
Lemma panic_hex_bad_char : A [ main_of [(Some (PId 6, PTree.AUInt 3), PLit (LHex [102; 103]))] ] = Panic.
Proof. vm_compute. reflexivity. Qed.
End PanicWitnesses.

(* ====================================================================================== *)
(** * Rejection lemmas: one per static rule of ast.rs *)

Lemma map_st_In {A B S} (F:A -> S -> res (B*S)) l : forall s bs s', map_st F l s = Ok (bs, s') ->
  forall a, In a l -> exists s0 b s1, F a s0 = Ok (b, s1).
Proof.
  induction l as [|x l IH]; intros s bs s' H a Hin; [contradiction|]. cbn [map_st] in H.
  rb H. destruct a0 as [b s1]. rb H. destruct a0 as [bs1 s2]. destruct Hin as [->|Hin]; [eauto|eapply IH; eauto].
Qed.

Lemma pat_ctx_tuple_length ps tys c : pat_ctx (PTup ps) (TTuple tys) = Some c -> length ps = length tys.
Proof.
  cbn [pat_ctx]. revert tys c. induction ps as [|p ps IH]; intros [|t tys] c H; try discriminate; [reflexivity|].
  destruct (pat_ctx p t); [|discriminate].
  match type of H with match ?X with _ => _ end = _ => destruct X eqn:E end; [|discriminate].
  cbn. f_equal. eapply IH. exact E.
Qed.
Lemma pat_ctx_array_length ps a n c : pat_ctx (PArr ps) (TArray a n) = Some c -> length ps = n.
Proof. cbn [pat_ctx]. destruct (Nat.eqb (length ps) n) eqn:E; [|discriminate]. intros _. now apply Nat.eqb_eq. Qed.

Section Reject.
Variable jlook : N -> option N.
Variable jsig : N -> option (list ty * ty).
Variable balias : N -> option ty.
Variable main_name : N.

Section ExprR.
Variable al : list (N*ty).
Variable fn : list (N*fdef).
Variable is_main : bool.
Notation AE := (analyze_expr jlook jsig balias al fn is_main).
Notation resolve := (resolve balias al).

(* --- let statements: the pattern must fit the declared type (same tuple length / array size at every
       level) and bind every variable at most once --- *)
Lemma let_pattern_checked F p a e s r : stmt_step balias al F (Some (p, a), e) s = Ok r ->
  exists te c, resolve a = Ok te /\ pat_ctx p te = Some c /\ NoDup (map fst c).
Proof.
  cbn [stmt_step]. intros H. rb H. rb H. destruct a1 as [e' s1]. rb H. rb H.
  unfold is_of_type in E1. destruct (pat_ctx p a0) as [c|] eqn:Ep; [|discriminate].
  destruct (nodup_keys c) eqn:En; [|discriminate]. apply nodup_keys_NoDup in En. eauto.
Qed.
(* every `let` of an accepted block passed that check *)
Theorem block_lets_checked stmts last t s r p a e :
  AE (PBlock stmts last) t s = Ok r -> In (Some (p, a), e) stmts ->
  exists te c, resolve a = Ok te /\ pat_ctx p te = Some c /\ NoDup (map fst c).
Proof.
  cbn [analyze_expr]. intros H Hin. rb H. destruct a0 as [ss' s2].
  destruct (map_st_In _ _ _ _ _ E _ Hin) as (s0 & b & s1 & Hs). now apply let_pattern_checked in Hs.
Qed.
(* duplicate variable in a let pattern *)
Corollary let_dup_var_rejected F p a e s te c :
  resolve a = Ok te -> pat_ctx p te = Some c -> ~ NoDup (map fst c) ->
  forall r, stmt_step balias al F (Some (p, a), e) s <> Ok r.
Proof.
  intros Hr Hp Hn r H. apply let_pattern_checked in H as (te' & c' & Hr' & Hp' & Hd).
  rewrite Hr in Hr'. injection Hr' as <-. rewrite Hp in Hp'. injection Hp' as <-. contradiction.
Qed.
(* tuple pattern of the wrong length (D2) / array pattern of the wrong size *)
Corollary let_tuple_arity_rejected F ps a e s tys :
  resolve a = Ok (TTuple tys) -> length ps <> length tys ->
  forall r, stmt_step balias al F (Some (PTup ps, a), e) s <> Ok r.
Proof.
  intros Hr Hn r H. apply let_pattern_checked in H as (te' & c' & Hr' & Hp' & _).
  rewrite Hr in Hr'. injection Hr' as <-. now apply pat_ctx_tuple_length in Hp'.
Qed.
Corollary let_array_size_rejected F ps a e s t0 n :
  resolve a = Ok (TArray t0 n) -> length ps <> n ->
  forall r, stmt_step balias al F (Some (PArr ps, a), e) s <> Ok r.
Proof.
  intros Hr Hn r H. apply let_pattern_checked in H as (te' & c' & Hr' & Hp' & _).
  rewrite Hr in Hr'. injection Hr' as <-. now apply pat_ctx_array_length in Hp'.
Qed.

(* --- witnesses --- *)
Lemma witness_reuse_rejected n t s t0 : lookupN (wits s) n = Some t0 -> AE (PWitness n) t s = Err.
Proof. intros H. cbn [analyze_expr]. unfold insert_witness. destruct (negb is_main); [reflexivity|]. now rewrite H. Qed.
(* a witness name stays recorded, so any later use (anywhere in the program) is a reuse *)
Lemma witness_stays e t s e' s' n t0 :
  AE e t s = Ok (e', s') -> lookupN (wits s) n = Some t0 -> lookupN (wits s') n = Some t0.
Proof. intros H. apply analyze_expr_le in H as [[Hw _] _]. apply Hw. Qed.
Lemma witness_accepted_fresh n t s r : AE (PWitness n) t s = Ok r -> is_main = true /\ lookupN (wits s) n = None.
Proof.
  cbn [analyze_expr]. unfold insert_witness. intros H. destruct is_main; [|discriminate]. cbn [negb] in H.
  destruct (lookupN (wits s) n); [discriminate|]. auto.
Qed.

(* --- sizes --- *)
Lemma list_too_long_rejected es a k s : 2 ^ k <= length es -> AE (PList es) (TList a k) s = Err.
Proof.
  intros H. cbn [analyze_expr]. destruct k; [reflexivity|].
  destruct (lt_pow2 (S k) (length es)) eqn:E; [|reflexivity]. apply lt_pow2_spec in E. lia.
Qed.
Lemma tuple_size_rejected es tys s : length es <> length tys -> AE (PTuple es) (TTuple tys) s = Err.
Proof. intros H. cbn [analyze_expr]. apply Nat.eqb_neq in H. now rewrite H. Qed.
Lemma array_size_rejected es a n s : length es <> n -> AE (PArray es) (TArray a n) s = Err.
Proof. intros H. cbn [analyze_expr]. apply Nat.eqb_neq in H. now rewrite H. Qed.

(* --- unknown names --- *)
Lemma unknown_variable_rejected x t s : get_variable (vars s) x = None -> AE (PVar x) t s = Err.
Proof. intros H. cbn [analyze_expr]. now rewrite H. Qed.
Lemma variable_type_mismatch_rejected x t t' s : get_variable (vars s) x = Some t' -> t <> t' -> AE (PVar x) t s = Err.
Proof.
  intros H Hn. cbn [analyze_expr]. rewrite H. destruct (ty_eqb t t') eqn:E; [|reflexivity].
  apply ty_eqb_eq in E. contradiction.
Qed.
Lemma unknown_function_rejected f sp args t s : lookupN fn f = None ->
  AE (PCall sp (PCustom f) args) t s = Err /\
  (forall k, AE (PCall sp (PFold f k) args) t s = Err) /\
  AE (PCall sp (PForWhile f) args) t s = Err.
Proof.
  intros H. cbn [analyze_expr analyze_callname]. rewrite H. split; [reflexivity|]. split; [|reflexivity].
  intros [|k]; reflexivity.
Qed.
Lemma unknown_jet_rejected n sp args t s : jlook n = None -> AE (PCall sp (PJet n) args) t s = Err.
Proof. intros H. cbn [analyze_expr analyze_callname]. now rewrite H. Qed.

(* --- casts --- *)
Lemma cast_layout_rejected sp a args t s src :
  resolve a = Ok src -> cast_ok src t = false -> AE (PCall sp (PCast a) args) t s = Err.
Proof. intros Hr Hc. cbn [analyze_expr analyze_callname]. rewrite Hr. cbn [rmap rbind call_plan]. now rewrite Hc. Qed.

(* --- fold / for_while signatures --- *)
Lemma fold_signature_checked sp f k args t s r ps body :
  AE (PCall sp (PFold f k) args) t s = Ok r -> lookupN fn f = Some (ps, body) ->
  exists x1 e1 x2, ps = [(x1, e1); (x2, ty_of body)] /\ ty_of body = t /\ length args = 2 /\ 1 <= k.
Proof.
  cbn [analyze_expr analyze_callname]. intros H Hl. rewrite Hl in H. destruct k; [discriminate|].
  destruct ps as [|[x1 e1] [|[x2 a2] [|? ?]]]; try discriminate.
  destruct (ty_eqb a2 (ty_of body)) eqn:Ea; [|discriminate]. apply ty_eqb_eq in Ea. subst a2.
  cbn [rbind call_plan] in H. destruct (negb (Nat.eqb (length args) 2)) eqn:En; [discriminate|].
  destruct (ty_eqb (ty_of body) t) eqn:Et; [|discriminate]. apply ty_eqb_eq in Et.
  apply negb_false_iff, Nat.eqb_eq in En. exists x1, e1, x2. repeat split; auto. lia.
Qed.
Lemma for_while_signature_checked sp f args t s r ps body :
  AE (PCall sp (PForWhile f) args) t s = Ok r -> lookupN fn f = Some (ps, body) ->
  exists x1 a x2 c x3 w b, ps = [(x1, a); (x2, c); (x3, TUInt w)] /\ w <= 4 /\ t = TEither b a /\ ty_of body = t /\ length args = 2.
Proof.
  cbn [analyze_expr analyze_callname]. intros H Hl. rewrite Hl in H.
  destruct ps as [|[x1 a1] [|[x2 c2] [|[x3 c3] [|? ?]]]]; try discriminate.
  destruct (ty_of body) as [b r0| | | | | |] eqn:Eb; try discriminate.
  destruct (ty_eqb r0 a1) eqn:Ea; [|discriminate]. apply ty_eqb_eq in Ea. subst r0.
  destruct c3 as [| | |w| | |]; try discriminate. destruct (Nat.leb w 4) eqn:Ew; [|discriminate]. apply Nat.leb_le in Ew.
  cbn [rbind call_plan] in H. destruct (negb (Nat.eqb (length args) 2)) eqn:En; [discriminate|].
  rewrite Eb in H. destruct (ty_eqb (TEither b a1) t) eqn:Et; [|discriminate]. apply ty_eqb_eq in Et.
  apply negb_false_iff, Nat.eqb_eq in En. exists x1, a1, x2, c2, x3, w, b. repeat split; auto.
Qed.
End ExprR.

Lemma witness_outside_main_rejected al fn n t s : analyze_expr jlook jsig balias al fn false (PWitness n) t s = Err.
Proof. reflexivity. Qed.
Lemma unknown_alias_rejected al n : lookupN al n = None -> resolve balias al (AAlias n) = Err.
Proof. intros H. cbn [resolve]. now rewrite H. Qed.

(* --- functions --- *)
Lemma mapr_params_keys al ps ps' :
  mapr (fun p : N*aty => rmap (fun t => (fst p, t)) (resolve balias al (snd p))) ps = Ok ps' -> map fst ps' = map fst ps.
Proof.
  revert ps'. induction ps as [|[x a] ps IH]; intros ps' H; cbn [mapr] in H; [injection H as <-; reflexivity|].
  rb H. rb H. rb E. injection E as <-. injection H as <-. cbn [map fst]. f_equal. now apply IH.
Qed.
(* duplicate parameter names (D3) *)
Lemma dup_param_rejected name ps ret body g : N.eqb name main_name = false -> ~ NoDup (map fst ps) ->
  forall r, analyze_function jlook jsig balias main_name name ps ret body g <> Ok r.
Proof.
  intros Hn Hd r H. unfold analyze_function in H. rewrite Hn in H. cbn [negb] in H.
  rb H. destruct (nodup_keys a) eqn:Ek; [|discriminate]. apply nodup_keys_NoDup in Ek.
  rewrite (mapr_params_keys _ _ _ E) in Ek. contradiction.
Qed.
(* a function defined twice *)
Lemma function_twice_rejected name ps ret body g d : N.eqb name main_name = false -> lookupN (g_fn g) name = Some d ->
  forall r, analyze_function jlook jsig balias main_name name ps ret body g <> Ok r.
Proof.
  intros Hn Hl r H. unfold analyze_function in H. rewrite Hn in H. cbn [negb] in H.
  rb H. destruct (negb (nodup_keys a)); [discriminate|]. rb H. cbn zeta in H. rb H. destruct a1 as [b' s1]. rb H.
  rewrite Hl in H. discriminate.
Qed.
(* main with parameters / with a non-unit result *)
Lemma main_params_rejected p ps ret body g : analyze_function jlook jsig balias main_name main_name (p::ps) ret body g = Err.
Proof. unfold analyze_function. rewrite N.eqb_refl. reflexivity. Qed.
Lemma main_result_rejected a rt body g : resolve balias (g_al g) a = Ok rt -> is_unit rt = false ->
  analyze_function jlook jsig balias main_name main_name [] (Some a) body g = Err.
Proof. intros Hr Hu. unfold analyze_function. rewrite N.eqb_refl. cbn [negb]. rewrite Hr. cbn [rbind]. now rewrite Hu. Qed.

(* --- exactly one main --- *)
Definition is_main_item (it:pitem) : bool :=
  match it with IFunction name _ _ _ => N.eqb name main_name | _ => false end.
Lemma item_main it g r g' : analyze_item jlook jsig balias main_name it g = Ok (r, g') ->
  match r with Some _ => is_main_item it = true | None => is_main_item it = false end.
Proof.
  destruct it; cbn [analyze_item is_main_item]; intros H.
  - rb H. injection H as <- _. reflexivity.
  - unfold analyze_function in H. destruct (N.eqb name main_name); cbn [negb] in H.
    + destruct params; [|discriminate]. rb H. cbn zeta in H. rb H. destruct a0 as [b' s1]. rb H. injection H as <- _. reflexivity.
    + rb H. destruct (negb (nodup_keys a)); [discriminate|]. rb H. cbn zeta in H. rb H. destruct a1 as [b' s1]. rb H.
      destruct (lookupN (g_fn g) name); [discriminate|]. injection H as <- _. reflexivity.
  - injection H as <- _. reflexivity.
Qed.
Lemma items_mains p : forall g items g', map_st (analyze_item jlook jsig balias main_name) p g = Ok (items, g') ->
  length (mains items) = length (filter is_main_item p).
Proof.
  induction p as [|it p IH]; intros g items g' H; cbn [map_st] in H.
  - injection H as <- _. reflexivity.
  - rb H. destruct a as [r g1]. rb H. destruct a as [items1 g2]. injection H as <- _.
    apply item_main in E. apply IH in E0. cbn [filter]. destruct r; rewrite E; cbn [mains length]; congruence.
Qed.
(* main missing / main defined twice *)
Theorem exactly_one_main p r : analyze_program jlook jsig balias main_name p = Ok r ->
  length (filter is_main_item p) = 1.
Proof.
  unfold analyze_program. intros H. rb H. destruct a as [items g]. apply items_mains in E.
  destruct (mains items) as [|m [|? ?]]; try discriminate. now rewrite <- E.
Qed.
Corollary main_missing_rejected p r : filter is_main_item p = [] -> analyze_program jlook jsig balias main_name p <> Ok r.
Proof. intros Hf H. apply exactly_one_main in H. rewrite Hf in H. discriminate. Qed.
Corollary main_twice_rejected p r : 2 <= length (filter is_main_item p) -> analyze_program jlook jsig balias main_name p <> Ok r.
Proof. intros Hf H. apply exactly_one_main in H. lia. Qed.
(* every main of an accepted program has no parameters *)
Corollary accepted_main_no_params p r ps ret body :
  analyze_program jlook jsig balias main_name p = Ok r -> In (IFunction main_name ps ret body) p -> ps = [].
Proof.
  unfold analyze_program. intros H Hin. rb H. destruct a as [items g].
  destruct (map_st_In _ _ _ _ _ E _ Hin) as (g0 & b & g1 & Hi). cbn [analyze_item] in Hi.
  destruct ps as [|p0 ps]; [reflexivity|]. rewrite main_params_rejected in Hi. discriminate.
Qed.
End Reject.
Print Assumptions block_lets_checked.
Print Assumptions exactly_one_main.
Print Assumptions dup_param_rejected.
