(* Correctness of the U256 text conversions modelled in Text/U256.v
   (/repo/src/num.rs: FromStr for U256, Display for U256). *)
From Coq Require Import List NArith ZArith Bool Lia.
From Coq Require Import ZifyBool ZifyNat ZifyN.
Require Import SV.Base.Res SV.Text.U256.
Import ListNotations.
Local Open Scope N_scope.

Ltac Zify.zify_post_hook ::= Z.div_mod_to_equations.

(** * Specification vocabulary *)

(* every character is one of '0'..'9' *)
Definition all_digits (s : list N) : Prop := Forall (fun c => 48 <= c <= 57) s.

(* value of a decimal digit string (Horner); dec_value [] = 0 *)
Fixpoint dec_value_acc (acc : N) (s : list N) : N :=
  match s with
  | [] => acc
  | c :: r => dec_value_acc (acc * 10 + (c - 48)) r
  end.
Definition dec_value (s : list N) : N := dec_value_acc 0 s.

(* every element is a byte *)
Definition bytes_ok (bs : list N) : Prop := Forall (fun b => b < 256) bs.

(* canonical decimal text: non-empty, and a leading '0' only for the text "0" *)
Definition no_leading_zero (t : list N) : Prop :=
  match t with
  | [] => False
  | c :: r => c = 48 -> r = []
  end.

Notation len l := (N.of_nat (length l)).

(** * dec_value *)

Lemma dec_value_acc_split : forall s acc,
  dec_value_acc acc s = acc * 10 ^ len s + dec_value s.
Proof.
  induction s as [|c r IHr]; intros acc.
  - unfold dec_value. cbn [dec_value_acc length]. change (N.of_nat 0) with 0. rewrite N.pow_0_r. lia.
  - unfold dec_value. cbn [dec_value_acc length].
    rewrite (IHr (acc * 10 + (c - 48))), (IHr (0 * 10 + (c - 48))).
    rewrite Nat2N.inj_succ, N.pow_succ_r'. lia.
Qed.

Lemma dec_value_nil : dec_value [] = 0.
Proof. reflexivity. Qed.

Lemma dec_value_cons : forall c r, dec_value (c :: r) = (c - 48) * 10 ^ len r + dec_value r.
Proof.
  intros c r. unfold dec_value at 1. cbn [dec_value_acc].
  rewrite dec_value_acc_split. lia.
Qed.

Lemma dec_value_acc_app : forall a b acc,
  dec_value_acc acc (a ++ b) = dec_value_acc (dec_value_acc acc a) b.
Proof.
  induction a as [|c r IHr]; intros b acc; cbn [app dec_value_acc]; [reflexivity|apply IHr].
Qed.

Lemma dec_value_app : forall a b, dec_value (a ++ b) = dec_value a * 10 ^ len b + dec_value b.
Proof.
  intros a b. unfold dec_value at 1. rewrite dec_value_acc_app.
  fold (dec_value a). apply dec_value_acc_split.
Qed.

Lemma dec_value_snoc : forall a c, dec_value (a ++ [c]) = dec_value a * 10 + (c - 48).
Proof.
  intros a c. unfold dec_value. rewrite dec_value_acc_app. reflexivity.
Qed.

Lemma pow10_pos : forall n, 0 < 10 ^ n.
Proof. intros n. apply N.neq_0_lt_0, N.pow_nonzero. lia. Qed.

Lemma pow256_pos : forall n, 0 < 256 ^ n.
Proof. intros n. apply N.neq_0_lt_0, N.pow_nonzero. lia. Qed.

Lemma dec_value_acc_ge : forall s acc, acc <= dec_value_acc acc s.
Proof.
  intros s acc. rewrite dec_value_acc_split.
  pose proof (pow10_pos (len s)). nia.
Qed.

Lemma dec_value_lt_pow : forall s, all_digits s -> dec_value s < 10 ^ len s.
Proof.
  induction s as [|c r IHr]; intros Hd.
  - cbn. lia.
  - inversion Hd as [|c' r' Hc Hr]; subst.
    rewrite dec_value_cons. specialize (IHr Hr).
    cbn [length]. rewrite Nat2N.inj_succ, N.pow_succ_r'.
    assert (c - 48 <= 9) by lia. nia.
Qed.

(** * bytes_value *)

Lemma bytes_value_acc_split : forall bs acc,
  bytes_value_acc acc bs = acc * 256 ^ len bs + bytes_value bs.
Proof.
  induction bs as [|b r IHr]; intros acc.
  - unfold bytes_value. cbn [bytes_value_acc length]. change (N.of_nat 0) with 0. rewrite N.pow_0_r. lia.
  - unfold bytes_value. cbn [bytes_value_acc length].
    rewrite (IHr (acc * 256 + b)), (IHr (0 * 256 + b)).
    rewrite Nat2N.inj_succ, N.pow_succ_r'. lia.
Qed.

Lemma bytes_value_nil : bytes_value [] = 0.
Proof. reflexivity. Qed.

Lemma bytes_value_cons : forall b r, bytes_value (b :: r) = b * 256 ^ len r + bytes_value r.
Proof.
  intros b r. unfold bytes_value at 1. cbn [bytes_value_acc].
  rewrite bytes_value_acc_split. lia.
Qed.

Lemma bytes_value_acc_app : forall a b acc,
  bytes_value_acc acc (a ++ b) = bytes_value_acc (bytes_value_acc acc a) b.
Proof.
  induction a as [|c r IHr]; intros b acc; cbn [app bytes_value_acc]; [reflexivity|apply IHr].
Qed.

Lemma bytes_value_app : forall a b,
  bytes_value (a ++ b) = bytes_value a * 256 ^ len b + bytes_value b.
Proof.
  intros a b. unfold bytes_value at 1. rewrite bytes_value_acc_app.
  fold (bytes_value a). apply bytes_value_acc_split.
Qed.

Lemma bytes_value_snoc : forall a b, bytes_value (a ++ [b]) = bytes_value a * 256 + b.
Proof.
  intros a b. unfold bytes_value. rewrite bytes_value_acc_app. reflexivity.
Qed.

Lemma bytes_value_lt : forall bs, bytes_ok bs -> bytes_value bs < 256 ^ len bs.
Proof.
  induction bs as [|b r IHr]; intros Hok.
  - cbn. lia.
  - inversion Hok as [|b' r' Hb Hr]; subst.
    rewrite bytes_value_cons. specialize (IHr Hr).
    cbn [length]. rewrite Nat2N.inj_succ, N.pow_succ_r'. nia.
Qed.

Lemma bytes_value_repeat0 : forall n, bytes_value (repeat 0 n) = 0.
Proof.
  induction n as [|n IHn]; [reflexivity|].
  cbn [repeat]. rewrite bytes_value_cons, IHn. lia.
Qed.

Lemma bytes_ok_repeat0 : forall n, bytes_ok (repeat 0 n).
Proof.
  induction n as [|n IHn]; constructor; [lia|exact IHn].
Qed.

(* the big-endian value determines a byte string of a given length *)
Lemma bytes_value_inj : forall a b,
  bytes_ok a -> bytes_ok b -> length a = length b -> bytes_value a = bytes_value b -> a = b.
Proof.
  induction a as [|x a' IHa]; intros b Ha Hb Hlen Hv.
  - destruct b; [reflexivity|discriminate].
  - destruct b as [|y b']; [discriminate|].
    inversion Ha as [|x0 a0 Hx Ha']; subst. inversion Hb as [|y0 b0 Hy Hb']; subst.
    cbn [length] in Hlen. injection Hlen as Hlen.
    rewrite !bytes_value_cons in Hv. rewrite Hlen in Hv.
    pose proof (bytes_value_lt a' Ha') as La. pose proof (bytes_value_lt b' Hb') as Lb.
    rewrite Hlen in La.
    destruct (N.div_mod_unique (256 ^ len b') x y (bytes_value a') (bytes_value b') La Lb) as [E1 E2].
    { lia. }
    subst y. f_equal. apply IHa; assumption.
Qed.

(** * FromStr: the inner loop *)

(* One round of the inner loop multiplies the 32-byte number by 10 and adds the digit;
   the final carry is the overflow beyond the most significant byte. *)
Lemma mul10_add_spec : forall bs d bs' c,
  mul10_add bs d = (bs', c) ->
  length bs' = length bs /\ bytes_ok bs' /\
  bytes_value bs' + c * 256 ^ len bs = bytes_value bs * 10 + d.
Proof.
  induction bs as [|b r IHr]; intros d bs' c H.
  - cbn [mul10_add] in H. injection H as <- <-.
    repeat split; [constructor|]. cbn. lia.
  - cbn [mul10_add] in H.
    destruct (mul10_add r d) as [r' c0] eqn:E.
    injection H as <- <-.
    destruct (IHr d r' c0 E) as (Hl & Hok & Hv).
    repeat split.
    + cbn [length]. now rewrite Hl.
    + constructor; [|exact Hok]. apply N.mod_lt. lia.
    + rewrite !bytes_value_cons. rewrite Hl. cbn [length].
      rewrite Nat2N.inj_succ, N.pow_succ_r'.
      set (P := 256 ^ len r) in *.
      set (v := b * 10 + c0).
      pose proof (N.div_mod' v 256) as Hdm.
      assert (Hm : v * P = (256 * (v / 256) + v mod 256) * P) by (rewrite <- Hdm; reflexivity).
      unfold v in Hm at 1. lia.
Qed.

(** * FromStr: the outer loop *)

Lemma to_digit10_digit : forall c, 48 <= c <= 57 -> to_digit10 c = Some (c - 48).
Proof.
  intros c Hc. unfold to_digit10, is_dec_digit.
  replace ((48 <=? c) && (c <=? 57)) with true by lia. reflexivity.
Qed.

Lemma to_digit10_nondigit : forall c, ~ (48 <= c <= 57) -> to_digit10 c = None.
Proof.
  intros c Hc. unfold to_digit10, is_dec_digit.
  replace ((48 <=? c) && (c <=? 57)) with false by lia. reflexivity.
Qed.

(* Loop invariant of the outer loop, in "rest of the input" form: started on bytes holding the
   value v of the prefix already read, the loop on the remaining digits s ends with bytes
   holding the value of the whole string (dec_value_acc v s), or with Err exactly on overflow. *)
Lemma from_str_loop_spec : forall s bytes,
  all_digits s -> bytes_ok bytes ->
  (dec_value_acc (bytes_value bytes) s < 256 ^ len bytes ->
     exists bytes', from_str_loop s bytes = Ok bytes' /\ length bytes' = length bytes /\
                    bytes_ok bytes' /\ bytes_value bytes' = dec_value_acc (bytes_value bytes) s)
  /\ (256 ^ len bytes <= dec_value_acc (bytes_value bytes) s -> from_str_loop s bytes = Err).
Proof.
  induction s as [|ch r IHr]; intros bytes Hd Hok.
  - cbn [from_str_loop dec_value_acc]. split.
    + intros _. exists bytes. repeat split; assumption.
    + intros Hge. pose proof (bytes_value_lt bytes Hok). lia.
  - inversion Hd as [|ch' r' Hch Hr]; subst.
    cbn [from_str_loop dec_value_acc].
    rewrite (to_digit10_digit ch Hch).
    destruct (mul10_add bytes (ch - 48)) as [bytes' carry] eqn:E.
    destruct (mul10_add_spec _ _ _ _ E) as (Hl & Hok' & Hv).
    pose proof (bytes_value_lt bytes' Hok') as Hlt'. rewrite Hl in Hlt'.
    pose proof (dec_value_acc_ge r (bytes_value bytes * 10 + (ch - 48))) as Hge.
    pose proof (pow256_pos (len bytes)) as Hpos.
    destruct (0 <? carry) eqn:Hc.
    + (* overflow now: the value only grows afterwards *)
      assert (256 ^ len bytes <= bytes_value bytes * 10 + (ch - 48)) by nia.
      split; [intros Hlt; lia|reflexivity].
    + assert (carry = 0) by lia. subst carry.
      assert (Hv' : bytes_value bytes' = bytes_value bytes * 10 + (ch - 48)) by lia.
      destruct (IHr bytes' Hr Hok') as [IH1 IH2].
      rewrite Hv', Hl in IH1, IH2.
      split.
      * intros Hlt. destruct (IH1 Hlt) as (b2 & Hb2 & Hl2 & Hok2 & Hv2).
        exists b2. repeat split; [exact Hb2|lia|exact Hok2|exact Hv2].
      * exact IH2.
Qed.

(* the loop over a concatenation is the loop over the first part followed by the loop over the second *)
Lemma from_str_loop_app : forall p q bytes,
  from_str_loop (p ++ q) bytes = rbind (from_str_loop p bytes) (from_str_loop q).
Proof.
  induction p as [|ch r IHr]; intros q bytes; cbn [app from_str_loop].
  - reflexivity.
  - destruct (to_digit10 ch); [|reflexivity].
    destruct (mul10_add bytes n) as [bytes' carry].
    destruct (0 <? carry); [reflexivity|apply IHr].
Qed.

(* Loop invariant in "prefix" form: after a prefix p has been processed (from all-zero bytes)
   without error, the bytes hold dec_value p. *)
Lemma from_str_loop_prefix : forall p n bytes,
  all_digits p -> from_str_loop p (repeat 0 n) = Ok bytes ->
  length bytes = n /\ bytes_ok bytes /\ bytes_value bytes = dec_value p.
Proof.
  intros p n bytes Hd H.
  destruct (from_str_loop_spec p (repeat 0 n) Hd (bytes_ok_repeat0 n)) as [H1 H2].
  rewrite bytes_value_repeat0 in H1, H2. fold (dec_value p) in H1, H2.
  destruct (N.lt_ge_cases (dec_value p) (256 ^ len (repeat 0 n))) as [Hlt|Hge].
  - destruct (H1 Hlt) as (b' & Hb' & Hl' & Hok' & Hv').
    rewrite Hb' in H. injection H as <-. rewrite repeat_length in Hl'. auto.
  - rewrite (H2 Hge) in H. discriminate.
Qed.

Lemma from_str_loop_no_panic : forall s bytes, from_str_loop s bytes <> Panic.
Proof.
  induction s as [|ch r IHr]; intros bytes; cbn [from_str_loop]; [discriminate|].
  destruct (to_digit10 ch); [|discriminate].
  destruct (mul10_add bytes n) as [bytes' carry].
  destruct (0 <? carry); [discriminate|apply IHr].
Qed.

Lemma from_str_loop_invalid : forall s bytes,
  Exists (fun c => ~ (48 <= c <= 57)) s -> from_str_loop s bytes = Err.
Proof.
  induction s as [|ch r IHr]; intros bytes Hex; [inversion Hex|].
  cbn [from_str_loop].
  destruct (N.le_gt_cases 48 ch) as [H1|H1]; [destruct (N.le_gt_cases ch 57) as [H2|H2]|].
  - rewrite to_digit10_digit by lia.
    destruct (mul10_add bytes (ch - 48)) as [bytes' carry].
    destruct (0 <? carry); [reflexivity|].
    apply IHr. inversion Hex as [c l Hc|c l Hc]; subst; [lia|exact Hc].
  - rewrite to_digit10_nondigit by lia. reflexivity.
  - rewrite to_digit10_nondigit by lia. reflexivity.
Qed.

(** * FromStr: trimming and the top level *)

Lemma trim_zeros_digits : forall s, all_digits s -> all_digits (trim_zeros s).
Proof.
  induction s as [|c r IHr]; intros Hd; cbn [trim_zeros]; [constructor|].
  destruct (c =? 48); [|exact Hd]. inversion Hd; subst. now apply IHr.
Qed.

Lemma trim_zeros_value : forall s, dec_value (trim_zeros s) = dec_value s.
Proof.
  induction s as [|c r IHr]; cbn [trim_zeros]; [reflexivity|].
  destruct (N.eqb_spec c 48) as [->|Hne]; [|reflexivity].
  rewrite IHr, dec_value_cons. lia.
Qed.

Lemma trim_zeros_head : forall s,
  match trim_zeros s with [] => True | c :: _ => c <> 48 end.
Proof.
  induction s as [|c r IHr]; cbn [trim_zeros]; [exact I|].
  destruct (N.eqb_spec c 48) as [->|Hne]; [exact IHr|exact Hne].
Qed.

Lemma trim_zeros_invalid : forall s,
  Exists (fun c => ~ (48 <= c <= 57)) s -> Exists (fun c => ~ (48 <= c <= 57)) (trim_zeros s).
Proof.
  induction s as [|c r IHr]; intros Hex; cbn [trim_zeros]; [exact Hex|].
  destruct (N.eqb_spec c 48) as [->|Hne]; [|exact Hex].
  apply IHr. inversion Hex as [c l Hc|c l Hc]; subst; [lia|exact Hc].
Qed.

Lemma pow_256_32 : 256 ^ len (repeat 0 32) = 2 ^ 256.
Proof. vm_compute. reflexivity. Qed.

Lemma pow_10_78 : 2 ^ 256 < 10 ^ 78.
Proof. vm_compute. reflexivity. Qed.

(* more than 78 significant digits: the value is at least 10^78 > 2^256 *)
Lemma long_digits_overflow : forall s,
  all_digits s -> match s with [] => True | c :: _ => c <> 48 end ->
  78 < len s -> 2 ^ 256 <= dec_value s.
Proof.
  intros s Hd Hhd Hlen. destruct s as [|c r]; [cbn in Hlen; lia|].
  inversion Hd as [|c' r' Hc Hr]; subst.
  rewrite dec_value_cons. cbn [length] in Hlen.
  assert (Hle : 10 ^ 78 <= 10 ^ len r) by (apply N.pow_le_mono_r; lia).
  pose proof pow_10_78. assert (1 <= c - 48) by lia. nia.
Qed.

(* MAIN THEOREM (FromStr).  For a string of decimal digits of ANY length (including the empty
   string, whose dec_value is 0): the result is the 32 big-endian bytes of the value when the
   value fits 256 bits, and Err otherwise. *)
Theorem u256_from_str_correct : forall s,
  all_digits s ->
  (dec_value s < 2 ^ 256 ->
     exists bytes, u256_from_str s = Ok bytes /\ length bytes = 32%nat /\ bytes_ok bytes /\
                   bytes_value bytes = dec_value s)
  /\ (2 ^ 256 <= dec_value s -> u256_from_str s = Err).
Proof.
  intros s Hd. unfold u256_from_str, MAX_DIGITS.
  pose proof (trim_zeros_digits s Hd) as Hd'.
  pose proof (trim_zeros_value s) as Hv.
  pose proof (trim_zeros_head s) as Hh.
  set (t := trim_zeros s) in *.
  destruct (from_str_loop_spec t (repeat 0 32) Hd' (bytes_ok_repeat0 32)) as [H1 H2].
  rewrite bytes_value_repeat0, pow_256_32 in H1, H2. fold (dec_value t) in H1, H2.
  rewrite Hv in H1, H2.
  destruct (78 <? len t) eqn:Hlen.
  - pose proof (long_digits_overflow t Hd' Hh ltac:(lia)) as Hov. rewrite Hv in Hov.
    split; [intros Hlt; lia|reflexivity].
  - split; [|exact H2].
    intros Hlt. destruct (H1 Hlt) as (b & Hb & Hl & Hok & Hbv).
    exists b. rewrite repeat_length in Hl. auto.
Qed.
Print Assumptions u256_from_str_correct.

(* The empty digit string is ACCEPTED and denotes 0 (there is no emptiness check in from_str). *)
Lemma u256_from_str_empty : u256_from_str [] = Ok (repeat 0 32).
Proof. reflexivity. Qed.

(* exact characterisation of the Ok results on digit strings *)
Theorem u256_from_str_ok_iff : forall s bytes,
  all_digits s ->
  (u256_from_str s = Ok bytes <->
   length bytes = 32%nat /\ bytes_ok bytes /\ bytes_value bytes = dec_value s).
Proof.
  intros s bytes Hd. destruct (u256_from_str_correct s Hd) as [H1 H2]. split.
  - intros H. destruct (N.lt_ge_cases (dec_value s) (2 ^ 256)) as [Hlt|Hge].
    + destruct (H1 Hlt) as (b & Hb & Hl & Hok & Hv). rewrite Hb in H. injection H as <-. auto.
    + rewrite (H2 Hge) in H. discriminate.
  - intros (Hl & Hok & Hv).
    assert (Hlt : dec_value s < 2 ^ 256).
    { rewrite <- Hv. pose proof (bytes_value_lt bytes Hok) as L. rewrite Hl in L.
      change (len (repeat 0 32)) with (N.of_nat 32) in *.
      replace (256 ^ N.of_nat 32) with (2 ^ 256) in L by (vm_compute; reflexivity). exact L. }
    destruct (H1 Hlt) as (b & Hb & Hl' & Hok' & Hv'). rewrite Hb. f_equal.
    apply bytes_value_inj; congruence.
Qed.
Print Assumptions u256_from_str_ok_iff.

Theorem u256_from_str_err_iff : forall s,
  all_digits s -> (u256_from_str s = Err <-> 2 ^ 256 <= dec_value s).
Proof.
  intros s Hd. destruct (u256_from_str_correct s Hd) as [H1 H2]. split; [|exact H2].
  intros H. destruct (N.lt_ge_cases (dec_value s) (2 ^ 256)) as [Hlt|Hge]; [|exact Hge].
  destruct (H1 Hlt) as (b & Hb & _). rewrite Hb in H. discriminate.
Qed.

(* a character that is not a decimal digit anywhere in the string gives Err *)
Theorem u256_from_str_invalid : forall s,
  Exists (fun c => ~ (48 <= c <= 57)) s -> u256_from_str s = Err.
Proof.
  intros s Hex. unfold u256_from_str.
  destruct (MAX_DIGITS <? len (trim_zeros s)); [reflexivity|].
  apply from_str_loop_invalid, trim_zeros_invalid, Hex.
Qed.
Print Assumptions u256_from_str_invalid.

(* from_str never panics, on any input *)
Theorem u256_from_str_no_panic : forall s, u256_from_str s <> Panic.
Proof.
  intros s. unfold u256_from_str.
  destruct (MAX_DIGITS <? len (trim_zeros s)); [discriminate|apply from_str_loop_no_panic].
Qed.

(** * Display: the inner loop *)

Lemma bytes_value_eq0 : forall b r, (bytes_value (b :: r) =? 0) = (b =? 0) && (bytes_value r =? 0).
Proof.
  intros b r. rewrite bytes_value_cons.
  pose proof (pow256_pos (len r)) as Hpos.
  destruct (N.eqb_spec b 0) as [->|Hb]; cbn [andb].
  - rewrite N.mul_0_l, N.add_0_l. reflexivity.
  - apply N.eqb_neq. nia.
Qed.

(* One round of the inner loop divides the number (with `carry` prepended as an extra most
   significant digit) by 10; the final carry is the remainder; is_zero stays true iff it was
   true and the quotient is 0. *)
Lemma div10_loop_spec : forall bs carry z bs' c' z',
  bytes_ok bs -> carry < 10 ->
  div10_loop bs carry z = (bs', c', z') ->
  length bs' = length bs /\ bytes_ok bs' /\ c' < 10 /\
  bytes_value bs' * 10 + c' = carry * 256 ^ len bs + bytes_value bs /\
  z' = z && (bytes_value bs' =? 0).
Proof.
  induction bs as [|b r IHr]; intros carry z bs' c' z' Hok Hc H.
  - cbn [div10_loop] in H. injection H as <- <- <-.
    repeat split; [constructor|exact Hc|cbn; lia|].
    cbn. now rewrite andb_true_r.
  - inversion Hok as [|b0 r0 Hb Hr]; subst.
    cbn [div10_loop] in H.
    set (v := carry * 256 + b) in *.
    assert (Hv : v < 2560) by (unfold v; lia).
    assert (Hq : (v / 10) mod 256 = v / 10) by lia.
    rewrite Hq in H.
    destruct (div10_loop r (v mod 10) (if v / 10 =? 0 then z else false)) as [[r' c0] z0] eqn:E.
    injection H as <- <- <-.
    assert (Hm10 : v mod 10 < 10) by (apply N.mod_lt; lia).
    destruct (IHr _ _ _ _ _ Hr Hm10 E) as (Hl & Hok' & Hc0 & Hval & Hz).
    repeat split.
    + cbn [length]. now rewrite Hl.
    + constructor; [lia|exact Hok'].
    + exact Hc0.
    + rewrite !bytes_value_cons. rewrite Hl. cbn [length].
      rewrite Nat2N.inj_succ, N.pow_succ_r'.
      set (P := 256 ^ len r) in *.
      pose proof (N.div_mod' v 10) as Hdm.
      assert (Hm : v * P = (10 * (v / 10) + v mod 10) * P) by (rewrite <- Hdm; reflexivity).
      unfold v in Hm at 1. lia.
    + rewrite Hz, bytes_value_eq0.
      destruct (v / 10 =? 0); destruct z; reflexivity.
Qed.

(** * Display: the outer loop *)

Definition digit_char (d : N) : N := 48 + d.

Lemma u256_display_unfold : forall b, u256_display b = map digit_char (display_loop 78 b []).
Proof. reflexivity. Qed.

(* With enough fuel (value < 10^fuel, fuel > 0) the loop prepends to `ds` the canonical digits
   of the value: the do-while loop stops exactly when the quotient becomes 0. *)
Lemma display_loop_spec : forall fuel bytes ds,
  bytes_ok bytes -> bytes_value bytes < 10 ^ N.of_nat fuel -> fuel <> O ->
  exists pre,
    display_loop fuel bytes ds = pre ++ ds /\
    Forall (fun d => d < 10) pre /\
    dec_value (map digit_char pre) = bytes_value bytes /\
    match pre with [] => False | d :: r => d = 0 -> r = [] end.
Proof.
  induction fuel as [|f IHf]; intros bytes ds Hok Hlt Hf; [congruence|].
  cbn [display_loop].
  destruct (div10_loop bytes 0 true) as [[bytes' c] z] eqn:E.
  assert (H010 : 0 < 10) by lia.
  destruct (div10_loop_spec _ _ _ _ _ _ Hok H010 E) as (Hl & Hok' & Hc & Hval & Hz).
  cbn [andb] in Hz. rewrite N.mul_0_l, N.add_0_l in Hval.
  destruct z.
  - (* quotient 0: this was the last digit *)
    assert (Hq : bytes_value bytes' = 0) by lia.
    exists [c]. split; [|split; [|split]].
    + reflexivity.
    + constructor; [exact Hc|constructor].
    + cbn [map]. rewrite dec_value_cons. cbn [length]. unfold digit_char, dec_value. cbn [dec_value_acc].
      change (N.of_nat 0) with 0. rewrite N.pow_0_r. lia.
    + intros _. reflexivity.
  - assert (Hq : bytes_value bytes' <> 0) by lia.
    assert (Hlt' : bytes_value bytes' < 10 ^ N.of_nat f).
    { rewrite Nat2N.inj_succ, N.pow_succ_r' in Hlt. lia. }
    assert (Hf' : f <> O).
    { intros ->. change (N.of_nat 0) with 0 in Hlt'. rewrite N.pow_0_r in Hlt'. lia. }
    destruct (IHf bytes' (c :: ds) Hok' Hlt' Hf') as (pre & Hpre & Hdig & Hdv & Hcan).
    exists (pre ++ [c]). split; [|split; [|split]].
    + rewrite Hpre, <- app_assoc. reflexivity.
    + apply Forall_app. split; [exact Hdig|constructor; [exact Hc|constructor]].
    + rewrite map_app. cbn [map]. rewrite dec_value_snoc, Hdv. unfold digit_char. lia.
    + destruct pre as [|d r]; [contradiction|]. cbn [app].
      intros Hd0. specialize (Hcan Hd0). subst r d.
      cbn [map] in Hdv. rewrite dec_value_cons in Hdv. cbn [length] in Hdv.
      change (N.of_nat 0) with 0 in Hdv. rewrite N.pow_0_r in Hdv.
      unfold digit_char, dec_value in Hdv. cbn [dec_value_acc] in Hdv. lia.
Qed.

Lemma map_digit_char_digits : forall ds,
  Forall (fun d => d < 10) ds -> all_digits (map digit_char ds).
Proof.
  induction ds as [|d r IHr]; intros H; cbn [map]; [constructor|].
  inversion H as [|d0 r0 Hd Hr]; subst. constructor; [unfold digit_char; lia|now apply IHr].
Qed.

(* MAIN THEOREM (Display).  For a 32-byte input, the printed text is the canonical decimal
   representation of the big-endian value (only digits, no leading zero except for "0"),
   and parsing it back gives the same 32 bytes. *)
Theorem u256_display_correct : forall b,
  length b = 32%nat -> bytes_ok b ->
  all_digits (u256_display b) /\
  no_leading_zero (u256_display b) /\
  dec_value (u256_display b) = bytes_value b /\
  u256_from_str (u256_display b) = Ok b.
Proof.
  intros b Hl Hok.
  assert (Hlt : bytes_value b < 2 ^ 256).
  { pose proof (bytes_value_lt b Hok) as L. rewrite Hl in L.
    replace (256 ^ N.of_nat 32) with (2 ^ 256) in L by (vm_compute; reflexivity). exact L. }
  assert (Hlt' : bytes_value b < 10 ^ N.of_nat 78).
  { change (N.of_nat 78) with 78. pose proof pow_10_78. lia. }
  destruct (display_loop_spec 78 b [] Hok Hlt' ltac:(discriminate)) as (pre & Hpre & Hdig & Hdv & Hcan).
  rewrite app_nil_r in Hpre.
  rewrite u256_display_unfold, Hpre.
  pose proof (map_digit_char_digits pre Hdig) as Hall.
  repeat split.
  - exact Hall.
  - destruct pre as [|d r]; [contradiction|]. cbn [map no_leading_zero].
    intros Hd. unfold digit_char in Hd. assert (d = 0) by lia.
    rewrite (Hcan H). reflexivity.
  - exact Hdv.
  - apply u256_from_str_ok_iff; [exact Hall|]. auto.
Qed.
Print Assumptions u256_display_correct.

(* The canonical decimal text of a number is unique, so "the canonical decimal of v" is well
   defined: two digit strings without leading zeros and with the same value are equal. *)
Lemma canonical_lower_bound : forall t,
  all_digits t -> no_leading_zero t -> t <> [48] -> 10 ^ (len t - 1) <= dec_value t.
Proof.
  intros t Hd Hn Hne. destruct t as [|c r]; [contradiction|].
  inversion Hd as [|c0 r0 Hc Hr]; subst. cbn [no_leading_zero] in Hn.
  rewrite dec_value_cons. cbn [length]. rewrite Nat2N.inj_succ.
  replace (N.succ (len r) - 1) with (len r) by lia.
  assert (c <> 48) by (intros ->; apply Hne; now rewrite Hn).
  assert (1 <= c - 48) by lia. pose proof (pow10_pos (len r)). nia.
Qed.

Lemma dec_value_inj_same_length : forall a b,
  all_digits a -> all_digits b -> length a = length b -> dec_value a = dec_value b -> a = b.
Proof.
  induction a as [|x a' IHa]; intros b Ha Hb Hlen Hv.
  - destruct b; [reflexivity|discriminate].
  - destruct b as [|y b']; [discriminate|].
    inversion Ha as [|x0 a0 Hx Ha']; subst. inversion Hb as [|y0 b0 Hy Hb']; subst.
    cbn [length] in Hlen. injection Hlen as Hlen.
    rewrite !dec_value_cons in Hv. rewrite Hlen in Hv.
    pose proof (dec_value_lt_pow a' Ha') as La. pose proof (dec_value_lt_pow b' Hb') as Lb.
    rewrite Hlen in La.
    destruct (N.div_mod_unique (10 ^ len b') (x - 48) (y - 48) (dec_value a') (dec_value b') La Lb) as [E1 E2].
    { lia. }
    assert (x = y) by lia. subst y. f_equal. apply IHa; assumption.
Qed.

Theorem canonical_decimal_unique : forall t1 t2,
  all_digits t1 -> all_digits t2 -> no_leading_zero t1 -> no_leading_zero t2 ->
  dec_value t1 = dec_value t2 -> t1 = t2.
Proof.
  assert (Hzero : forall t, all_digits t -> no_leading_zero t -> dec_value t = 0 -> t = [48]).
  { intros t Hd Hn Hv. destruct t as [|c r]; [contradiction|].
    inversion Hd as [|c0 r0 Hc Hr]; subst. cbn [no_leading_zero] in Hn.
    rewrite dec_value_cons in Hv. pose proof (pow10_pos (len r)).
    assert (c = 48) by nia. subst c. now rewrite Hn. }
  assert (Hlen : forall t1 t2, all_digits t1 -> all_digits t2 -> no_leading_zero t1 ->
            t1 <> [48] -> dec_value t1 = dec_value t2 -> (length t1 <= length t2)%nat).
  { intros t1 t2 H1 H2 N1 Ne Hv.
    pose proof (canonical_lower_bound t1 H1 N1 Ne) as L1.
    pose proof (dec_value_lt_pow t2 H2) as U2.
    destruct (Nat.le_gt_cases (length t1) (length t2)) as [Hle|Hgt]; [exact Hle|].
    assert (10 ^ len t2 <= 10 ^ (len t1 - 1)) by (apply N.pow_le_mono_r; lia). lia. }
  intros t1 t2 H1 H2 N1 N2 Hv.
  destruct (list_eq_dec N.eq_dec t1 [48]) as [E1|E1].
  - subst t1. symmetry. apply Hzero; [assumption..|]. rewrite <- Hv. reflexivity.
  - destruct (list_eq_dec N.eq_dec t2 [48]) as [E2|E2].
    + subst t2. exfalso. apply E1. apply Hzero; [assumption..|]. rewrite Hv. reflexivity.
    + apply dec_value_inj_same_length; try assumption.
      apply Nat.le_antisymm; [apply Hlen|apply Hlen]; auto.
Qed.
Print Assumptions canonical_decimal_unique.
