(* C09 — for_while iterates 0,1,2,... and stops at the first Left *)
From Coq Require Import List NArith Arith.
Import ListNotations.
Require Import SV.Simp.Core SV.Layout.Value SV.Comp.ForWhile SV.Lang.Sem SV.Proofs.ForWhileCorrect.

(* the vector-of-tasks construction (split_at_mut / copy_from_slice) yields the documented sequence *)
Theorem C09_task_stack : forall n, build_stack n = seq_tasks n.
Proof. exact build_stack_spec. Qed.
Print Assumptions C09_task_stack.

(* loop specification: calls G acc i for i = start, start+1, ...; returns the first Left without evaluating later
   iterations; Right acc after exactly k iterations; fails iff an evaluated iteration fails *)
Theorem C09_loop_spec : forall G k i a,
  loop G 0 i a = Val (VR a) /\
  loop G (S k) i a = match G a i with
                     | Val (VL b) => Val (VL b)
                     | Val (VR a') => loop G k (S i) a'
                     | Val _ => Stuck | Failed => Failed | Stuck => Stuck end.
Proof. intros; split; reflexivity. Qed.
Print Assumptions C09_loop_spec.

(* what the generated code computes, unconditionally: all iterations but the very last are inspected,
   the last result is passed through unexamined (loopU); the counter is the integer i at type u(2^n) *)
Theorem C09_for_while_exact : forall jet wit n f a c,
  eval jet wit (for_while n f) (VP a c) =
  loopU (fun a i => eval jet wit f (VP a (VP c (uint_sval n (N.of_nat i))))) (2^(2^n)) 0 a.
Proof. exact for_while_exact. Qed.
Print Assumptions C09_for_while_exact.

(* ... which is the specified loop as soon as every result the body produces is a sum —
   the hypothesis the proof forced; typing of the body (result type Either<B,A>) discharges it, see C01 *)
Theorem C09_for_while_correct : forall G k,
  (forall a i, match G a i with Val (VL _) | Val (VR _) => True | Val _ => False | _ => True end) ->
  forall i a, loopU G (S k) i a = loop G (S k) i a.
Proof. exact loopU_eq_loop. Qed.
Print Assumptions C09_for_while_correct.

Example C09_example : forall jet wit,
  (* body: exit with Left(counter) when the counter's top bit is set; 2-bit counter: exits at i = 2 *)
  eval jet wit (for_while 1 (Comp (Pair (Drop (Drop (Take Iden))) (Pair (Drop (Drop Iden)) (Take Iden))) (Case (InjR (Drop (Drop Iden))) (InjL (Drop (Take Iden))))))
       (VP VU VU) = Val (VL (VP (VR VU) (VL VU))).
Proof. intros. vm_compute. reflexivity. Qed.
