(* C02 — what satisfy returns spends the committed CMR (model-level parts; CMR hashing, bit encoding and
   principal type inference belong to simplicity-lang and are covered by the differential gate only: partial) *)
From Coq Require Import List NArith Bool.
Import ListNotations.
Require Import SV.Base.Util SV.Base.Res SV.Simp.Core SV.Simp.Skel SV.Layout.Ty SV.Layout.Value SV.Lang.Ast SV.Comp.Compile
               SV.Wit.Consistent SV.Proofs.WitnessCorrect.

(* the commitment root is independent of witnesses: neither names nor values of witness nodes enter it, and
   code generation itself never looks at witness values (compile has no witness argument at all) *)
Theorem C02_commitment_ignores_witnesses : forall M h0 h1 h2 hjet htok f t,
  mr M h0 h1 h2 hjet htok (rename_wit f t) = mr M h0 h1 h2 hjet htok t.
Proof. exact mr_rename. Qed.
Print Assumptions C02_commitment_ignores_witnesses.

(* every value that a successful consistency check lets through has exactly the layout of the declared
   witness type, so nothing ill-typed reaches the encoder or the Bit Machine *)
Theorem C02_consistent_values_typed : forall vals decl, NoDup (map fst vals) -> forallb (fun nv => value_wf (snd nv)) vals = true ->
  wit_consistent vals decl = true ->
  forall n t v, decl n = Some t -> lookupN vals n = Some v ->
    populate vals n = Some (structural v) /\ vty (structural v) (struct_ty t) = true.
Proof. exact consistent_delivers. Qed.
Print Assumptions C02_consistent_values_typed.

(* type-correct witnesses never drive the compiled program into an ill-shaped state: the evaluation of the compiled
   main is the source run (C01), and the source run of a well-typed program is never stuck (type safety) *)
Require Import SV.Lang.Sem SV.Lang.WT SV.Proofs.CompileCorrect SV.Proofs.SemSafe.
Theorem C02_never_stuck : forall jet wit args dbg jsig W,
  (forall n t, W n = Some t -> exists v, wit n = Some v /\ vty v (struct_ty t) = true) ->
  (forall j ps r a v, jsig j = Some (ps, r) -> vty a (struct_ty (TTuple ps)) = true -> jet j a = Some v -> vty v (struct_ty r) = true) ->
  (jet verify_jet (VR VU) = Some VU /\ jet verify_jet (VL VU) = None) ->
  forall main t, wt_program jsig W args main = true -> compile_program dbg args main = Ok t ->
    eval jet wit t VU <> Stuck.
Proof.
  intros jet wit args dbg jsig W H1 H2 H3 main t Hw HC.
  rewrite (compile_program_correct jet wit args dbg jsig W H1 H2 H3 main t Hw HC).
  exact (sem_program_safe jet wit args jsig W H1 H2 main Hw).
Qed.
Print Assumptions C02_never_stuck.
