(* C01 — placeholder until Proofs/CompileCorrect.v lands: states the executable facts already available. *)
From Coq Require Import List NArith.
Require Import SV.Simp.Core SV.Comp.Compile.
Theorem C01_scribe_eval : forall jet wit w x, eval jet wit (scribe w) x = Val w.
Proof. intros jet wit w. induction w; intros x; cbn; auto; try (rewrite IHw; reflexivity). rewrite IHw1, IHw2. reflexivity. Qed.
Print Assumptions C01_scribe_eval.
