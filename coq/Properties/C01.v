(* C01 — the compiled program behaves as the source semantics prescribe.
   Only statements; each closed by [exact] of a lemma proved in Proofs/. *)
From Coq Require Import List NArith Bool.
Import ListNotations.
Require Import SV.Base.Res SV.Base.BT SV.Simp.Core SV.Layout.Ty SV.Layout.Value SV.Lang.Ast SV.Comp.Select
               SV.Comp.Compile SV.Lang.Sem SV.Lang.WT SV.Proofs.EvalBasics SV.Proofs.CompileCorrect.

Section C01.
Variable jet : N -> sval -> option sval.      (* jet oracle: None = the jet fails *)
Variable wit : N -> option sval.              (* supplied witness values, in structural form *)
Variable args : N -> option value.            (* arguments of the template *)
Variable dbg : bool.                          (* include_debug_symbols *)
Variable jsig : N -> option (list ty * ty).   (* jet signatures *)
Variable W : N -> option ty.                  (* declared witness types *)

(* the run-time environment agrees with the declarations the program was checked against *)
Definition env_ok : Prop :=
  (forall n t, W n = Some t -> exists v, wit n = Some v /\ vty v (struct_ty t) = true) /\
  (forall j ps r a v, jsig j = Some (ps, r) -> vty a (struct_ty (TTuple ps)) = true -> jet j a = Some v -> vty v (struct_ty r) = true) /\
  (jet verify_jet (VR VU) = Some VU /\ jet verify_jet (VL VU) = None).

(* every expression, in every scope: the emitted term computes the value the source semantics prescribes
   (in particular the value reaching each assert!, unwrap* and jet is the prescribed one: these are
   sub-expressions), and that value inhabits the layout of the expression's type *)
Theorem C01_compile_correct : env_ok -> forall G sc v r t e,
  wt jsig W args G e = true -> Inv G sc v r -> compile dbg args sc e = Ok t ->
  eval jet wit t v = sem jet wit args r e /\
  (forall w, sem jet wit args r e = Val w -> vty w (struct_ty (ty_of e)) = true).
Proof. intros (H1 & H2 & H3). exact (compile_correct jet wit args dbg jsig W H1 H2 H3). Qed.

(* whole programs, for both values of the debug flag: executing the compiled main on the unit input
   succeeds exactly when the source evaluation of main finishes without a panic *)
Theorem C01_program_correct : env_ok -> forall main t,
  wt_program jsig W args main = true -> compile_program dbg args main = Ok t ->
  eval jet wit t VU = sem_program jet wit args main.
Proof. intros (H1 & H2 & H3). exact (compile_program_correct jet wit args dbg jsig W H1 H2 H3). Qed.
End C01.
Check C01_compile_correct.
Print Assumptions C01_compile_correct.
Print Assumptions C01_program_correct.

(* non-vacuity: a concrete program with a let, a match and an unwrap satisfies the hypotheses *)
Example C01_example :
  let prog := EBlock (TTuple []) [(Some (PId 1%N), EWitness (TOption (TUInt 3)) 7%N);
                                  (None, EMatch (TTuple []) (EVar (TOption (TUInt 3)) 1%N) None (EBlock (TTuple []) [] None)
                                                 (Some 2%N) (EBlock (TTuple []) [(Some PIgn, ECall (TUInt 3) BDebug [EVar (TUInt 3) 2%N])] None))] None in
  wt_program (fun _ => None) (fun n => if N.eqb n 7 then Some (TOption (TUInt 3)) else None) (fun _ => None) prog = true
  /\ exists t, compile_program true (fun _ => None) prog = Ok t.
Proof. vm_compute. split; [reflexivity|eexists; reflexivity]. Qed.
