(* C10 — a variable denotes its nearest, most recent binding *)
From Coq Require Import List NArith Arith.
Import ListNotations.
Require Import SV.Base.Util SV.Base.BT SV.Simp.Core SV.Layout.Ty SV.Layout.Value SV.Lang.Ast SV.Comp.Select SV.Lang.Sem SV.Proofs.EvalBasics SV.Proofs.CompileCorrect.

(* the selector emitted for x in a pattern returns the first (leftmost, pre-order) binding of x; no side condition *)
Theorem C10_get_correct : forall jet wit p v r x, bindp p v = Some r ->
  match get p x with
  | Some s => exists w, lookupN r x = Some w /\ eval jet wit (sel s) v = Val w
  | None => lookupN r x = None
  end.
Proof. exact get_correct. Qed.
Print Assumptions C10_get_correct.

(* a tuple/array pattern binds its components left to right against the balanced-tree shape of the value *)
Theorem C10_pattern_components : forall bps ves,
  Forall2 (fun bp ve => bindp bp (fst ve) = Some (snd ve)) bps ves ->
  bindp (bt BProd BIgn bps) (bt VP VU (map fst ves)) = Some (concat (map snd ves)).
Proof. exact bindp_bt. Qed.
Print Assumptions C10_pattern_components.

(* pushing a pattern puts its bindings in front of (= shadowing) all earlier ones; lookup takes the first match *)
Theorem C10_newest_first : forall p sc vp v b r x, sc <> [] ->
  bindp (of_pat p) vp = Some b -> bindp (input_pat sc) v = Some r ->
  bindp (input_pat (p :: sc)) (VP vp v) = Some (b ++ r) /\
  lookupN (b ++ r) x = match lookupN b x with Some w => Some w | None => lookupN r x end.
Proof.
  intros p sc vp v b r x Hne Hb Hr. split; [|apply lookupN_app].
  rewrite input_pat_cons by assumption. cbn [bindp]. now rewrite Hb, Hr.
Qed.
Print Assumptions C10_newest_first.

(* blocks, arms and function bodies extend the environment functionally: the source semantics threads [r]
   lexically (Lang/Sem.v), and C01_compile_correct shows the generated code agrees with it in every scope *)
Example C10_shadow_example : forall jet wit,
  (* let a = 1; let (a, b) = (2, a); b   evaluates to 1 and   ...; a   to 2 *)
  let one := AUInt 3 1 in let two := AUInt 3 2 in
  let u8 := TUInt 3 in
  let prog (res:N) := EBlock u8 [(Some (PId 1%N), EConst u8 one);
                                 (Some (PTup [PId 1%N; PId 2%N]), ETuple (TTuple [u8;u8]) [EConst u8 two; EVar u8 1%N])]
                                (Some (EVar u8 res)) in
  sem jet wit (fun _ => None) [] (prog 2%N) = Val (structural one) /\
  sem jet wit (fun _ => None) [] (prog 1%N) = Val (structural two).
Proof. intros. vm_compute. split; reflexivity. Qed.
