(* C18 — pruning never changes the verdict (model of pruning on the term tree; the IHR-keyed sharing and the
   witness shrinking of simplicity-lang's pruner are covered by the differential gate only: partial) *)
From Coq Require Import List NArith.
Require Import SV.Simp.Core SV.Simp.Prune.

Theorem C18_prune_preserves : forall jet wit t a, eval jet wit (prune jet wit t a) a = eval jet wit t a.
Proof. exact prune_preserves. Qed.
Print Assumptions C18_prune_preserves.

Theorem C18_prune_removes_untaken : forall jet wit t a, case_free_on jet wit (prune jet wit t a) a.
Proof. exact prune_case_free. Qed.
Print Assumptions C18_prune_removes_untaken.
