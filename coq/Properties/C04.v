(* C04 — the front end accepts exactly the well-typed programs.
   Direction "accepted => well-typed" is a theorem over the model of ast.rs (Front/Analyze.v) against the
   typing judgement Lang/WT.v; each static rule has its own rejection lemma.  The converse (well-typed programs are
   never rejected) is checked against an independent generator written from the book: partial. *)
From Coq Require Import List NArith Arith Bool.
Import ListNotations.
Require Import SV.Base.Util SV.Base.Res SV.Layout.Ty SV.Layout.Value SV.Lang.Ast SV.Lang.WT SV.Front.PTree SV.Front.Analyze
               SV.Proofs.AnalyzeSound.

Theorem C04_analyze_sound : forall jlook jsig balias main_name p main ps ws tr W args,
  analyze_program jlook jsig balias main_name p = Ok (main, ps, ws, tr) ->
  (forall n t, lookupN ws n = Some t -> W n = Some t) ->
  args_consistent args ps -> wt_program jsig W args main = true.
Proof. exact analyze_sound. Qed.
Print Assumptions C04_analyze_sound.

Theorem C04_analyze_no_panic : forall jlook jsig balias main_name p,
  program_wf p = true -> analyze_program jlook jsig balias main_name p <> Panic.
Proof. exact analyze_no_panic. Qed.
Print Assumptions C04_analyze_no_panic.

(* one lemma per static rule *)
Theorem C04_witness_only_in_main : forall jlook jsig balias al fn n t s,
  analyze_expr jlook jsig balias al fn false (PWitness n) t s = Err.
Proof. exact witness_outside_main_rejected. Qed.
Print Assumptions C04_witness_only_in_main.

Theorem C04_witness_once : forall jlook jsig balias al fn is_main n t s t0,
  lookupN (wits s) n = Some t0 -> analyze_expr jlook jsig balias al fn is_main (PWitness n) t s = Err.
Proof. exact witness_reuse_rejected. Qed.
Print Assumptions C04_witness_once.

Theorem C04_list_below_bound : forall jlook jsig balias al fn is_main es a k s,
  2^k <= length es -> analyze_expr jlook jsig balias al fn is_main (PList es) (TList a k) s = Err.
Proof. exact list_too_long_rejected. Qed.
Print Assumptions C04_list_below_bound.

Theorem C04_tuple_size : forall jlook jsig balias al fn is_main es tys s,
  length es <> length tys -> analyze_expr jlook jsig balias al fn is_main (PTuple es) (TTuple tys) s = Err.
Proof. exact tuple_size_rejected. Qed.
Print Assumptions C04_tuple_size.

Theorem C04_array_size : forall jlook jsig balias al fn is_main es a n s,
  length es <> n -> analyze_expr jlook jsig balias al fn is_main (PArray es) (TArray a n) s = Err.
Proof. exact array_size_rejected. Qed.
Print Assumptions C04_array_size.

Theorem C04_unknown_variable : forall jlook jsig balias al fn is_main x t s,
  get_variable (vars s) x = None -> analyze_expr jlook jsig balias al fn is_main (PVar x) t s = Err.
Proof. exact unknown_variable_rejected. Qed.
Print Assumptions C04_unknown_variable.

Theorem C04_pattern_binds_once : forall balias al F p a e s te c,
  resolve balias al a = Ok te -> pat_ctx p te = Some c -> ~ NoDup (map fst c) ->
  forall r, stmt_step balias al F (Some (p, a), e) s <> Ok r.
Proof. exact let_dup_var_rejected. Qed.
Print Assumptions C04_pattern_binds_once.

Theorem C04_tuple_pattern_arity : forall balias al F ps a e s tys,
  resolve balias al a = Ok (TTuple tys) -> length ps <> length tys ->
  forall r, stmt_step balias al F (Some (PTup ps, a), e) s <> Ok r.
Proof. exact let_tuple_arity_rejected. Qed.
Print Assumptions C04_tuple_pattern_arity.

(* witness and parameter tables have pairwise distinct names *)
Theorem C04_tables_nodup : forall jlook jsig balias main_name p main ps ws tr,
  analyze_program jlook jsig balias main_name p = Ok (main, ps, ws, tr) -> NoDup (map fst ps) /\ NoDup (map fst ws).
Proof. exact params_wits_nodup. Qed.
Print Assumptions C04_tables_nodup.

(* C14(b): tracked calls get ids in analysis order; distinct call sites give distinct entries *)
Theorem C14b_tracked_distinct : forall jlook jsig balias main_name p main ps ws tr,
  analyze_program jlook jsig balias main_name p = Ok (main, ps, ws, tr) ->
  NoDup (map fst (calls_program p)) -> NoDup (map fst tr).
Proof. exact tracked_ids. Qed.
Print Assumptions C14b_tracked_distinct.

(* ---- completeness: every well-typed AST is produced, from its erasure, by the analysis; together with soundness the model
   accepts EXACTLY the typed ASTs that are well typed and obey the static rules beyond typing, src_ok_main (witness used once
   and only in main, distinct pattern / parameter names, for_while counter <= u16, arms bind identifiers, constants have a
   literal, jets have a name). ---- *)
Require Import SV.Front.Erase SV.Proofs.AnalyzeComplete.

Theorem C04_analyze_complete : forall jlook jsig balias main_name W args jname spn main,
  wt_program jsig W args main = true ->
  src_ok_main jlook jname main = true ->
  exists ps ws tr,
    analyze_program jlook jsig balias main_name
      (erase_program jname (fname_of main_name main) spn main_name main) = Ok (main, ps, ws, tr) /\
    (forall n t, lookupN ws n = Some t -> W n = Some t) /\
    args_consistent args ps.
Proof. exact analyze_complete_canonical. Qed.
Print Assumptions C04_analyze_complete.

Theorem C04_accepts_exactly : forall jlook jsig balias main_name jname W args main,
  (forall n j, jlook n = Some j -> jlook (jname j) = Some j) ->
  (exists p ps ws tr,
     analyze_program jlook jsig balias main_name p = Ok (main, ps, ws, tr) /\
     (forall n t, lookupN ws n = Some t -> W n = Some t) /\ args_consistent args ps)
  <->
  wt_program jsig W args main = true /\ src_ok_main jlook jname main = true.
Proof. exact accepts_exactly. Qed.
Print Assumptions C04_accepts_exactly.
