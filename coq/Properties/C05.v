(* C05 — satisfy type-checks witnesses and delivers each value to its name *)
From Coq Require Import List NArith Bool Permutation.
Import ListNotations.
Require Import SV.Base.Util SV.Simp.Core SV.Layout.Ty SV.Layout.Value SV.Lang.Ast SV.Lang.Sem SV.Wit.Consistent SV.Proofs.WitnessCorrect.

Theorem C05_consistent_spec : forall vals decl,
  wit_consistent vals decl = false <-> exists n v t, In (n,v) vals /\ decl n = Some t /\ type_of v <> t.
Proof. exact wit_consistent_spec. Qed.
Print Assumptions C05_consistent_spec.

Theorem C05_order_independent : forall vals vals' decl, Permutation vals vals' -> wit_consistent vals decl = wit_consistent vals' decl.
Proof. exact wit_consistent_perm. Qed.
Print Assumptions C05_order_independent.

Theorem C05_undeclared_ignored : forall n v vals decl, decl n = None -> wit_consistent ((n,v) :: vals) decl = wit_consistent vals decl.
Proof. exact wit_consistent_undeclared_ignored. Qed.
Print Assumptions C05_undeclared_ignored.

(* delivery: the node of witness::n is populated with the structural form of the value supplied under n, which has
   exactly the declared layout — so (with C01) the expression witness::n evaluates to the supplied value and no
   ill-typed value reaches the encoder or the Bit Machine *)
Theorem C05_delivery : forall vals decl, NoDup (map fst vals) -> forallb (fun nv => value_wf (snd nv)) vals = true ->
  wit_consistent vals decl = true ->
  forall n t v, decl n = Some t -> lookupN vals n = Some v ->
    populate vals n = Some (structural v) /\ vty (structural v) (struct_ty t) = true.
Proof. exact consistent_delivers. Qed.
Print Assumptions C05_delivery.

Theorem C05_witness_expression : forall jet args vals r t n v, lookupN vals n = Some v ->
  sem jet (populate vals) args r (EWitness t n) = Val (structural v).
Proof. intros. cbn. unfold populate. now rewrite H. Qed.
Print Assumptions C05_witness_expression.
