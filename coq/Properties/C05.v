(* C05 — satisfy type-checks witnesses and delivers each value to its name *)
From Coq Require Import List NArith Bool Permutation.
Import ListNotations.
Require Import SV.Base.Util SV.Simp.Core SV.Layout.Ty SV.Layout.Value SV.Lang.Ast SV.Lang.Sem SV.Wit.Consistent SV.Proofs.WitnessCorrect.

Theorem C05_consistent_spec : forall vals decl,
  wit_consistent vals decl = false <-> exists n v t, In (n,v) vals /\ decl n = Some t /\ type_of v <> t.
Proof. exact wit_consistent_spec. Qed.
Print Assumptions C05_consistent_spec.

Theorem C05_order_independent : forall vals vals' decl, Permutation vals vals' -> wit_consistent vals decl = wit_consistent vals' decl.
Proof. exact wit_consistent_perm. Qed.
Print Assumptions C05_order_independent.

Theorem C05_undeclared_ignored : forall n v vals decl, decl n = None -> wit_consistent ((n,v) :: vals) decl = wit_consistent vals decl.
Proof. exact wit_consistent_undeclared_ignored. Qed.
Print Assumptions C05_undeclared_ignored.

(* delivery: the node of witness::n is populated with the structural form of the value supplied under n, which has
   exactly the declared layout — so (with C01) the expression witness::n evaluates to the supplied value and no
   ill-typed value reaches the encoder or the Bit Machine *)
Theorem C05_delivery : forall vals decl, NoDup (map fst vals) -> forallb (fun nv => value_wf (snd nv)) vals = true ->
  wit_consistent vals decl = true ->
  forall n t v, decl n = Some t -> lookupN vals n = Some v ->
    populate vals n = Some (structural v) /\ vty (structural v) (struct_ty t) = true.
Proof. exact consistent_delivers. Qed.
Print Assumptions C05_delivery.

Theorem C05_witness_expression : forall jet args vals r t n v, lookupN vals n = Some v ->
  sem jet (populate vals) args r (EWitness t n) = Val (structural v).
Proof. intros. cbn. unfold populate. now rewrite H. Qed.
Print Assumptions C05_witness_expression.

(* ---- shrinking a witness value to the (inferred, smaller) type of its node: named.rs prune_value / prune_witness_values ---- *)
Require Import SV.Simp.Typing SV.Wit.Prune SV.Proofs.PruneCorrect.

(* the literal stack machine + bit encoding + byte padding + decoder of prune_value computes the structural description *)
Theorem C05_prune_value_is_prune : forall v t, prune_value_bytes v t = prune v t /\ prune_value v t = prune v t.
Proof. intros v t. split; [apply prune_value_bytes_eq_prune | apply prune_value_eq_prune]. Qed.
Print Assumptions C05_prune_value_is_prune.

(* its result has exactly the node's type; a value of the declared layout can be shrunk to every shrunk type; a value that
   already has the node's type is kept *)
Theorem C05_prune_typed_total : forall t' v t,
  (forall w, prune v t' = Some w -> vty w t' = true) /\
  (vty v t = true -> shrinks t' t = true -> exists w, prune v t' = Some w) /\
  (vty v t = true -> prune v t = Some v).
Proof. intros t' v t. split; [|split]. - intros w. apply prune_typed. - apply prune_total. - apply prune_id. Qed.
Print Assumptions C05_prune_typed_total.

(* every witness node of the satisfied program holds a value of exactly its own type, for a consistent witness map *)
Theorem C05_pruned_witnesses_typed : forall vals decl wty,
  NoDup (map fst vals) -> forallb (fun nv => value_wf (snd nv)) vals = true -> wit_consistent vals decl = true ->
  (forall n ty, wty n = Some ty -> exists T v, decl n = Some T /\ lookupN vals n = Some v /\ shrinks ty (struct_ty T) = true) ->
  forall n b, wty n = Some b -> exists v, prune_witness wty (populate vals) n = Some v /\ vty v b = true.
Proof. intros vals decl wty ND Hwf Hc H. apply prune_witness_typed. eapply consistent_witnesses_shrinkable; eauto. Qed.
Print Assumptions C05_pruned_witnesses_typed.

(* the program cannot tell the shrunk witnesses from the supplied ones: with typed jets, a program that is well typed with
   the witness nodes at the smaller types succeeds / fails alike on both *)
Theorem C05_pruning_is_unobservable : forall wty wit jsig_s jet,
  witnesses_shrinkable wty wit ->
  forall t,
  (forall j a b v w, jsig_s j = Some (a, b) -> vty v a = true -> jet j v = Some w -> vty w b = true) ->
  tj jsig_s wty t SUnit SUnit -> jets_on jet wit (jet_input_typed jsig_s) t VU ->
  ((exists v, eval jet wit t VU = Val v) /\ eval jet (prune_witness wty wit) t VU = Val VU) \/
  (eval jet wit t VU = Failed /\ eval jet (prune_witness wty wit) t VU = Failed).
Proof. exact prune_witness_program. Qed.
Print Assumptions C05_pruning_is_unobservable.
