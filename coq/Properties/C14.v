(* C14 (a) — debug symbols are behaviour-neutral *)
From Coq Require Import List NArith Arith Bool.
Import ListNotations.
Require Import SV.Base.Res SV.Simp.Core SV.Layout.Ty SV.Layout.Value SV.Lang.Ast SV.Comp.Select SV.Comp.Compile SV.Lang.Sem SV.Lang.WT
               SV.Proofs.EvalBasics SV.Proofs.CompileCorrect SV.Proofs.CompileTotal.

(* the marker wrapper  (false, args) ; assertl (drop body) cmr  behaves as  args ; body  on every input *)
Theorem C14_wrapper_neutral : forall jet wit dbg tr a body v,
  eval jet wit (with_debug dbg tr a body) v = bind (eval jet wit a v) (eval jet wit body).
Proof. exact with_debug_eval. Qed.
Print Assumptions C14_wrapper_neutral.

(* hence the debug build and the plain build of any well-typed expression evaluate alike *)
Theorem C14_debug_neutral : forall jet wit args jsig W,
  (forall n t, W n = Some t -> exists v, wit n = Some v /\ vty v (struct_ty t) = true) ->
  (forall j ps r a v, jsig j = Some (ps, r) -> vty a (struct_ty (TTuple ps)) = true -> jet j a = Some v -> vty v (struct_ty r) = true) ->
  (jet verify_jet (VR VU) = Some VU /\ jet verify_jet (VL VU) = None) ->
  forall G sc v r e t1 t2, wt jsig W args G e = true -> Inv G sc v r ->
    compile true args sc e = Ok t1 -> compile false args sc e = Ok t2 ->
    eval jet wit t1 v = eval jet wit t2 v.
Proof. exact debug_neutral. Qed.
Print Assumptions C14_debug_neutral.
