(* C19 — same source, same bytes.  Gallina functions are deterministic by construction; what needs proof is that
   no result depends on the ITERATION ORDER of a hash map.  Process identity, hash seeding and the CLI are
   runtime and covered by the direct gate only: partial. *)
From Coq Require Import List NArith Bool Permutation.
Import ListNotations.
Require Import SV.Layout.Ty SV.Layout.Value SV.Wit.Consistent SV.Proofs.WitnessCorrect.

Theorem C19_witness_check_order_independent : forall vals vals' decl,
  Permutation vals vals' -> wit_consistent vals decl = wit_consistent vals' decl.
Proof. exact wit_consistent_perm. Qed.
Print Assumptions C19_witness_check_order_independent.

Theorem C19_argument_check_order_independent : forall args ps ps',
  Permutation ps ps' -> args_consistent args ps = args_consistent args ps'.
Proof. exact args_consistent_perm. Qed.
Print Assumptions C19_argument_check_order_independent.
