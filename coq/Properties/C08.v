(* C08 — fold consumes list elements first to last, each exactly once *)
From Coq Require Import List NArith Arith.
Import ListNotations.
Require Import SV.Base.BT SV.Simp.Core SV.Layout.Ty SV.Layout.Value SV.Comp.Fold SV.Proofs.FoldCorrect.

(* specification of a strict left-to-right fold with the accumulator threaded through:
   foldF [] a = a ;  foldF (e :: l) a = F e a >>= foldF l   — hence each element exactly once, in list order,
   and failure exactly when an application that is reached fails *)
Theorem C08_fold_spec : forall jet wit f a e l,
  foldF jet wit f [] a = Val a /\
  foldF jet wit f (e :: l) a = bind (F jet wit f e a) (foldF jet wit f l).
Proof.
  intros. split; [reflexivity|]. unfold foldF. cbn [fold_left bind].
  destruct (F jet wit f e a); cbn [bind]; auto using fold_failed, fold_stuck.
Qed.
Print Assumptions C08_fold_spec.

(* the doubling construction of compile.rs computes that fold, for every bound 2^k and every length below it,
   whatever the function term f is and however the list value arose *)
Theorem C08_list_fold_correct : forall jet wit f k l a, 1 <= k -> length l < 2^k ->
  eval jet wit (list_fold k f) (VP (part_fold sval_block VP (k-1) l) a) = foldF jet wit f l a.
Proof. exact list_fold_correct. Qed.
Print Assumptions C08_list_fold_correct.

(* every well-typed list value is the canonical partition of a unique element sequence shorter than the bound *)
Theorem C08_list_values_canonical : forall T j lv,
  vty lv (part_fold sty_block SProd j (repeat T (2^(S j) - 1))) = true ->
  exists els, as_list j lv = Some els /\ lv = part_fold sval_block VP j els /\
              length els < 2^(S j) /\ Forall (fun x => vty x T = true) els.
Proof. exact typed_list_canonical. Qed.
Print Assumptions C08_list_values_canonical.

Example C08_example : forall jet wit,
  eval jet wit (list_fold 3 (Drop Iden)) (VP (part_fold sval_block VP 2 [VL VU; VR VU; VL VU]) (VR VU)) = Val (VR VU).
Proof. intros. vm_compute. reflexivity. Qed.
