(* C17 — names are opaque (grammar part).  The grammar is REGENERATED from /repo/src/minimal.pest on every run;
   the shape theorems are re-checked against it by vm_compute, the generic lemmas are about the PEG interpreter
   (Text/Peg.v, pest's semantics modelled from its sources and tied to the real parser pair-tree by pair-tree). *)
From Coq Require Import List NArith Arith Bool String.
Import ListNotations.
Require Import SV.Text.Peg SV.Text.PegShape SV.Gen.Grammar SV.Proofs.PegCorrect.

(* every keyword / builtin-type / builtin-alias / builtin-function / literal-atom rule has the shape
   (lit | ... | lit) ~ !ident_char with harmless literal order, no other bare word rule exists *)
Theorem C17_grammar_keywords_ok : keyword_shape_ok grammar = true.
Proof. exact grammar_keywords_ok. Qed.
Print Assumptions C17_grammar_keywords_ok.

Theorem C17_grammar_names_ok :
  function_name_ok grammar = true /\ alias_name_ok grammar = true
  /\ identifier_shape_ok grammar "identifier" = true
  /\ identifier_shape_ok grammar "witness_name" = true.
Proof. exact grammar_names_ok. Qed.
Print Assumptions C17_grammar_names_ok.

(* a keyword-shaped rule matches exactly when the maximal identifier run at that position IS one of its words *)
Theorem C17_keyword_exact : forall name, In name keyword_rules ->
  forall fuel a pos rest, kw_fuel <= fuel ->
    ev grammar fuel a (PId name) pos rest = kw_run_result (kw_words name) a name pos rest.
Proof. exact keyword_exact. Qed.
Print Assumptions C17_keyword_exact.

(* identifiers and witness names: an ASCII letter followed by the maximal run of [A-Za-z0-9_] *)
Theorem C17_identifier : forall fuel a pos rest, List.length (ident_run rest) + 6 <= fuel ->
  ev grammar fuel a (PId "identifier") pos rest = identifier_result a "identifier" pos rest.
Proof. exact identifier_spec. Qed.
Print Assumptions C17_identifier.

(* any identifier that is not EXACTLY a reserved word can be a function name / alias name / variable,
   whatever reserved word is a prefix of it *)
Theorem C17_function_names_opaque : forall s tail fuel a pos,
  ident_word s = true -> boundary tail = true -> List.length s + name_fuel <= fuel ->
  ev grammar fuel a (PId "function_name") pos (s ++ tail)
  = if mem_bytes s (kw_words "builtin_function") then RFail
    else ROk (pos + List.length s) tail (name_nodes a "function_name" "identifier" pos (pos + List.length s)).
Proof. exact names_opaque_function. Qed.
Print Assumptions C17_function_names_opaque.

Theorem C17_alias_names_opaque : forall s tail fuel a pos,
  ident_word s = true -> boundary tail = true -> List.length s + name_fuel <= fuel ->
  ev grammar fuel a (PId "alias_name") pos (s ++ tail)
  = if mem_bytes s (kw_words "builtin_type") || mem_bytes s (kw_words "builtin_alias") then RFail
    else ROk (pos + List.length s) tail (name_nodes a "alias_name" "identifier" pos (pos + List.length s)).
Proof. exact names_opaque_alias. Qed.
Print Assumptions C17_alias_names_opaque.

Theorem C17_variables_opaque : forall s tail fuel a pos,
  ident_word s = true -> head_ok is_expr_terminator tail = true -> mem_bytes s var_reserved = false ->
  var_fuel + List.length s <= fuel ->
  ev grammar fuel a (PId "single_expression") pos (s ++ tail)
  = ROk (pos + List.length s) tail (word_nodes a "single_expression" "variable_expr" pos (pos + List.length s)).
Proof. exact variable_expr_opaque. Qed.
Print Assumptions C17_variables_opaque.

Theorem C17_reserved_in_expressions : var_reserved = [bs "None"; bs "false"; bs "true"; bs "match"].
Proof. exact var_reserved_words. Qed.
Print Assumptions C17_reserved_in_expressions.
