(* C20 — compile errors quote the source lines they point at (and C14(b): source slicing for debug symbols) *)
From Coq Require Import List NArith Arith Bool.
Import ListNotations.
Require Import SV.Base.Res SV.Text.Span SV.Proofs.SpanCorrect.

(* pest's two line/column algorithms (LineIndex for pair starts, Position::line_col for pair ends) agree on every
   char-boundary offset of every valid UTF-8 file — CRLF, lone CR, tabs and multi-byte characters included *)
Theorem C20_line_col_agree : forall file o,
  valid_utf8 file = true -> o <= length file -> is_boundary file o = true ->
  line_col_position file o = line_col_index file o.
Proof. exact line_col_agree. Qed.
Print Assumptions C20_line_col_agree.

(* the rendered message of an error located at bytes [s,e) quotes exactly the lines a..min(b,|lines|), each
   `N | <line N verbatim, no terminator>`, numbers consecutive and existing; then underline and message *)
Theorem C20_render_quotes : forall file s e msg,
  valid_utf8 file = true -> file <> [] -> s <= e -> e <= length file ->
  is_boundary file s = true -> is_boundary file e = true ->
  exists sp,
    span_of_offsets file s e = Ok sp /\
    let a := line (sp_start sp) in
    let b := line (sp_end sp) in
    let L := lines file in
    let w := length (to_decimal b) in
    let last := Nat.min b (length L) in
    a = fst (lc file s) /\ b = fst (lc file e) /\
    1 <= a <= b /\ b <= length L + 1 /\
    (b = length L + 1 <-> e = length file /\ ends_lf file = true) /\
    (forall n, In n (seq a (last + 1 - a)) -> a <= n <= b /\ n - 1 < length L) /\
    render file sp msg =
      Ok (header w
          ++ concat (map (fun n => quote_line w n (nth (n - 1) L [])) (seq a (last + 1 - a)))
          ++ underline file sp ++ msg).
Proof. exact render_quotes. Qed.
Print Assumptions C20_render_quotes.

Theorem C20_render_no_panic : forall file s e msg,
  valid_utf8 file = true -> s <= e -> e <= length file ->
  is_boundary file s = true -> is_boundary file e = true ->
  exists sp out, span_of_offsets file s e = Ok sp /\ render file sp msg = Ok out.
Proof. exact render_no_panic. Qed.
Print Assumptions C20_render_no_panic.

Theorem C20_lines_verbatim_no_lf : forall file ln, In ln (lines file) -> count_lf ln = 0.
Proof. exact lines_no_lf. Qed.
Print Assumptions C20_lines_verbatim_no_lf.

(* C14(b): the text cut out for a tracked call covering bytes [s,e), e before the end of the file, is file[s..e) *)
Theorem C14b_to_slice_correct : forall file s e,
  valid_utf8 file = true -> s <= e -> e < length file ->
  is_boundary file s = true -> is_boundary file e = true ->
  exists sp, span_of_offsets file s e = Ok sp /\ to_slice file sp = Ok (firstn (e - s) (skipn s file)).
Proof. exact to_slice_correct. Qed.
Print Assumptions C14b_to_slice_correct.
