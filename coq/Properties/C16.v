(* C16 — printing a parsed program and re-parsing it changes nothing.
   Model: Text/ProgPrint.v (the Display state machines of parse.rs / pattern.rs / types.rs, the printed text as a layout of
   tokens, and a token-level reader with the tree construction of parse.rs).  The text->token lexing itself is the PEG of
   Properties/C17.v and is tied differentially (check c16): this file is the token-level half of the round trip. *)
From Coq Require Import List NArith Arith Bool.
Import ListNotations.
Require Import SV.Front.PTree SV.Text.ProgPrint SV.Proofs.ProgPrintCorrect.

(* the explicit-stack printers of the implementation print exactly the structural layout *)
Theorem C16_printer_machine : forall ns p, print_program_machine ns p = print_program ns p.
Proof. exact print_program_machine_eq. Qed.
Print Assumptions C16_printer_machine.

(* the printed text is the token sequence of the tree interleaved with blanks and newlines only *)
Theorem C16_printed_tokens : forall p, toks_of (lay_program p) = tokens_program p /\ ws_ok (lay_program p) = true.
Proof. intro p. split; [apply lay_program_tokens | apply lay_program_ws]. Qed.
Print Assumptions C16_printed_tokens.

(* reading the printed tokens back yields the same tree (spans are not part of tree equality, as in Rust's
   impl_eq_hash!(Call; name, args)), for every tree the parser can produce (prog_wf) *)
Theorem C16_print_parse_roundtrip : forall p,
  prog_wf p = true -> parse_token_list (tokens_program p) = Some (erase_program p).
Proof. exact print_tokens_roundtrip_default. Qed.
Print Assumptions C16_print_parse_roundtrip.

Theorem C16_print_parse_roundtrip_exact : forall p,
  prog_wf p = true -> prog_sp0 p = true -> parse_token_list (tokens_program p) = Some p.
Proof. exact print_tokens_roundtrip_sp0. Qed.
Print Assumptions C16_print_parse_roundtrip_exact.

(* two well-formed trees that print alike are equal: printing loses nothing *)
Theorem C16_print_injective : forall p q,
  tokens_program p = tokens_program q -> prog_wf p = true -> prog_wf q = true -> erase_program p = erase_program q.
Proof. exact tokens_injective. Qed.
Print Assumptions C16_print_injective.

(* ---- character level (Text/ProgLex.v: a lexer for the token language of minimal.pest; tied to pest differentially) ---- *)
Require Import SV.Text.ProgLex SV.Proofs.ProgLexCorrect.

(* the printer never writes two tokens next to each other that would be read as one or split differently *)
Theorem C16_printer_never_fuses_tokens : forall p, sep_ok (lay_program p) = true.
Proof. exact lay_program_sep_ok_all. Qed.
Print Assumptions C16_printer_never_fuses_tokens.

(* the printed TEXT, read character by character, gives back the same tree: for every tree the parser can produce
   (prog_wf) whose names are spelled as identifiers that are not reserved words of their role (prog_names_ok) *)
Theorem C16_print_parse_text : forall ns intern p,
  prog_wf p = true -> prog_names_ok ns intern p = true ->
  parse_text intern (print_program ns p) = Some (erase_program p).
Proof. exact print_parse_text. Qed.
Print Assumptions C16_print_parse_text.
