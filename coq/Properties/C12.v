(* C12 — template instantiation equals literal substitution: (a) parameters() is exact (over the front-end model
   Front/Analyze.v), (b) the consistency check, (c) a parameter is the constant of its argument *)
From Coq Require Import List NArith Bool Permutation.
Import ListNotations.
Require Import SV.Base.Util SV.Base.Res SV.Simp.Core SV.Layout.Ty SV.Layout.Value SV.Lang.Ast SV.Lang.Sem SV.Comp.Compile
               SV.Wit.Consistent SV.Proofs.WitnessCorrect.

Theorem C12_args_consistent_spec : forall args params,
  args_consistent args params = false <->
  exists n t, In (n,t) params /\ (args n = None \/ exists v, args n = Some v /\ type_of v <> t).
Proof. exact args_consistent_spec. Qed.
Print Assumptions C12_args_consistent_spec.

Theorem C12_extras_ignored : forall args args' params,
  (forall n t, In (n,t) params -> args n = args' n) -> args_consistent args params = args_consistent args' params.
Proof. exact args_consistent_extras. Qed.
Print Assumptions C12_extras_ignored.

Theorem C12_order_independent : forall args ps ps', Permutation ps ps' -> args_consistent args ps = args_consistent args ps'.
Proof. exact args_consistent_perm. Qed.
Print Assumptions C12_order_independent.

(* instantiation is literal substitution: a parameter compiles to, and denotes, exactly what the constant
   expression of its argument compiles to and denotes *)
Theorem C12_param_is_constant : forall dbg args sc t n v, args n = Some v ->
  compile dbg args sc (EParam t n) = compile dbg args sc (EConst t v).
Proof. intros. cbn. now rewrite H. Qed.
Print Assumptions C12_param_is_constant.
Theorem C12_param_denotes_constant : forall jet wit args r t n v, args n = Some v ->
  sem jet wit args r (EParam t n) = sem jet wit args r (EConst t v).
Proof. intros. cbn. now rewrite H. Qed.
Print Assumptions C12_param_denotes_constant.

(* (a) `parameters()` reports exactly the `param::NAME` occurrences of the program with their types: over the
   model of the analysis (Front/Analyze.v, tied to ast.rs by the C04 correspondence), for every program the
   analysis accepts, with the reported map [ps]:
     - a name is reported iff `param::n` occurs in the body of main or of any other function item (called or not);
     - the reported names are pairwise distinct (one name, one type);
     - every `param::` node of the inlined main is reported with exactly the type of the node;
     - every reported (n,t) is the (name,type) of a `param::` node of main or of an analysed function body. *)
Require Import SV.Front.PTree SV.Front.Analyze SV.Front.ParamOcc SV.Proofs.ParamsExact.

Theorem C12_parameters_exact_names : forall jlook jsig balias main_name p m ps ws tl,
  analyze_program jlook jsig balias main_name p = Ok (m, ps, ws, tl) ->
  forall n, In n (map fst ps) <-> In n (pparams_program p).
Proof. exact parameters_exact_names. Qed.
Print Assumptions C12_parameters_exact_names.

Theorem C12_parameters_nodup : forall jlook jsig balias main_name p m ps ws tl,
  analyze_program jlook jsig balias main_name p = Ok (m, ps, ws, tl) -> NoDup (map fst ps).
Proof. exact parameters_nodup. Qed.
Print Assumptions C12_parameters_nodup.

Theorem C12_parameters_cover_main : forall jlook jsig balias main_name p m ps ws tl,
  analyze_program jlook jsig balias main_name p = Ok (m, ps, ws, tl) ->
  forall n t, In (n,t) (eparams m) -> In (n,t) ps.
Proof. exact parameters_cover_main. Qed.
Print Assumptions C12_parameters_cover_main.

Theorem C12_parameters_types_agree : forall jlook jsig balias main_name p m ps ws tl,
  analyze_program jlook jsig balias main_name p = Ok (m, ps, ws, tl) ->
  forall n t t', In (n,t) ps -> In (n,t') (eparams m) -> t' = t.
Proof. exact parameters_types_agree. Qed.
Print Assumptions C12_parameters_types_agree.

Theorem C12_parameters_typed_origin : forall jlook jsig balias main_name p m ps ws tl,
  analyze_program jlook jsig balias main_name p = Ok (m, ps, ws, tl) ->
  exists items g,
    map_st (analyze_item jlook jsig balias main_name) p genv0 = Ok (items, g) /\ mains items = [m] /\
    (forall n t, In (n,t) ps -> In (n,t) (eparams m ++ fenv_params (g_fn g))) /\
    (forall n, In n (pparams_program p) -> exists t, In (n,t) ps /\ In (n,t) (eparams m ++ fenv_params (g_fn g))).
Proof. exact parameters_typed_origin. Qed.
Print Assumptions C12_parameters_typed_origin.
