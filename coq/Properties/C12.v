(* C12 — template instantiation equals literal substitution (parts (b) and (c); (a) needs the front-end model) *)
From Coq Require Import List NArith Bool Permutation.
Import ListNotations.
Require Import SV.Base.Util SV.Base.Res SV.Simp.Core SV.Layout.Ty SV.Layout.Value SV.Lang.Ast SV.Lang.Sem SV.Comp.Compile
               SV.Wit.Consistent SV.Proofs.WitnessCorrect.

Theorem C12_args_consistent_spec : forall args params,
  args_consistent args params = false <->
  exists n t, In (n,t) params /\ (args n = None \/ exists v, args n = Some v /\ type_of v <> t).
Proof. exact args_consistent_spec. Qed.
Print Assumptions C12_args_consistent_spec.

Theorem C12_extras_ignored : forall args args' params,
  (forall n t, In (n,t) params -> args n = args' n) -> args_consistent args params = args_consistent args' params.
Proof. exact args_consistent_extras. Qed.
Print Assumptions C12_extras_ignored.

Theorem C12_order_independent : forall args ps ps', Permutation ps ps' -> args_consistent args ps = args_consistent args ps'.
Proof. exact args_consistent_perm. Qed.
Print Assumptions C12_order_independent.

(* instantiation is literal substitution: a parameter compiles to, and denotes, exactly what the constant
   expression of its argument compiles to and denotes *)
Theorem C12_param_is_constant : forall dbg args sc t n v, args n = Some v ->
  compile dbg args sc (EParam t n) = compile dbg args sc (EConst t v).
Proof. intros. cbn. now rewrite H. Qed.
Print Assumptions C12_param_is_constant.
Theorem C12_param_denotes_constant : forall jet wit args r t n v, args n = Some v ->
  sem jet wit args r (EParam t n) = sem jet wit args r (EConst t v).
Proof. intros. cbn. now rewrite H. Qed.
Print Assumptions C12_param_denotes_constant.
