(* C03 — accepted programs always compile (totality of code generation on well-typed ASTs) *)
From Coq Require Import List NArith Arith Bool.
Import ListNotations.
Require Import SV.Base.Res SV.Simp.Core SV.Layout.Ty SV.Layout.Value SV.Lang.Ast SV.Comp.Select SV.Comp.Compile SV.Lang.Sem SV.Lang.WT
               SV.Proofs.EvalBasics SV.Proofs.CompileCorrect SV.Proofs.CompileTotal.

(* in every scope for which an input value exists, a well-typed expression compiles: the result is never Err
   (UndefinedVariable / CannotCompile) and never Panic (as_list().unwrap(), Partition::from_slice's assert,
   get_argument's expect are unreachable) *)
Theorem C03_compile_total : forall args dbg jsig W G sc v r e,
  wt jsig W args G e = true -> Inv G sc v r -> exists t, compile dbg args sc e = Ok t.
Proof. exact compile_total. Qed.
Print Assumptions C03_compile_total.

Theorem C03_program_total : forall args dbg jsig W main,
  wt_program jsig W args main = true -> exists t, compile_program dbg args main = Ok t.
Proof. exact compile_program_total. Qed.
Print Assumptions C03_program_total.
