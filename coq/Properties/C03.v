(* C03 — accepted programs always compile (totality of code generation on well-typed ASTs) *)
From Coq Require Import List NArith Arith Bool.
Import ListNotations.
Require Import SV.Base.Res SV.Simp.Core SV.Layout.Ty SV.Layout.Value SV.Lang.Ast SV.Comp.Select SV.Comp.Compile SV.Lang.Sem SV.Lang.WT
               SV.Proofs.EvalBasics SV.Proofs.CompileCorrect SV.Proofs.CompileTotal
               SV.Simp.Typing SV.Proofs.CompileTyped SV.Jets.JetModel SV.Gen.JetTable.

(* in every scope for which an input value exists, a well-typed expression compiles: the result is never Err
   (UndefinedVariable / CannotCompile) and never Panic (as_list().unwrap(), Partition::from_slice's assert,
   get_argument's expect are unreachable) *)
Theorem C03_compile_total : forall args dbg jsig W G sc v r e,
  wt jsig W args G e = true -> Inv G sc v r -> exists t, compile dbg args sc e = Ok t.
Proof. exact compile_total. Qed.
Print Assumptions C03_compile_total.

Theorem C03_program_total : forall args dbg jsig W main,
  wt_program jsig W args main = true -> exists t, compile_program dbg args main = Ok t.
Proof. exact compile_program_total. Qed.
Print Assumptions C03_program_total.

(* The emitted term is well typed in Simplicity's declarative type system, at the layout of the scope and of the
   expression's type: this is what the type inference of the Simplicity library, the last step of code generation,
   has to reconstruct.  Instantiated with the jet table REGENERATED from jet.rs (Gen/JetTable.v): no hypothesis on jets. *)
Theorem C03_compile_typed : forall dbg args W G sc A t e,
  wt jet_sig W args G e = true -> ScopeTy G sc A -> compile dbg args sc e = Ok t ->
  tj jet_sty (wty_layout W) t A (struct_ty (ty_of e)).
Proof. exact compile_typed_table. Qed.
Print Assumptions C03_compile_typed.

Theorem C03_program_typed : forall dbg args W main t,
  wt_program jet_sig W args main = true -> compile_program dbg args main = Ok t ->
  tj jet_sty (wty_layout W) t SUnit SUnit.
Proof. exact compile_program_typed_table. Qed.
Print Assumptions C03_program_typed.

(* soundness of that type system for the evaluator: typed terms on typed inputs are never stuck and return typed values *)
Theorem C03_typed_terms_safe : forall jsig_s wty jet wit,
  (forall j a b v w, jsig_s j = Some (a,b) -> vty v a = true -> jet j v = Some w -> vty w b = true) ->
  (forall n b, wty n = Some b -> exists v, wit n = Some v /\ vty v b = true) ->
  forall t a b v, tj jsig_s wty t a b -> vty v a = true ->
  eval jet wit t v = Failed \/ exists w, eval jet wit t v = Val w /\ vty w b = true.
Proof. exact tj_sound. Qed.
Print Assumptions C03_typed_terms_safe.
