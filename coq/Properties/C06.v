(* C06 — every text entry point is total.  Proof settles the LOGIC of totality of the modelled stages; stack
   exhaustion, allocation failure and the pair-consuming glue of parse.rs are runtime / not yet modelled: partial.
   The stages: PEG parse (fuelled model: a parse never "panics", it fails or succeeds — and fuel monotonicity shows the
   answer does not depend on the bound), literal conversion, analysis, code generation, error rendering. *)
From Coq Require Import List NArith Arith Bool.
Import ListNotations.
Require Import SV.Base.Res SV.Text.Peg SV.Text.Literal SV.Text.Span SV.Front.PTree SV.Front.Analyze SV.Lang.WT SV.Comp.Compile
               SV.Proofs.PegCorrect SV.Proofs.LiteralCorrect SV.Proofs.SpanCorrect SV.Proofs.AnalyzeSound SV.Proofs.CompileTotal SV.Proofs.CompileCorrect.

Theorem C06_parse_answer_independent_of_fuel : forall g n m rule input o,
  parse g n rule input = o -> o <> OutOfFuel -> n <= m -> parse g m rule input = o.
Proof. exact parse_fuel_mono. Qed.
Print Assumptions C06_parse_answer_independent_of_fuel.

Theorem C06_literals_total : forall k s, parse_decimal k s <> Panic /\ parse_binary k s <> Panic /\
  (all_hex s -> forall n, parse_hex_bytes n s <> Panic) /\
  (all_hex s -> (parse_hex_uint k s = Panic <-> (k < 3)%nat /\ s = [])).
Proof. exact literal_no_panic. Qed.
Print Assumptions C06_literals_total.

Theorem C06_analysis_total : forall jlook jsig balias main_name p,
  program_wf p = true -> analyze_program jlook jsig balias main_name p <> Panic.
Proof. exact analyze_no_panic. Qed.
Print Assumptions C06_analysis_total.

Theorem C06_codegen_total : forall args dbg jsig W main,
  wt_program jsig W args main = true -> exists t, compile_program dbg args main = Ok t.
Proof. exact compile_program_total. Qed.
Print Assumptions C06_codegen_total.

Theorem C06_rendering_total : forall file s e msg,
  valid_utf8 file = true -> s <= e -> e <= length file ->
  is_boundary file s = true -> is_boundary file e = true ->
  exists sp out, span_of_offsets file s e = Ok sp /\ render file sp msg = Ok out.
Proof. exact render_no_panic. Qed.
Print Assumptions C06_rendering_total.
