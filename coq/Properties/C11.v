(* C11 — integer literals denote their mathematical value.
   Digit strings are byte lists as parse.rs hands them over (separators and 0b/0x prefix stripped). *)
From Coq Require Import List NArith Arith Bool.
Import ListNotations.
Require Import SV.Base.Res SV.Text.U256 SV.Text.Literal SV.Proofs.U256Correct SV.Proofs.LiteralCorrect.
Local Open Scope N_scope.

(* decimal at u(2^k): accepted iff the digit string is non-empty (the one exception: the library's own U256::from_str
   takes "" as 0 — unreachable from source text since the grammar demands a digit), and the value fits *)
Theorem C11_decimal : forall k s n, (k <= 8)%nat -> all_digits s ->
  (parse_decimal k s = Ok n <-> (s <> [] \/ k = 8%nat) /\ n = dec_value s /\ n < 2^2^N.of_nat k).
Proof. exact parse_decimal_correct_all. Qed.
Print Assumptions C11_decimal.

(* binary: exactly 2^k digits, value = the digits' value *)
Theorem C11_binary : forall k s n,
  parse_binary k s = Ok n <-> (k <= 8)%nat /\ len s = 2^N.of_nat k /\ n = bin_value s.
Proof. exact parse_binary_correct. Qed.
Print Assumptions C11_binary.

(* hexadecimal at integer types: exactly 2^k/4 digits for k >= 3; never accepted below u8 *)
Theorem C11_hex_uint : forall k s n, (3 <= k <= 8)%nat -> all_hex s ->
  (parse_hex_uint k s = Ok n <-> len s = 2^N.of_nat k / 4 /\ n = hex_value s).
Proof. exact parse_hex_uint_correct. Qed.
Print Assumptions C11_hex_uint.
Theorem C11_hex_narrow : forall k s n, (k < 3)%nat -> parse_hex_uint k s <> Ok n.
Proof. exact parse_hex_uint_narrow. Qed.
Print Assumptions C11_hex_narrow.

(* hexadecimal at [u8; n]: exactly 2n digits, the n bytes in order *)
Theorem C11_hex_bytes : forall n s bytes, all_hex s ->
  (parse_hex_bytes n s = Ok bytes <-> length s = (2*n)%nat /\ bytes = hex_pairs s).
Proof. exact parse_hex_bytes_correct. Qed.
Print Assumptions C11_hex_bytes.

(* 256-bit decimal arithmetic on bytes *)
Theorem C11_u256_from_str : forall s, all_digits s ->
  (dec_value s < 2^256 -> exists bytes, u256_from_str s = Ok bytes /\ length bytes = 32%nat /\ bytes_ok bytes /\ bytes_value bytes = dec_value s)
  /\ (2^256 <= dec_value s -> u256_from_str s = Err).
Proof. exact u256_from_str_correct. Qed.
Print Assumptions C11_u256_from_str.
Theorem C11_u256_display : forall b, length b = 32%nat -> bytes_ok b ->
  all_digits (u256_display b) /\ no_leading_zero (u256_display b) /\
  dec_value (u256_display b) = bytes_value b /\ u256_from_str (u256_display b) = Ok b.
Proof. exact u256_display_correct. Qed.
Print Assumptions C11_u256_display.

(* the text the library prints for an integer parses back to it *)
Theorem C11_display_parse : forall k n, (k <= 8)%nat -> n < 2^2^N.of_nat k ->
  ((k <= 6)%nat -> all_digits (uint_display k n) /\ no_leading_zero (uint_display k n) /\
     strip_underscores (uint_display k n) = uint_display k n /\ parse_decimal k (uint_display k n) = Ok n) /\
  ((7 <= k)%nat -> exists body, uint_display k n = 48 :: 120 :: body /\ all_hex body /\
     strip_underscores body = body /\ parse_hex_uint k body = Ok n).
Proof. exact uint_display_parse. Qed.
Print Assumptions C11_display_parse.

(* totality over the alphabet the grammar can hand over: the only panicking input is an EMPTY hex string at u1/u2/u4
   (unreachable from text since the grammar demands a digit; reachable through the public API) *)
Theorem C11_no_panic : forall k s, parse_decimal k s <> Panic /\ parse_binary k s <> Panic /\
  (all_hex s -> forall n, parse_hex_bytes n s <> Panic) /\
  (all_hex s -> (parse_hex_uint k s = Panic <-> (k < 3)%nat /\ s = [])).
Proof. exact literal_no_panic. Qed.
Print Assumptions C11_no_panic.
