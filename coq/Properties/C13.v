(* C13 — jets are callable with documented arity, order and result type.
   Finite domain (the regenerated table of all Elements jets): boolean checks evaluated by vm_compute. *)
From Coq Require Import List NArith Arith Bool String.
Import ListNotations.
Require Import SV.Base.BT SV.Simp.Core SV.Layout.Ty SV.Layout.Value SV.Lang.Ast SV.Lang.Sem SV.Comp.Compile
               SV.Jets.JetSem SV.Jets.JetRef SV.Jets.JetPinned SV.Gen.JetTable SV.Jets.JetModel.
Local Open Scope string_scope.

Fixpoint tys_eqb' (a b:list ty) : bool :=
  match a, b with [], [] => true | x::a', y::b' => ty_eqb x y && tys_eqb' a' b' | _, _ => false end.

(* every jet: the tuple of its Simfony parameter types and its result type have exactly the layout of the
   Simplicity source and target types that simplicity-lang declares for the jet *)
Definition layout_ok (r:jrow) : bool :=
  sty_eqb (struct_ty (TTuple (row_params r))) (row_src r) && sty_eqb (struct_ty (row_ret r)) (row_tgt r).
Theorem C13_layouts_agree : forallb layout_ok jet_rows = true.
Proof. vm_compute. reflexivity. Qed.
Print Assumptions C13_layouts_agree.

(* the width-indexed families have the signature their name documents (independent reference Jets/JetRef.v):
   this is what catches a regrouping such as (u8,u8) -> u16 that keeps the flattened layout *)
Definition family_ok (r:jrow) : bool :=
  match ref_sig_of_name (row_name r) with
  | Some (ps, t) => tys_eqb' (row_params r) ps && ty_eqb (row_ret r) t
  | None => true end.
Theorem C13_family_signatures : forallb family_ok jet_rows = true.
Proof. vm_compute. reflexivity. Qed.
Print Assumptions C13_family_signatures.

Definition in_family (r:jrow) : bool := match ref_sig_of_name (row_name r) with Some _ => true | None => false end.
Theorem C13_family_size : List.length (filter in_family jet_rows) >= 300.
Proof. vm_compute. repeat constructor. Qed.
Print Assumptions C13_family_size.

(* all jets (incl. the Elements introspection ones): signatures equal the reviewed snapshot, in table order *)
Definition sig_eqb (r:jrow) (p:string * list ty * ty) : bool :=
  match p with (n, ps, t) => String.eqb (row_name r) n && tys_eqb' (row_params r) ps && ty_eqb (row_ret r) t end.
Fixpoint all2 {A B} (f:A->B->bool) (a:list A) (b:list B) : bool :=
  match a, b with [], [] => true | x::a', y::b' => f x y && all2 f a' b' | _, _ => false end.
Theorem C13_pinned_signatures : all2 sig_eqb jet_rows pinned_sigs = true.
Proof. vm_compute. reflexivity. Qed.
Print Assumptions C13_pinned_signatures.

(* the jet the compiler emits for assert! is `verify`; both reserved jets are in the table (the front end rejects them) *)
Theorem C13_verify_index : option_map row_name (find_jet verify_jet) = Some "verify".
Proof. vm_compute. reflexivity. Qed.
Print Assumptions C13_verify_index.
Theorem C13_reserved_present :
  existsb (fun r => String.eqb (row_name r) "verify") jet_rows && existsb (fun r => String.eqb (row_name r) "check_sig_verify") jet_rows = true.
Proof. vm_compute. reflexivity. Qed.
Print Assumptions C13_reserved_present.

(* arguments reach the jet in the written order, tupled as a balanced product *)
Theorem C13_args_in_order : forall jet wit args r t j es,
  sem jet wit args r (ECall t (BJet j) es) =
  mapo (fun e0 => sem jet wit args r e0) es (fun vs => match jet j (bt VP VU vs) with Some v => Val v | None => Failed end).
Proof. reflexivity. Qed.
Print Assumptions C13_args_in_order.
