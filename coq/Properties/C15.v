(* C15 — values, witness/argument maps and types survive print-parse.
   Printer side: the stateful pre-order machines of value.rs / types.rs / witness.rs, proved equal to the obvious
   recursive printers on every nesting.  Parser side: a hand-written type-directed parser (the real one is the PEG
   grammar + const analysis, tied differentially): partial. *)
From Coq Require Import List NArith Bool Permutation Sorted.
Import ListNotations.
Require Import SV.Layout.Ty SV.Layout.Value SV.Text.TyPrint SV.Text.ValPrint SV.Text.ModPrint SV.Text.ValParse SV.Proofs.PrintCorrect.

Theorem C15_type_printer_machine : forall t, ty_print_machine t = ty_pp t.
Proof. exact ty_print_machine_eq. Qed.
Print Assumptions C15_type_printer_machine.

(* incl. the print_hex_byte_array toggle, on every nesting of byte arrays inside aggregates *)
Theorem C15_value_printer_machine : forall v, val_print_machine v = val_pp v.
Proof. exact val_print_machine_eq. Qed.
Print Assumptions C15_value_printer_machine.

Theorem C15_type_roundtrip : forall t, ty_ok t = true -> tparse_top (ty_print_machine t) = Some (t, []).
Proof. exact type_display_roundtrip. Qed.
Print Assumptions C15_type_roundtrip.

Theorem C15_value_roundtrip : forall v, value_wf v = true -> val_types_ok v = true ->
  vparse_top (type_of v) (val_print_machine v) = Some (v, []).
Proof. exact value_display_roundtrip. Qed.
Print Assumptions C15_value_roundtrip.

(* module printing is deterministic whatever the order in which the map hands out its entries *)
Theorem C15_module_print_order_independent : forall m e1 e2,
  Permutation e1 e2 -> NoDup (map fst e1) -> mod_print m e1 = mod_print m e2.
Proof. exact mod_print_perm. Qed.
Print Assumptions C15_module_print_order_independent.
