(* C07 — Types, values and casts follow the documented structural layout.
   This file contains only statements, each closed by [exact] of a lemma proved elsewhere. *)
From Coq Require Import List Arith NArith Bool.
Import ListNotations.
Require Import SV.Base.BT SV.Base.BTLemmas SV.Simp.Core SV.Layout.Ty SV.Layout.Value
               SV.Proofs.LayoutLaws SV.Proofs.LayoutRoundtrip.

(* n-tuples / n-arrays split at [half n]; the right part holds the largest power of two strictly below n *)
Theorem C07_split_point : forall n, 2 <= n -> exists j, n - half n = 2^j /\ 2^j < n /\ n <= 2^(S j).
Proof. exact half_spec. Qed.
Print Assumptions C07_split_point.

Theorem C07_uint_layout : struct_ty (TUInt 0) = SSum SUnit SUnit /\
  forall k, struct_ty (TUInt (S k)) = SProd (struct_ty (TUInt k)) (struct_ty (TUInt k)).
Proof. exact (conj struct_ty_uint_zero struct_ty_uint_succ). Qed.
Print Assumptions C07_uint_layout.

Theorem C07_sum_layouts : struct_ty TBool = SSum SUnit SUnit /\
  (forall a, struct_ty (TOption a) = SSum SUnit (struct_ty a)) /\
  (forall a b, struct_ty (TEither a b) = SSum (struct_ty a) (struct_ty b)).
Proof. exact (conj struct_ty_bool (conj struct_ty_option struct_ty_either)). Qed.
Print Assumptions C07_sum_layouts.

Theorem C07_tuple_layout :
  struct_ty (TTuple []) = SUnit /\ (forall a, struct_ty (TTuple [a]) = struct_ty a) /\
  forall ts, 2 <= length ts ->
    struct_ty (TTuple ts) = SProd (struct_ty (TTuple (firstn (half (length ts)) ts)))
                                  (struct_ty (TTuple (skipn (half (length ts)) ts))).
Proof. exact (conj struct_ty_tuple_nil (conj struct_ty_tuple_one struct_ty_tuple_split)). Qed.
Print Assumptions C07_tuple_layout.

Theorem C07_array_layout :
  (forall a, struct_ty (TArray a 0) = SUnit) /\ (forall a, struct_ty (TArray a 1) = struct_ty a) /\
  forall a n, 2 <= n ->
    struct_ty (TArray a n) = SProd (struct_ty (TArray a (half n))) (struct_ty (TArray a (n - half n))).
Proof. exact (conj struct_ty_array_zero (conj struct_ty_array_one struct_ty_array_split)). Qed.
Print Assumptions C07_array_layout.

(* List<A,2^(k+1)> = (Option<[A;2^k]>, List<A,2^k>) and List<A,2> = Option<A> *)
Theorem C07_list_layout :
  (forall a, struct_ty (TList a 1) = struct_ty (TOption a)) /\
  forall a j, struct_ty (TList a (S (S j))) =
              struct_ty (TTuple [TOption (TArray a (2^(S j))); TList a (S j)]).
Proof. exact (conj struct_ty_list_one struct_ty_list_succ). Qed.
Print Assumptions C07_list_layout.

(* elements fill the blocks in order, largest block first *)
Theorem C07_list_fill : forall vs a j,
  structural (AList vs a (S (S j))) =
  if length vs <? 2^(S j)
  then VP (VL VU) (structural (AList vs a (S j)))
  else VP (VR (structural (AArray (firstn (2^(S j)) vs) a))) (structural (AList (skipn (2^(S j)) vs) a (S j))).
Proof. exact structural_list_fill. Qed.
Print Assumptions C07_list_fill.

Theorem C07_list_fill_base : forall a x, structural (AList [] a 1) = VL VU /\ structural (AList [x] a 1) = VR (structural x).
Proof. exact (fun a x => conj (structural_list_one_nil a) (structural_list_one_some a x)). Qed.
Print Assumptions C07_list_fill_base.

(* a cast is admitted exactly between equal layouts; admissibility is an equivalence *)
Theorem C07_cast_admissible : forall s t, cast_ok s t = true <-> struct_ty s = struct_ty t.
Proof. exact cast_ok_iff. Qed.
Print Assumptions C07_cast_admissible.
Theorem C07_cast_equivalence :
  (forall t, cast_ok t t = true) /\ (forall s t, cast_ok s t = cast_ok t s) /\
  (forall s t u, cast_ok s t = true -> cast_ok t u = true -> cast_ok s u = true).
Proof. exact (conj cast_refl (conj cast_sym cast_trans)). Qed.
Print Assumptions C07_cast_equivalence.

(* structural form inhabits the structural type; reconstruct inverts structural *)
Theorem C07_structural_has_type : forall v, value_wf v = true -> vty (structural v) (struct_ty (type_of v)) = true.
Proof. exact structural_has_type. Qed.
Print Assumptions C07_structural_has_type.

Theorem C07_reconstruct_structural : forall v, value_wf v = true -> reconstruct (type_of v) (structural v) = Some v.
Proof. exact reconstruct_structural. Qed.
Print Assumptions C07_reconstruct_structural.

(* non-vacuity: a concrete nested value meets the hypothesis *)
Example C07_wf_example :
  value_wf (ATuple [AUInt 3 200; ABool true; AList [AUInt 1 3; AUInt 1 2] (TUInt 1) 2;
                    ARight TBool (AArray [ANone (TUInt 0); ASome (AUInt 0 1)] (TOption (TUInt 0)))]) = true.
Proof. vm_compute. reflexivity. Qed.
