(* Witness / argument consistency — mirrors /repo/src/witness.rs 115-131 (WitnessValues::is_consistent)
   and 164-187 (Arguments::is_consistent); hash maps are association lists with pairwise distinct names. *)
From Coq Require Import List NArith Bool.
Import ListNotations.
Require Import SV.Base.Util SV.Layout.Ty SV.Layout.Value.

(* supplied names the program does not declare are skipped; declared ones must carry exactly the declared type *)
Definition wit_consistent (vals:list (N*value)) (decl:N -> option ty) : bool :=
  forallb (fun nv => match decl (fst nv) with Some t => ty_eqb (type_of (snd nv)) t | None => true end) vals.

(* every parameter must have an argument of exactly its type; extra arguments are never looked at *)
Definition args_consistent (args:N -> option value) (params:list (N*ty)) : bool :=
  forallb (fun nt => match args (fst nt) with Some v => ty_eqb (type_of v) (snd nt) | None => false end) params.

(* population of witness nodes by name (named.rs Populator::convert_witness): structural form of the supplied value *)
Definition populate (vals:list (N*value)) (n:N) : option Core.sval := option_map structural (lookupN vals n).
