(* Shrinking a witness value to the (inferred) type of its witness node —
   mirrors /repo/src/named.rs 225-263 (prune_value) and 166-190 (prune_witness_values / Pruner::convert_witness).

   The type of a witness node is inferred from the way the program uses the node and can be smaller than
   the layout of the declared type: every part the program never looks at is the unit type there.
   [prune] is the direct structural description of the shrunk value; [prune_value] mirrors the Rust code
   literally: an explicit stack of (value, type) pairs collects the compact bit encoding of the shrunk value,
   and the value is rebuilt from those bits (Value::from_compact_bits).
   Proofs/PruneCorrect.v shows that the two agree and why shrinking is semantically harmless. *)
From Coq Require Import List Arith NArith Bool.
Import ListNotations.
Require Import SV.Simp.Core.

(* t' is t with some sub-types replaced by unit *)
Fixpoint shrinks (t' t:sty) : bool :=
  match t', t with
  | SUnit, _ => true
  | SSum a' b', SSum a b => shrinks a' a && shrinks b' b
  | SProd a' b', SProd a b => shrinks a' a && shrinks b' b
  | _, _ => false end.

(* ---------- the structural description ---------- *)
(* unit type: nothing is kept (whatever the value is); sum: the tag is kept and the payload pruned at the
   type of that arm; product: both components; None when the value has not the shape the type asks for *)
Fixpoint prune (v:sval) (t:sty) {struct t} : option sval :=
  match t with
  | SUnit => Some VU
  | SSum a b =>
      match v with
      | VL x => match prune x a with Some x' => Some (VL x') | None => None end
      | VR y => match prune y b with Some y' => Some (VR y') | None => None end
      | _ => None end
  | SProd a b =>
      match v with
      | VP x y => match prune x a, prune y b with Some x', Some y' => Some (VP x' y') | _, _ => None end
      | _ => None end
  end.

(* ---------- the bit-level version (named.rs 233-263) ---------- *)
(* number of nodes of a type: a bound for the number of iterations of the loop below *)
Fixpoint sty_size (t:sty) : nat :=
  match t with SUnit => 1 | SSum a b => S (sty_size a + sty_size b) | SProd a b => S (sty_size a + sty_size b) end.

(* while let Some((value, ty)) = stack.pop() { .. }   — the head of the list is the top of the stack;
   [bits.push(b)] appends at the end; [?] leaves the function with None.
   Out of fuel is None as well (it does not happen with fuel >= the sizes of the types on the stack). *)
Fixpoint compact_loop (fuel:nat) (stack:list (sval*sty)) (bits:list bool) : option (list bool) :=
  match stack with
  | [] => Some bits
  | (v, t) :: stack' =>
      match fuel with
      | 0 => None
      | S fuel' =>
          match t with
          | SUnit => compact_loop fuel' stack' bits
          | SSum a b =>
              match v with
              | VL x => compact_loop fuel' ((x, a) :: stack') (bits ++ [false])
              | VR y => compact_loop fuel' ((y, b) :: stack') (bits ++ [true])
              | _ => None end
          | SProd a b =>
              match v with
              | VP x y => compact_loop fuel' ((x, a) :: (y, b) :: stack') bits    (* push right, then left *)
              | _ => None end
          end
      end
  end.

(* the compact bit encoding of [v] shrunk to [t] *)
Definition compact_bits (v:sval) (t:sty) : option (list bool) := compact_loop (sty_size t) [(v, t)] [].

(* Value::from_compact_bits: unit consumes nothing; sum reads the tag, then the payload; product left, then right.
   Returns the value and the bits that are left over. *)
Fixpoint of_compact_bits (t:sty) (bs:list bool) {struct t} : option (sval * list bool) :=
  match t with
  | SUnit => Some (VU, bs)
  | SSum a b =>
      match bs with
      | [] => None
      | false :: r => match of_compact_bits a r with Some (x, r') => Some (VL x, r') | None => None end
      | true :: r => match of_compact_bits b r with Some (y, r') => Some (VR y, r') | None => None end
      end
  | SProd a b =>
      match of_compact_bits a bs with
      | Some (x, r) => match of_compact_bits b r with Some (y, r') => Some (VP x y, r') | None => None end
      | None => None end
  end.

(* encode, then decode; every collected bit must be used *)
Definition prune_value (v:sval) (t:sty) : option sval :=
  match compact_bits v t with
  | Some bs => match of_compact_bits t bs with Some (w, []) => Some w | _ => None end
  | None => None end.

(* The Rust code packs the bits into bytes (most significant bit first, the last byte filled up with zeros) and
   decodes from the bytes; the decoder stops when the value is complete and the filling is never looked at. *)
Definition pad8 (bs:list bool) : list bool := bs ++ repeat false ((8 - length bs mod 8) mod 8).
Definition prune_value_bytes (v:sval) (t:sty) : option sval :=
  match compact_bits v t with
  | Some bs => match of_compact_bits t (pad8 bs) with Some (w, _) => Some w | None => None end
  | None => None end.

(* prune_witness_values: every supplied witness is shrunk to the type of its node;
   a value that cannot be shrunk (and a node without a type) keeps its value: unwrap_or_else(|| value.shallow_clone()) *)
Definition prune_witness (wty:N -> option sty) (wit:N -> option sval) (n:N) : option sval :=
  match wit n with
  | Some v => Some match wty n with
                   | Some t => match prune_value v t with Some w => w | None => v end
                   | None => v end
  | None => None end.
