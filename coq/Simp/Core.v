(* Core Simplicity: types, values, terms and the denotational semantics.
   Modelled (not verified) counterpart of simplicity-lang's Bit Machine; validated differentially. *)
From Coq Require Import List Arith NArith Lia Bool.
Import ListNotations.

Inductive sty := SUnit | SSum (a b:sty) | SProd (a b:sty).
Inductive sval := VU | VL (v:sval) | VR (v:sval) | VP (a b:sval).
Inductive out := Val (v:sval) | Failed | Stuck.

Fixpoint sty_eqb (a b:sty) : bool :=
  match a, b with
  | SUnit, SUnit => true
  | SSum a1 a2, SSum b1 b2 => sty_eqb a1 b1 && sty_eqb a2 b2
  | SProd a1 a2, SProd b1 b2 => sty_eqb a1 b1 && sty_eqb a2 b2
  | _, _ => false end.

Fixpoint sval_eqb (a b:sval) : bool :=
  match a, b with
  | VU, VU => true
  | VL x, VL y => sval_eqb x y
  | VR x, VR y => sval_eqb x y
  | VP x1 x2, VP y1 y2 => sval_eqb x1 y1 && sval_eqb x2 y2
  | _, _ => false end.

(* v inhabits t *)
Fixpoint vty (v:sval) (t:sty) : bool :=
  match v, t with
  | VU, SUnit => true
  | VL x, SSum a _ => vty x a
  | VR y, SSum _ b => vty y b
  | VP x y, SProd a b => vty x a && vty y b
  | _, _ => false end.

(* the all-zero value of a type (simplicity Value::zero) *)
Fixpoint vzero (t:sty) : sval :=
  match t with SUnit => VU | SSum a _ => VL (vzero a) | SProd a b => VP (vzero a) (vzero b) end.

(* Terms.  Witness nodes carry a name; jets an index into the regenerated jet table;
   assertions carry a token standing for the hidden CMR (0 = Cmr::fail(ZERO), S i = debug marker i). *)
Inductive term :=
| Iden | Unit | InjL (t:term) | InjR (t:term) | Take (t:term) | Drop (t:term)
| Comp (s t:term) | Case (s t:term) | AssertL (s:term) (c:N) | AssertR (c:N) (t:term)
| Pair (s t:term) | Fail | Wit (n:N) | Jet (j:N).

Definition bind (o:out) (k:sval->out) : out := match o with Val v => k v | Failed => Failed | Stuck => Stuck end.

Section Eval.
Variable jet : N -> sval -> option sval.
Variable wit : N -> option sval.

Fixpoint eval (t:term) (a:sval) : out :=
  match t with
  | Iden => Val a
  | Unit => Val VU
  | InjL s => bind (eval s a) (fun v => Val (VL v))
  | InjR s => bind (eval s a) (fun v => Val (VR v))
  | Take s => match a with VP x _ => eval s x | _ => Stuck end
  | Drop s => match a with VP _ y => eval s y | _ => Stuck end
  | Comp s u => bind (eval s a) (fun v => eval u v)
  | Case s u => match a with VP (VL x) c => eval s (VP x c) | VP (VR y) c => eval u (VP y c) | _ => Stuck end
  | AssertL s _ => match a with VP (VL x) c => eval s (VP x c) | VP (VR _) _ => Failed | _ => Stuck end
  | AssertR _ u => match a with VP (VR y) c => eval u (VP y c) | VP (VL _) _ => Failed | _ => Stuck end
  | Pair s u => bind (eval s a) (fun x => bind (eval u a) (fun y => Val (VP x y)))
  | Fail => Failed
  | Wit n => match wit n with Some v => Val v | None => Stuck end
  | Jet j => match jet j a with Some v => Val v | None => Failed end
  end.
End Eval.

(* scribe: the constant term of a value (CoreConstructible::scribe with words expanded) *)
Fixpoint scribe (v:sval) : term :=
  match v with VU => Unit | VL x => InjL (scribe x) | VR y => InjR (scribe y) | VP x y => Pair (scribe x) (scribe y) end.

(* selectors *)
Definition OH := Take Iden. Definition IH := Drop Iden.
Definition OOH := Take (Take Iden). Definition OIH := Take (Drop Iden).
Definition IOH := Drop (Take Iden). Definition IIH := Drop (Drop Iden).
Definition bit_false := InjL Unit.
Definition bit_true := InjR Unit.
