(* Pruning along an execution (modelled counterpart of simplicity-lang's RedeemNode::prune on the term tree):
   a case whose other branch the run does not take becomes an assertion. *)
From Coq Require Import List NArith.
Require Import SV.Simp.Core.

Section Prune.
Variable jet : N -> sval -> option sval.
Variable wit : N -> option sval.
Notation ev := (eval jet wit).

Fixpoint prune (t:term) (a:sval) : term :=
  match t with
  | InjL s => InjL (prune s a)
  | InjR s => InjR (prune s a)
  | Take s => match a with VP x _ => Take (prune s x) | _ => t end
  | Drop s => match a with VP _ y => Drop (prune s y) | _ => t end
  | Comp s u => match ev s a with Val v => Comp (prune s a) (prune u v) | _ => Comp (prune s a) u end
  | Pair s u => Pair (prune s a) (prune u a)
  | Case s u => match a with
      | VP (VL x) c => AssertL (prune s (VP x c)) 2     (* token 2: the hidden root of the pruned right branch *)
      | VP (VR y) c => AssertR 2 (prune u (VP y c))
      | _ => t end
  | AssertL s c => match a with VP (VL x) d => AssertL (prune s (VP x d)) c | _ => t end
  | AssertR c u => match a with VP (VR y) d => AssertR c (prune u (VP y d)) | _ => t end
  | _ => t
  end.

(* a successful run is preserved: same result on the same input *)
Theorem prune_preserves : forall t a, ev (prune t a) a = ev t a.
Proof.
  induction t; intros a; cbn [prune eval]; auto.
  - now rewrite IHt.
  - now rewrite IHt.
  - destruct a; cbn [eval]; auto.
  - destruct a; cbn [eval]; auto.
  - destruct (ev t1 a) as [v| |] eqn:E; cbn [eval]; rewrite IHt1, E; cbn [bind]; auto.
  - destruct a as [| | |[|x|y|? ?] c]; cbn [eval]; auto.
  - destruct a as [| | |[|x|y|? ?] d]; cbn [eval]; auto.
  - destruct a as [| | |[|x|y|? ?] d]; cbn [eval]; auto.
  - now rewrite IHt1, IHt2.
Qed.

(* the pruned term contains no case node on the executed path of a successful run *)
Fixpoint case_free_on (t:term) (a:sval) : Prop :=
  match t with
  | InjL s | InjR s => case_free_on s a
  | Take s => match a with VP x _ => case_free_on s x | _ => True end
  | Drop s => match a with VP _ y => case_free_on s y | _ => True end
  | Comp s u => case_free_on s a /\ match ev s a with Val v => case_free_on u v | _ => True end
  | Pair s u => case_free_on s a /\ case_free_on u a
  | Case _ _ => match a with VP (VL _) _ | VP (VR _) _ => False | _ => True end
  | AssertL s _ => match a with VP (VL x) d => case_free_on s (VP x d) | _ => True end
  | AssertR _ u => match a with VP (VR y) d => case_free_on u (VP y d) | _ => True end
  | _ => True end.

Theorem prune_case_free : forall t a, case_free_on (prune t a) a.
Proof.
  induction t; intros a; cbn [prune case_free_on]; auto.
  - destruct a; cbn [case_free_on]; auto.
  - destruct a; cbn [case_free_on]; auto.
  - destruct (ev t1 a) as [v| |] eqn:E; cbn [case_free_on]; rewrite prune_preserves, E; auto.
  - destruct a as [| | |[|x|y|? ?] c]; cbn [case_free_on]; auto.
  - destruct a as [| | |[|x|y|? ?] d]; cbn [case_free_on]; auto.
  - destruct a as [| | |[|x|y|? ?] d]; cbn [case_free_on]; auto.
Qed.
End Prune.
