(* Commitment Merkle root, abstractly: any structural hash of the term that — like Simplicity's CMR —
   does not look at witness nodes' names or payloads. *)
From Coq Require Import List NArith.
Require Import SV.Simp.Core.

Section MR.
Variable M : Type.
Variables (h0 : N -> M) (h1 : N -> M -> M) (h2 : N -> M -> M -> M) (hjet : N -> M) (htok : N -> M).

Fixpoint mr (t:term) : M :=
  match t with
  | Iden => h0 1 | Unit => h0 2 | Fail => h0 3
  | Wit _ => h0 4                                 (* the name and the value are not committed to *)
  | Jet j => hjet j
  | InjL s => h1 1 (mr s) | InjR s => h1 2 (mr s) | Take s => h1 3 (mr s) | Drop s => h1 4 (mr s)
  | Comp s u => h2 1 (mr s) (mr u) | Pair s u => h2 2 (mr s) (mr u)
  | Case s u => h2 3 (mr s) (mr u)
  | AssertL s c => h2 3 (mr s) (htok c)           (* an assertion commits to the hidden branch's root *)
  | AssertR c u => h2 3 (htok c) (mr u)
  end.

Fixpoint rename_wit (f:N -> N) (t:term) : term :=
  match t with
  | Wit n => Wit (f n)
  | InjL s => InjL (rename_wit f s) | InjR s => InjR (rename_wit f s)
  | Take s => Take (rename_wit f s) | Drop s => Drop (rename_wit f s)
  | Comp s u => Comp (rename_wit f s) (rename_wit f u) | Pair s u => Pair (rename_wit f s) (rename_wit f u)
  | Case s u => Case (rename_wit f s) (rename_wit f u)
  | AssertL s c => AssertL (rename_wit f s) c | AssertR c u => AssertR c (rename_wit f u)
  | _ => t end.

Lemma mr_rename f t : mr (rename_wit f t) = mr t.
Proof. induction t; cbn; congruence. Qed.
End MR.
