(* The declarative type system of core Simplicity (the judgement that simplicity-lang's type inference
   decides when the compiler finalises a program), and its soundness against the denotational
   semantics of Simp/Core.v: a well-typed term run on a well-typed input never gets stuck
   (it yields a value or fails an assertion / jet), and every value it yields has the output type. *)
From Coq Require Import List Arith NArith Lia Bool.
Import ListNotations.
Require Import SV.Simp.Core.

Section Typing.
Variable jsig_s : N -> option (sty * sty).   (* source and target type of every jet *)
Variable wty : N -> option sty.              (* declared type of every witness node *)

(* t : a |- b *)
Inductive tj : term -> sty -> sty -> Prop :=
| TJ_Iden a : tj Iden a a
| TJ_Unit a : tj Unit a SUnit
| TJ_InjL t a b c : tj t a b -> tj (InjL t) a (SSum b c)
| TJ_InjR t a b c : tj t a c -> tj (InjR t) a (SSum b c)
| TJ_Take t a b c : tj t a c -> tj (Take t) (SProd a b) c
| TJ_Drop t a b c : tj t b c -> tj (Drop t) (SProd a b) c
| TJ_Comp s t a b c : tj s a b -> tj t b c -> tj (Comp s t) a c
| TJ_Case s t a b c d : tj s (SProd a c) d -> tj t (SProd b c) d -> tj (Case s t) (SProd (SSum a b) c) d
  (* assertions: the pruned branch is hidden behind its CMR, its side of the sum is unconstrained *)
| TJ_AssertL s h a b c d : tj s (SProd a c) d -> tj (AssertL s h) (SProd (SSum a b) c) d
| TJ_AssertR h t a b c d : tj t (SProd b c) d -> tj (AssertR h t) (SProd (SSum a b) c) d
| TJ_Pair s t a b c : tj s a b -> tj t a c -> tj (Pair s t) a (SProd b c)
| TJ_Fail a b : tj Fail a b
| TJ_Wit n a b : wty n = Some b -> tj (Wit n) a b
| TJ_Jet j a b : jsig_s j = Some (a, b) -> tj (Jet j) a b.

(* ---------- derived rules for the selectors and bits of Simp/Core.v ---------- *)
Lemma tj_OH a b : tj OH (SProd a b) a. Proof. repeat constructor. Qed.
Lemma tj_IH a b : tj IH (SProd a b) b. Proof. repeat constructor. Qed.
Lemma tj_OOH a b c : tj OOH (SProd (SProd a b) c) a. Proof. repeat constructor. Qed.
Lemma tj_OIH a b c : tj OIH (SProd (SProd a b) c) b. Proof. repeat constructor. Qed.
Lemma tj_IOH a b c : tj IOH (SProd a (SProd b c)) b. Proof. repeat constructor. Qed.
Lemma tj_IIH a b c : tj IIH (SProd a (SProd b c)) c. Proof. repeat constructor. Qed.
Lemma tj_bit_false a : tj bit_false a (SSum SUnit SUnit). Proof. repeat constructor. Qed.
Lemma tj_bit_true a : tj bit_true a (SSum SUnit SUnit). Proof. repeat constructor. Qed.

(* a scribed constant has the type of its value, from any input *)
Lemma tj_scribe v : forall s a, vty v s = true -> tj (scribe v) a s.
Proof.
  induction v as [|x IH|y IH|x IHx y IHy]; intros s a H; destruct s as [|s1 s2|s1 s2]; cbn [vty] in H; try discriminate; cbn [scribe].
  - constructor.
  - constructor. apply IH. exact H.
  - constructor. apply IH. exact H.
  - apply andb_true_iff in H as [H1 H2]. constructor; [apply IHx|apply IHy]; assumption.
Qed.

(* ---------- soundness ---------- *)
Section Soundness.
Variable jet : N -> sval -> option sval.
Variable wit : N -> option sval.
(* the environment respects the signatures *)
Hypothesis Hjet_s : forall j a b v w, jsig_s j = Some (a, b) -> vty v a = true -> jet j v = Some w -> vty w b = true.
Hypothesis Hwit_s : forall n b, wty n = Some b -> exists v, wit n = Some v /\ vty v b = true.
Notation ev := (eval jet wit).

Theorem tj_preservation t a b : tj t a b -> forall v w, vty v a = true -> ev t v = Val w -> vty w b = true.
Proof.
  induction 1 as [a|a|t a b c Ht IH|t a b c Ht IH|t a b c Ht IH|t a b c Ht IH|s t a b c Hs IHs Ht IHt
                 |s t a b c d Hs IHs Ht IHt|s h a b c d Hs IHs|h t a b c d Ht IHt|s t a b c Hs IHs Ht IHt|a b|n a b Hn|j a b Hj];
    intros v w Hv He; cbn [eval] in He.
  - inversion He; subst. exact Hv.
  - inversion He; subst. reflexivity.
  - destruct (ev t v) as [x| |] eqn:E; cbn [bind] in He; try discriminate. inversion He; subst. cbn [vty]. eapply IH; eauto.
  - destruct (ev t v) as [x| |] eqn:E; cbn [bind] in He; try discriminate. inversion He; subst. cbn [vty]. eapply IH; eauto.
  - destruct v as [| | |x y]; cbn [vty] in Hv; try discriminate. apply andb_true_iff in Hv as [Hx Hy]. eapply IH; eauto.
  - destruct v as [| | |x y]; cbn [vty] in Hv; try discriminate. apply andb_true_iff in Hv as [Hx Hy]. eapply IH; eauto.
  - destruct (ev s v) as [x| |] eqn:E; cbn [bind] in He; try discriminate. eapply IHt; [|exact He]. eapply IHs; eauto.
  - destruct v as [| | |x y]; cbn [vty] in Hv; try discriminate. apply andb_true_iff in Hv as [Hx Hy].
    destruct x as [|x|x|? ?]; cbn [vty] in Hx; try discriminate.
    + eapply IHs; [|exact He]. cbn [vty]. now rewrite Hx, Hy.
    + eapply IHt; [|exact He]. cbn [vty]. now rewrite Hx, Hy.
  - destruct v as [| | |x y]; cbn [vty] in Hv; try discriminate. apply andb_true_iff in Hv as [Hx Hy].
    destruct x as [|x|x|? ?]; cbn [vty] in Hx; try discriminate.
    eapply IHs; [|exact He]. cbn [vty]. now rewrite Hx, Hy.
  - destruct v as [| | |x y]; cbn [vty] in Hv; try discriminate. apply andb_true_iff in Hv as [Hx Hy].
    destruct x as [|x|x|? ?]; cbn [vty] in Hx; try discriminate.
    eapply IHt; [|exact He]. cbn [vty]. now rewrite Hx, Hy.
  - destruct (ev s v) as [x| |] eqn:E1; cbn [bind] in He; try discriminate.
    destruct (ev t v) as [y| |] eqn:E2; cbn [bind] in He; try discriminate.
    inversion He; subst. cbn [vty]. rewrite (IHs _ _ Hv E1), (IHt _ _ Hv E2). reflexivity.
  - discriminate.
  - destruct (Hwit_s _ _ Hn) as (x & Hx & Tx). rewrite Hx in He. inversion He; subst. exact Tx.
  - destruct (jet j v) as [x|] eqn:E; try discriminate. inversion He; subst. eapply Hjet_s; eauto.
Qed.

Theorem tj_progress t a b : tj t a b -> forall v, vty v a = true -> ev t v <> Stuck.
Proof.
  induction 1 as [a|a|t a b c Ht IH|t a b c Ht IH|t a b c Ht IH|t a b c Ht IH|s t a b c Hs IHs Ht IHt
                 |s t a b c d Hs IHs Ht IHt|s h a b c d Hs IHs|h t a b c d Ht IHt|s t a b c Hs IHs Ht IHt|a b|n a b Hn|j a b Hj];
    intros v Hv; cbn [eval].
  - discriminate.
  - discriminate.
  - specialize (IH _ Hv). destruct (ev t v); cbn [bind]; congruence.
  - specialize (IH _ Hv). destruct (ev t v); cbn [bind]; congruence.
  - destruct v as [| | |x y]; cbn [vty] in Hv; try discriminate. apply andb_true_iff in Hv as [Hx Hy]. apply IH; assumption.
  - destruct v as [| | |x y]; cbn [vty] in Hv; try discriminate. apply andb_true_iff in Hv as [Hx Hy]. apply IH; assumption.
  - specialize (IHs _ Hv). destruct (ev s v) as [x| |] eqn:E; cbn [bind]; try congruence.
    apply IHt. eapply tj_preservation; eauto.
  - destruct v as [| | |x y]; cbn [vty] in Hv; try discriminate. apply andb_true_iff in Hv as [Hx Hy].
    destruct x as [|x|x|? ?]; cbn [vty] in Hx; try discriminate.
    + apply IHs. cbn [vty]. now rewrite Hx, Hy.
    + apply IHt. cbn [vty]. now rewrite Hx, Hy.
  - destruct v as [| | |x y]; cbn [vty] in Hv; try discriminate. apply andb_true_iff in Hv as [Hx Hy].
    destruct x as [|x|x|? ?]; cbn [vty] in Hx; try discriminate.
    apply IHs. cbn [vty]. now rewrite Hx, Hy.
  - destruct v as [| | |x y]; cbn [vty] in Hv; try discriminate. apply andb_true_iff in Hv as [Hx Hy].
    destruct x as [|x|x|? ?]; cbn [vty] in Hx; try discriminate.
    apply IHt. cbn [vty]. now rewrite Hx, Hy.
  - specialize (IHs _ Hv). specialize (IHt _ Hv).
    destruct (ev s v); cbn [bind]; try congruence. destruct (ev t v); cbn [bind]; congruence.
  - discriminate.
  - destruct (Hwit_s _ _ Hn) as (x & Hx & _). rewrite Hx. discriminate.
  - destruct (jet j v); discriminate.
Qed.

(* type safety in one statement *)
Corollary tj_sound t a b v : tj t a b -> vty v a = true ->
  ev t v = Failed \/ exists w, ev t v = Val w /\ vty w b = true.
Proof.
  intros Ht Hv. pose proof (tj_progress _ _ _ Ht _ Hv) as P.
  destruct (ev t v) as [w| |] eqn:E; [right|left; reflexivity|congruence].
  exists w. split; [reflexivity|]. eapply tj_preservation; eauto.
Qed.
End Soundness.
End Typing.
