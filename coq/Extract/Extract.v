(* Extraction of the executable models.  ExtrOcamlBasic only: bool, option, unit, list, prod, sumbool, sumor
   are mapped to OCaml's; nat, N, positive, Z remain Coq's inductives.  No Extract Constant. *)
Require Extraction.
Require Import ExtrOcamlBasic.
Require Import SV.Base.BT SV.Base.Res SV.Simp.Core SV.Layout.Ty SV.Layout.Value SV.Lang.Ast SV.Comp.Compile SV.Lang.Sem SV.Lang.WT SV.Jets.JetSem SV.Gen.JetTable SV.Jets.JetModel SV.Text.U256 SV.Text.Literal SV.Text.Span SV.Wit.Consistent SV.Text.TyPrint SV.Text.ValPrint SV.Text.ModPrint SV.Text.ValParse SV.Text.Peg SV.Gen.Grammar SV.Front.PTree SV.Front.Analyze SV.Gen.Aliases SV.Text.ProgPrint SV.Text.ProgLex SV.Wit.Prune.
Extraction Language OCaml.
Extraction "model.ml"
  struct_ty structural reconstruct type_of value_wf cast_ok ty_eqb sty_eqb sval_eqb vty
  compile_program eval sem_program jet_rows jet_by_name wt_program jet_sig
  parse_decimal parse_binary parse_hex_uint parse_hex_bytes uint_display u256_from_str u256_display
  SV.Text.Span.render to_slice mkspan mkpos span_of_offsets lines line_col_position line_col_index tracked_text valid_utf8 is_boundary span_new position_new
  wit_consistent args_consistent
  ty_print_machine val_print_machine mod_print tparse_top vparse_top
  parse grammar
  analyze_program builtin_aliases
  print_program_machine print_program prog_wf parse_token_list tokens_program erase_program
  parse_text prog_names_ok
  SV.Wit.Prune.prune prune_value_bytes shrinks.
