From Coq Require Import List Arith NArith Lia Bool.
Import ListNotations.

Definition obind {A B} (o:option A) (k:A->option B) : option B := match o with Some a => k a | None => None end.

Section MapOpt.
Context {A B:Type} (F : A -> option B).
Fixpoint mapM (l:list A) : option (list B) :=
  match l with [] => Some [] | a::l' => match F a with Some b => option_map (cons b) (mapM l') | None => None end end.
End MapOpt.

Fixpoint lookupN {A} (r:list (N*A)) (x:N) : option A :=
  match r with [] => None | (y,v)::r' => if N.eqb x y then Some v else lookupN r' x end.
