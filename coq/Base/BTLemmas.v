From Coq Require Import List Arith Lia Bool.
Import ListNotations.
Require Import SV.Base.BT.

Lemma p2c_aux_spec fuel : forall n acc, 0 < acc -> n <= acc * 2^fuel ->
  n <= p2c_aux fuel n acc /\ (acc < n -> p2c_aux fuel n acc < 2*n) /\ (n <= acc -> p2c_aux fuel n acc = acc).
Proof.
  induction fuel; intros n acc Ha Hb; cbn [p2c_aux].
  - cbn in Hb. lia.
  - destruct (Nat.leb_spec n acc). { lia. }
    destruct (IHfuel n (2*acc)) as (A & B & C); [lia| cbn [Nat.pow] in Hb; lia|].
    repeat split; lia.
Qed.

(* p2c_aux returns acc * 2^j for some j *)
Lemma p2c_aux_pow fuel : forall n acc, exists j, p2c_aux fuel n acc = acc * 2^j.
Proof.
  induction fuel; intros n acc; cbn [p2c_aux].
  - exists 0; cbn; lia.
  - destruct (n <=? acc). { exists 0; cbn; lia. }
    destruct (IHfuel n (2*acc)) as [j Hj]. exists (S j). rewrite Hj. cbn [Nat.pow]. lia.
Qed.

Lemma pow2ceil_spec n : 1 <= n -> exists j, pow2ceil n = 2^j /\ n <= 2^j /\ (2 <= n -> 2^j < 2*n).
Proof.
  intros Hn. unfold pow2ceil.
  assert (Hp: n <= 1 * 2^n) by (rewrite Nat.mul_1_l; apply Nat.lt_le_incl, Nat.pow_gt_lin_r; lia).
  destruct (p2c_aux_spec n n 1 ltac:(lia) Hp) as (A & B & _).
  destruct (p2c_aux_pow n n 1) as [j Hj]. exists j. rewrite Hj in *. rewrite Nat.mul_1_l in *.
  repeat split; auto; intros; apply B; lia.
Qed.

Lemma half_bounds n : 2 <= n -> 0 < half n < n.
Proof.
  intros H. unfold half.
  destruct (pow2ceil_spec n ltac:(lia)) as (j & Hj & A & B). specialize (B H).
  rewrite Hj. set (r := 2^j) in *.
  rewrite Nat.div2_div.
  assert (r / 2 < n) by (apply Nat.div_lt_upper_bound; lia).
  assert (1 <= r/2) by (apply Nat.div_le_lower_bound; lia).
  lia.
Qed.

(* The documented split: for n >= 2 the right part holds the largest power of two strictly below n *)
Lemma half_spec n : 2 <= n -> exists j, n - half n = 2^j /\ 2^j < n /\ n <= 2^(S j).
Proof.
  intros H. unfold half.
  destruct (pow2ceil_spec n ltac:(lia)) as (j & Hj & A & B). specialize (B H).
  rewrite Hj. destruct j as [|j]. { cbn in A. lia. }
  exists j. rewrite Nat.div2_div.
  replace (2 ^ S j / 2) with (2^j) by (cbn [Nat.pow]; rewrite Nat.mul_comm, Nat.div_mul; lia).
  cbn [Nat.pow] in *. repeat split; lia.
Qed.

Lemma half_pow2 j : half (2^(S j)) = 2^j.
Proof.
  assert (H2: 2 <= 2^(S j)). { cbn [Nat.pow]. pose proof (Nat.pow_nonzero 2 j); lia. }
  destruct (half_spec _ H2) as (i & E & L & U).
  assert (i = j).
  { destruct (Nat.lt_trichotomy i j) as [Hl|[He|Hg]]; auto.
    - assert (2^(S i) <= 2^j) by (apply Nat.pow_le_mono_r; lia).
      cbn [Nat.pow] in *. lia.
    - assert (2^(S j) <= 2^i) by (apply Nat.pow_le_mono_r; lia). lia. }
  subst i. pose proof (half_bounds _ H2). cbn [Nat.pow] in *. lia.
Qed.

Section BT.
Context {A:Type} (f:A->A->A) (d:A).

Lemma btree_fuel fuel : forall l fuel', length l <= fuel -> length l <= fuel' -> btree f d fuel l = btree f d fuel' l.
Proof.
  induction fuel; intros l fuel' H1 H2.
  - destruct l; [|cbn in H1; lia]. destruct fuel'; reflexivity.
  - destruct l as [|x [|y l']]; try (destruct fuel'; reflexivity).
    destruct fuel' as [|fu']; [cbn in H2; lia|].
    cbn [btree]. set (L := x :: y :: l') in *.
    assert (HL: 2 <= length L) by (subst L; cbn; lia).
    pose proof (half_bounds _ HL) as Hh.
    f_equal; apply IHfuel; rewrite ?firstn_length, ?skipn_length; lia.
Qed.

Lemma btree_S fu x y l' : btree f d (S fu) (x::y::l') =
  f (btree f d fu (firstn (half (length (x::y::l'))) (x::y::l'))) (btree f d fu (skipn (half (length (x::y::l'))) (x::y::l'))).
Proof. reflexivity. Qed.

Lemma bt_split l : 2 <= length l ->
  bt f d l = f (bt f d (firstn (half (length l)) l)) (bt f d (skipn (half (length l)) l)).
Proof.
  intros H. pose proof (half_bounds _ H) as Hh. unfold bt.
  destruct l as [|x [|y l']]; try (cbn in H; lia).
  change (length (x::y::l')) with (S (S (length l'))) at 1.
  rewrite btree_S.
  f_equal; apply btree_fuel; rewrite ?firstn_length, ?skipn_length; cbn [length] in *; lia.
Qed.
Lemma bt_nil : bt f d [] = d. Proof. reflexivity. Qed.
Lemma bt_one x : bt f d [x] = x. Proof. reflexivity. Qed.
Lemma bt_two x y : bt f d [x;y] = f x y. Proof. reflexivity. Qed.

Lemma bt_app l1 l2 : 1 <= length l1 -> 1 <= length l2 -> length l1 = half (length l1 + length l2) ->
  bt f d (l1 ++ l2) = f (bt f d l1) (bt f d l2).
Proof.
  intros H1 H2 Hh. rewrite bt_split by (rewrite app_length; lia).
  rewrite app_length, <- Hh.
  rewrite firstn_app, Nat.sub_diag, firstn_O, app_nil_r, firstn_all.
  rewrite skipn_app, Nat.sub_diag, skipn_all. reflexivity.
Qed.
End BT.

Lemma F2_length {A B} (R:A->B->Prop) l1 l2 : Forall2 R l1 l2 -> length l1 = length l2.
Proof. induction 1; cbn; auto. Qed.
Lemma F2_firstn {A B} (R:A->B->Prop) k : forall l1 l2, Forall2 R l1 l2 -> Forall2 R (firstn k l1) (firstn k l2).
Proof. induction k; intros l1 l2 H; cbn; [constructor|]. destruct H; constructor; auto. Qed.
Lemma F2_skipn {A B} (R:A->B->Prop) k : forall l1 l2, Forall2 R l1 l2 -> Forall2 R (skipn k l1) (skipn k l2).
Proof. induction k; intros l1 l2 H; cbn; auto. destruct H; auto. Qed.

(* relational transfer *)
Lemma bt_rel {A B} (R:A->B->Prop) f g da db :
  R da db -> (forall a b a' b', R a b -> R a' b' -> R (f a a') (g b b')) ->
  forall l1 l2, Forall2 R l1 l2 -> R (bt f da l1) (bt g db l2).
Proof.
  intros Hd Hf l1. remember (length l1) as n eqn:E. revert l1 E.
  induction n as [n IH] using lt_wf_ind; intros l1 E l2 H.
  pose proof (F2_length _ _ _ H) as HL.
  destruct (Nat.le_gt_cases 2 (length l1)) as [H2|H2].
  - rewrite (bt_split f da l1 H2). rewrite (bt_split g db l2) by lia. rewrite <- HL.
    pose proof (half_bounds _ H2) as Hh.
    apply Hf.
    + eapply IH; [|reflexivity|apply F2_firstn; exact H]. rewrite firstn_length; lia.
    + eapply IH; [|reflexivity|apply F2_skipn; exact H]. rewrite skipn_length; lia.
  - destruct H as [|x y l1 l2 Hxy H]; [exact Hd|].
    destruct H; [exact Hxy| cbn in H2; lia].
Qed.

(* homomorphism *)
Lemma bt_hom {A B} (h:A->B) f g da db :
  h da = db -> (forall a b, h (f a b) = g (h a) (h b)) -> forall l, h (bt f da l) = bt g db (map h l).
Proof.
  intros Hd Hf l. remember (length l) as n eqn:E. revert l E.
  induction n as [n IH] using lt_wf_ind; intros l E.
  destruct (Nat.le_gt_cases 2 (length l)) as [H2|H2].
  - rewrite (bt_split f da l H2). rewrite (bt_split g db (map h l)) by (rewrite map_length; lia).
    rewrite map_length, Hf. pose proof (half_bounds _ H2) as Hh.
    rewrite firstn_map, skipn_map.
    f_equal; eapply IH; try reflexivity; rewrite ?firstn_length, ?skipn_length; lia.
  - destruct l as [|x [|y l]]; cbn in H2; try lia; [exact Hd | reflexivity].
Qed.

Lemma fr_app {A} (f:A->A->A) d : (forall a b c, f a (f b c) = f (f a b) c) -> (forall a, f d a = a) ->
  forall l1 l2, f (fold_right f d l1) (fold_right f d l2) = fold_right f d (l1 ++ l2).
Proof. intros Ha Hl. induction l1; intros l2; cbn; [apply Hl|]. rewrite <- IHl1, Ha. reflexivity. Qed.

Lemma bt_assoc {A} (f:A->A->A) d :
  (forall a b c, f a (f b c) = f (f a b) c) -> (forall a, f a d = a) -> (forall a, f d a = a) ->
  forall l, bt f d l = fold_right f d l.
Proof.
  intros Ha Hr Hl l. remember (length l) as n eqn:E. revert l E.
  induction n as [n IH] using lt_wf_ind; intros l E.
  destruct (Nat.le_gt_cases 2 (length l)) as [H2|H2].
  - rewrite (bt_split f d l H2). pose proof (half_bounds _ H2) as Hh.
    rewrite (IH (length (firstn (half (length l)) l))) by (rewrite ?firstn_length; try reflexivity; lia).
    rewrite (IH (length (skipn (half (length l)) l))) by (rewrite ?skipn_length; try reflexivity; lia).
    rewrite fr_app by assumption. now rewrite firstn_skipn.
  - destruct l as [|x [|y l]]; cbn in H2; try lia; [reflexivity|]. unfold bt; cbn. now rewrite Hr.
Qed.

(* inversion *)
Lemma bt_inv {A B} (R:A->B->Prop) f g da db :
  (forall a, R a db -> a = da) ->
  (forall a b1 b2, R a (g b1 b2) -> exists a1 a2, a = f a1 a2 /\ R a1 b1 /\ R a2 b2) ->
  forall l2 a, R a (bt g db l2) -> exists l1, a = bt f da l1 /\ Forall2 R l1 l2.
Proof.
  intros Hu Hn l2. remember (length l2) as n eqn:E. revert l2 E.
  induction n as [n IH] using lt_wf_ind; intros l2 E a H.
  destruct (Nat.le_gt_cases 2 (length l2)) as [H2|H2].
  - rewrite (bt_split g db l2 H2) in H. pose proof (half_bounds _ H2) as Hh.
    destruct (Hn _ _ _ H) as (a1 & a2 & -> & H1 & H2').
    assert (La0: length (firstn (half (length l2)) l2) < n) by (rewrite firstn_length; lia).
    assert (Lb0: length (skipn (half (length l2)) l2) < n) by (rewrite skipn_length; lia).
    destruct (IH _ La0 _ eq_refl _ H1) as (l1a & -> & F1).
    destruct (IH _ Lb0 _ eq_refl _ H2') as (l1b & -> & F2).
    exists (l1a ++ l1b). split.
    + pose proof (F2_length _ _ _ F1) as La. pose proof (F2_length _ _ _ F2) as Lb.
      rewrite firstn_length in La. rewrite skipn_length in Lb.
      symmetry. apply bt_app; try lia.
      replace (length l1a + length l1b) with (length l2) by lia. lia.
    + rewrite <- (firstn_skipn (half (length l2)) l2). apply Forall2_app; assumption.
  - destruct l2 as [|x [|y l2]]; cbn in H2; try lia.
    + exists []. split; [apply Hu; exact H | constructor].
    + exists [a]. split; [reflexivity | constructor; [exact H|constructor]].
Qed.

(* Unfolding a tree built by bt gives the leaves back, when [split] inverts [f] *)
Section UnfoldLemmas.
Context {A:Type} (f:A->A->A) (d:A) (split : A -> option (A*A)).
Hypothesis split_f : forall a b, split (f a b) = Some (a,b).

Lemma bt_unfold_fuel_bt fuel : forall l, length l <= fuel -> bt_unfold_fuel split fuel (length l) (bt f d l) = Some l.
Proof.
  induction fuel; intros l Hl.
  - destruct l; [reflexivity|cbn in Hl; lia].
  - destruct l as [|x [|y l']]; try reflexivity.
    set (L := x::y::l') in *.
    assert (H2: 2 <= length L) by (subst L; cbn; lia).
    pose proof (half_bounds _ H2) as Hh.
    change (length L) with (S (S (length l'))) at 1. cbn [bt_unfold_fuel].
    change (S (S (length l'))) with (length L).
    rewrite (bt_split f d L H2), split_f.
    assert (E1: half (length L) = length (firstn (half (length L)) L)) by (rewrite firstn_length; lia).
    assert (E2: length L - half (length L) = length (skipn (half (length L)) L)) by (rewrite skipn_length; lia).
    rewrite E1 at 1. rewrite IHfuel by (rewrite <- E1; cbn [length] in *; lia).
    rewrite E2. rewrite IHfuel by (rewrite <- E2; cbn [length] in *; lia).
    now rewrite firstn_skipn.
Qed.

Lemma bt_unfold_bt l : bt_unfold split (length l) (bt f d l) = Some l.
Proof. apply bt_unfold_fuel_bt. lia. Qed.
End UnfoldLemmas.
