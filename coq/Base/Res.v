(* Three-valued results: the Rust code returns Result and may panic (unwrap/expect/assert!/indexing). *)
From Coq Require Import List.
Import ListNotations.
Inductive res (A:Type) := Ok (a:A) | Err | Panic.
Arguments Ok {A} a. Arguments Err {A}. Arguments Panic {A}.
Definition rbind {A B} (r:res A) (k:A -> res B) : res B := match r with Ok a => k a | Err => Err | Panic => Panic end.
Definition rmap {A B} (f:A->B) (r:res A) : res B := match r with Ok a => Ok (f a) | Err => Err | Panic => Panic end.
Definition of_opt {A} (o:option A) : res A := match o with Some a => Ok a | None => Err end.
Section MapR.
Context {A B:Type} (F : A -> res B).
Fixpoint mapr (l:list A) : res (list B) :=
  match l with [] => Ok [] | a::l' => rbind (F a) (fun b => rmap (cons b) (mapr l')) end.
End MapR.
