(* Balanced binary tree view of a list — mirrors /repo/src/array.rs BTreeSlice:
   a slice of n >= 2 elements is split at  half n = n - next_power_of_two(n) / 2 . *)
From Coq Require Import List Arith Lia Bool.
Import ListNotations.

(* smallest power of two >= n, by doubling (usize::next_power_of_two) *)
Fixpoint p2c_aux (fuel n acc:nat) : nat :=
  match fuel with 0 => acc | S f => if n <=? acc then acc else p2c_aux f n (2*acc) end.
Definition pow2ceil (n:nat) : nat := p2c_aux n n 1.
Definition half (n:nat) : nat := n - Nat.div2 (pow2ceil n).

Section BT.
Context {A:Type} (f:A->A->A) (d:A).
(* BTreeSlice::fold; [d] is the value callers substitute for the empty tree (unwrap_or) *)
Fixpoint btree (fuel:nat) (l:list A) : A :=
  match l with
  | [] => d
  | [x] => x
  | _ => match fuel with 0 => d | S fu =>
           let h := half (length l) in f (btree fu (firstn h l)) (btree fu (skipn h l)) end
  end.
Definition bt (l:list A) : A := btree (length l) l.
End BT.

(* Unfolder::unfold : split a tree back into n leaves; n = 0 yields nothing whatever the tree is *)
Section Unfold.
Context {A:Type} (split : A -> option (A*A)).
Fixpoint bt_unfold_fuel (fuel n:nat) (t:A) : option (list A) :=
  match n with
  | 0 => Some []
  | 1 => Some [t]
  | _ => match fuel with 0 => None | S fu =>
      match split t with
      | None => None
      | Some (a,b) => let h := half n in
          match bt_unfold_fuel fu h a, bt_unfold_fuel fu (n - h) b with
          | Some l1, Some l2 => Some (l1 ++ l2) | _, _ => None end
      end end
  end.
Definition bt_unfold (n:nat) (t:A) : option (list A) := bt_unfold_fuel n n t.
End Unfold.
