(* Occurrences of `param::NAME`:
     eparams          in the typed AST (Lang/Ast.v), with the type recorded at the node; the bodies of the
                      custom functions inlined at call / fold / for_while nodes ([EFn]) are included;
     pparams_src      in the parse tree (Front/PTree.v), names only (the parse tree has no types);
     pparams_program  in all function items of a program (main and every other function, called or not).
   Both lists are in the order in which a successful analysis (Front/Analyze.v) visits the nodes; an [EFn]
   node lists the inlined body (analysed when the function was defined) before the arguments.
   Definitions only; theorems are in Proofs/ParamsExact.v. *)
From Coq Require Import List NArith.
Import ListNotations.
Require Import SV.Layout.Ty SV.Layout.Value SV.Lang.Ast SV.Front.PTree SV.Front.Analyze.

Fixpoint eparams (e:expr) : list (N*ty) :=
  match e with
  | EBlock _ stmts last =>
      flat_map (fun sm => eparams (snd sm)) stmts ++ match last with Some l => eparams l | None => [] end
  | EConst _ _ | EWitness _ _ | EVar _ _ | ENone _ => []
  | EParam t n => [(n, t)]
  | EParen e1 | ELeft _ e1 | ERight _ e1 | ESome _ e1 => eparams e1
  | ETuple _ es | EArray _ es | EList _ es | ECall _ _ es => flat_map eparams es
  | EFn _ _ _ body args => eparams body ++ flat_map eparams args
  | EMatch _ s _ el _ er => eparams s ++ eparams el ++ eparams er
  end.

Fixpoint pparams_src (e:pexpr) : list N :=
  match e with
  | PBlock stmts last =>
      flat_map (fun sm => pparams_src (snd sm)) stmts ++ match last with Some l => pparams_src l | None => [] end
  | PBool _ | PLit _ | PWitness _ | PVar _ | PNone => []
  | PParam n => [n]
  | PParen e1 | PLeft e1 | PRight e1 | PSome e1 => pparams_src e1
  | PTuple es | PArray es | PList es | PCall _ _ es => flat_map pparams_src es
  | PMatch s _ el _ er => pparams_src s ++ pparams_src el ++ pparams_src er
  end.

(* Only function items hold expressions: a type alias has none, and parse::Item::Module carries no content
   at all (parse.rs 53, 858: the items of a `mod` are parsed by a different entry point). *)
Definition pparams_item (it:pitem) : list N :=
  match it with IFunction _ _ _ body => pparams_src body | ITypeAlias _ _ | IModule => [] end.
Definition pparams_program (p:pprogram) : list N := flat_map pparams_item p.

(* the parameter occurrences of all bodies of a function table (Scope::functions) *)
Definition fenv_params (fn:list (N*fdef)) : list (N*ty) := flat_map (fun d => eparams (snd (snd d))) fn.
