(* Parse-tree datatypes — mirrors /repo/src/parse.rs 28-416 (Program, Item, Function, FunctionParam,
   Statement, Assignment, Expression, SingleExpressionInner, Call, CallName, Match, MatchArm,
   MatchPattern) and /repo/src/types.rs 487-502 (AliasedType).

   Conventions (fixed by the harness that dumps the Rust parse tree):
   - identifiers, function names, alias names, witness / parameter names, jet names and builtin
     alias names are interned as [N]; equality is [N.eqb];
   - every call node carries the id [sp] of its source span (unique per call site of a parsed file);
   - parse.rs has two layers, Expression {Single | Block} and SingleExpression; every child of a
     SingleExpression is an Expression, so one type [pexpr] with a [PBlock] constructor is the same tree;
   - the two arms of a match are stored in the normalised order produced by Match::parse
     (left / none / false arm first);
   - a literal holds the digit string after `_` and the 0b / 0x prefix were stripped
     (Decimal / Binary / Hexadecimal :: parse);
   - integer types are [AUInt k] = the 2^k-bit integer (k = 0..8), list bounds are [AList a k] = bound 2^k;
     the Rust types UIntType and NonZeroPow2Usize can only represent k <= 8 resp. k >= 1. *)
From Coq Require Import List NArith.
Import ListNotations.
Require Import SV.Layout.Ty SV.Layout.Value SV.Lang.Ast.

(* pattern.rs Pattern is exactly Lang/Ast.v [pat]: PId | PIgn | PTup | PArr *)
Definition ppat := pat.

(* NOTE: the constructors ABool AUInt ATuple AArray AList shadow the constructors of the same name of
   [Value.value]; files that need both write Value.ABool etc. for the value constructors. *)
Inductive aty :=
| AAlias (n:N) | ABuiltin (n:N)
| AEither (a b:aty) | AOption (a:aty) | ABool | AUInt (k:nat)
| ATuple (ts:list aty) | AArray (a:aty) (n:nat) | AList (a:aty) (k:nat).

Inductive mpat :=
| MLeft (x:N) (t:aty) | MRight (x:N) (t:aty) | MNone | MSome (x:N) (t:aty) | MFalse | MTrue.

Inductive pcallname :=
| PJet (n:N) | PUnwrapLeft (t:aty) | PUnwrapRight (t:aty) | PIsNone (t:aty) | PUnwrap | PAssert | PPanic | PDebug
| PCast (t:aty) | PCustom (f:N) | PFold (f:N) (k:nat) | PForWhile (f:N).

Inductive lit := LDec (s:list N) | LBin (s:list N) | LHex (s:list N).

Inductive pexpr :=
| PBlock (stmts:list (option (ppat*aty) * pexpr)) (last:option pexpr)  (* Some (p,t) = let p: t = e;   None = e; *)
| PBool (b:bool)
| PLit (l:lit)
| PWitness (n:N)
| PParam (n:N)
| PVar (x:N)
| PParen (e:pexpr)
| PTuple (es:list pexpr)
| PArray (es:list pexpr)
| PList (es:list pexpr)
| PLeft (e:pexpr)
| PRight (e:pexpr)
| PNone
| PSome (e:pexpr)
| PCall (sp:N) (name:pcallname) (args:list pexpr)
| PMatch (scrut:pexpr) (lp:mpat) (el:pexpr) (rp:mpat) (er:pexpr).

Inductive pitem :=
| ITypeAlias (n:N) (t:aty)
| IFunction (name:N) (params:list (N*aty)) (ret:option aty) (body:pexpr)
| IModule.

Definition pprogram := list pitem.

(* ---------- induction principle for the nested parse tree ---------- *)
Definition popt_P (P:pexpr->Prop) (o:option pexpr) : Prop := match o with Some e => P e | None => True end.
Section PExprInd.
Variable P : pexpr -> Prop.
Hypothesis HBlock : forall stmts last, Forall (fun s => P (snd s)) stmts -> popt_P P last -> P (PBlock stmts last).
Hypothesis HBool : forall b, P (PBool b).
Hypothesis HLit : forall l, P (PLit l).
Hypothesis HWitness : forall n, P (PWitness n).
Hypothesis HParam : forall n, P (PParam n).
Hypothesis HVar : forall x, P (PVar x).
Hypothesis HParen : forall e, P e -> P (PParen e).
Hypothesis HTuple : forall es, Forall P es -> P (PTuple es).
Hypothesis HArray : forall es, Forall P es -> P (PArray es).
Hypothesis HList : forall es, Forall P es -> P (PList es).
Hypothesis HLeft : forall e, P e -> P (PLeft e).
Hypothesis HRight : forall e, P e -> P (PRight e).
Hypothesis HNone : P PNone.
Hypothesis HSome : forall e, P e -> P (PSome e).
Hypothesis HCall : forall sp name args, Forall P args -> P (PCall sp name args).
Hypothesis HMatch : forall s lp el rp er, P s -> P el -> P er -> P (PMatch s lp el rp er).
Fixpoint pexpr_ind' (e:pexpr) : P e :=
  let go := (fix go l : Forall P l := match l with [] => Forall_nil _ | x::l' => Forall_cons _ (pexpr_ind' x) (go l') end) in
  match e with
  | PBlock stmts last => HBlock stmts last
      ((fix gs l : Forall (fun s => P (snd s)) l :=
          match l with [] => Forall_nil _ | x::l' => Forall_cons _ (pexpr_ind' (snd x)) (gs l') end) stmts)
      (match last as o return popt_P P o with Some e' => pexpr_ind' e' | None => I end)
  | PBool b => HBool b
  | PLit l => HLit l
  | PWitness n => HWitness n
  | PParam n => HParam n
  | PVar x => HVar x
  | PParen e' => HParen e' (pexpr_ind' e')
  | PTuple es => HTuple es (go es)
  | PArray es => HArray es (go es)
  | PList es => HList es (go es)
  | PLeft e' => HLeft e' (pexpr_ind' e')
  | PRight e' => HRight e' (pexpr_ind' e')
  | PNone => HNone
  | PSome e' => HSome e' (pexpr_ind' e')
  | PCall sp name args => HCall sp name args (go args)
  | PMatch s lp el rp er => HMatch s lp el rp er (pexpr_ind' s) (pexpr_ind' el) (pexpr_ind' er)
  end.
End PExprInd.

Section ATyInd.
Variable P : aty -> Prop.
Hypothesis HAl : forall n, P (AAlias n).
Hypothesis HBu : forall n, P (ABuiltin n).
Hypothesis HE : forall a b, P a -> P b -> P (AEither a b).
Hypothesis HO : forall a, P a -> P (AOption a).
Hypothesis HB : P ABool.
Hypothesis HU : forall k, P (AUInt k).
Hypothesis HT : forall ts, Forall P ts -> P (ATuple ts).
Hypothesis HA : forall a n, P a -> P (AArray a n).
Hypothesis HL : forall a k, P a -> P (AList a k).
Fixpoint aty_ind' (t:aty) : P t :=
  match t with
  | AAlias n => HAl n
  | ABuiltin n => HBu n
  | AEither a b => HE a b (aty_ind' a) (aty_ind' b)
  | AOption a => HO a (aty_ind' a)
  | ABool => HB
  | AUInt k => HU k
  | ATuple ts => HT ts ((fix go l : Forall P l := match l with [] => Forall_nil _ | x::l' => Forall_cons _ (aty_ind' x) (go l') end) ts)
  | AArray a n => HA a n (aty_ind' a)
  | AList a k => HL a k (aty_ind' a)
  end.
End ATyInd.
