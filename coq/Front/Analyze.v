(* Executable model of the type-directed analysis  parse tree -> typed AST  of /repo/src/ast.rs:
     478-664   Scope (variables stack, aliases, parameters, witnesses, functions, is_main, call tracker)
     679-705   Program::analyze        707-727  Item::analyze        729-792  Function::analyze
     794-832   Statement / Assignment  849-889  Expression::analyze  891-1041 SingleExpression::analyze
     1043-1232 Call::analyze           1234-1324 CallName::analyze   1326-1363 Match::analyze
   /repo/src/parse.rs 345-354 (Match::scrutinee_type), /repo/src/pattern.rs 51-77 (Pattern::is_of_type),
   /repo/src/types.rs 562-613 (AliasedType::resolve), /repo/src/debug.rs 115-130 (CallTracker::track_call),
   /repo/src/value.rs 92-178, 624-646 (literals; modelled in Text/Literal.v).

   Result convention (Base/Res.v): [Err] where the Rust returns Err (all error values are collapsed),
   [Panic] where an unwrap / expect / assert! / unreachable! / index would panic.  Whenever two checks
   can both fail, the model performs them in the order of the Rust code, so that Panic-vs-Err priority
   and the state at the time of a Panic are the same.

   HashMaps are association lists with first-match lookup ([lookupN]):
     - HashMap::insert (override)          = cons in front                (variables, aliases)
     - Entry::Occupied => Err              = lookupN .. = Some _ => Err   (witnesses, functions)
     - parameters: Occupied with the same type is accepted, with a different type is an Err.
   Only `get` is ever applied to these maps by ast.rs (plus the final conversion into Parameters /
   WitnessTypes, which the harness sorts by name), so the list order is unobservable.

   Not representable in Rust and therefore given an arbitrary answer here ([Err]):
     - a list bound 2^0 ([TList a 0] at a list literal, [PFold f 0]): NonZeroPow2Usize is > 1;
     - an unknown builtin alias id ([balias n = None]); a jet index without signature ([jsig j = None]).
   Model only; theorems are in Proofs/AnalyzeSound.v. *)
From Coq Require Import List Arith NArith Bool.
Import ListNotations.
Require Import SV.Base.Util SV.Base.Res SV.Layout.Ty SV.Layout.Value SV.Lang.Ast SV.Lang.WT
               SV.Text.Literal SV.Front.PTree.

(* debug.rs TrackedCallName *)
Inductive kind :=
| KAssert | KPanic | KJet | KUnwrapLeft (t:ty) | KUnwrapRight (t:ty) | KUnwrap | KDebug (t:ty).

(* ---------- state-passing list traversals (Iterator::map(..).collect::<Result<_,_>>() with &mut scope) ---------- *)
Section MapSt.
Context {A B S:Type} (F : A -> S -> res (B*S)).
Fixpoint map_st (l:list A) (s:S) : res (list B * S) :=
  match l with
  | [] => Ok ([], s)
  | a::l' => rbind (F a s) (fun '(b, s1) => rbind (map_st l' s1) (fun '(bs, s2) => Ok (b::bs, s2)))
  end.
End MapSt.
Section Map2St.
Context {A T B S:Type} (F : A -> T -> S -> res (B*S)).
(* iter().zip(tys.iter()): stops at the shorter list (the lengths were compared before every use) *)
Fixpoint map2_st (l:list A) (ts:list T) (s:S) : res (list B * S) :=
  match l, ts with
  | a::l', t::ts' => rbind (F a t s) (fun '(b, s1) => rbind (map2_st l' ts' s1) (fun '(bs, s2) => Ok (b::bs, s2)))
  | _, _ => Ok ([], s)
  end.
End Map2St.

(* ---------- the mutable part of Scope ---------- *)
(* [vars]: the stack of variable maps, innermost first (Rust: last element of the Vec).
   [tlog]: the calls given to CallTracker::track_call, newest first; the id of an entry is its
   position counted from the END of the list (next_id is incremented by every call). *)
Record st := mkSt { vars : list ctx; params : ctx; wits : ctx; tlog : list (N*kind) }.
Definition set_vars (s:st) (v:list ctx) : st := mkSt v (params s) (wits s) (tlog s).
Definition set_params (s:st) (p:ctx) : st := mkSt (vars s) p (wits s) (tlog s).
Definition set_wits (s:st) (w:ctx) : st := mkSt (vars s) (params s) w (tlog s).
(* Scope::track_call *)
Definition track (sp:N) (k:kind) (s:st) : st := mkSt (vars s) (params s) (wits s) ((sp,k) :: tlog s).
Definition track_opt (sp:N) (o:option kind) (s:st) : st := match o with Some k => track sp k s | None => s end.

(* Scope::get_variable: innermost scope that has the identifier *)
Fixpoint get_variable (vs:list ctx) (x:N) : option ty :=
  match vs with
  | [] => None
  | m::r => match lookupN m x with Some t => Some t | None => get_variable r x end
  end.
(* Scope::push_scope *)
Definition push_scope (vs:list ctx) : list ctx := [] :: vs.
(* Scope::pop_scope: .pop().expect("Stack is empty") *)
Definition pop_scope (vs:list ctx) : res (list ctx) := match vs with _::r => Ok r | [] => Panic end.
(* Scope::insert_variable: .last_mut().expect("Stack is empty").insert(..) *)
Definition insert_variable (x:N) (t:ty) (vs:list ctx) : res (list ctx) :=
  match vs with m::r => Ok (((x,t)::m)::r) | [] => Panic end.
(* `for (identifier, ty) in typed_variables { scope.insert_variable(identifier, ty); }` where
   typed_variables is the HashMap returned by is_of_type: its keys are pairwise distinct, so the
   resulting map does not depend on the (unspecified) iteration order; no insertion, hence no
   panic, happens for an empty map. *)
Definition insert_vars (c:ctx) (vs:list ctx) : res (list ctx) :=
  match c with
  | [] => Ok vs
  | _ => match vs with m::r => Ok ((c ++ m)::r) | [] => Panic end
  end.

(* n < 2^k, computed without building 2^k (list bounds can be large; the numbers are unary after extraction) *)
Fixpoint lt_pow2 (k n:nat) : bool :=
  match k with
  | 0 => Nat.eqb n 0
  | S k' => match n with 0 => true | _ => lt_pow2 k' (Nat.div2 n) end
  end.

(* keys of an association list are pairwise distinct *)
Fixpoint nodup_keys (c:ctx) : bool :=
  match c with [] => true | (x,_)::c' => match lookupN c' x with Some _ => false | None => nodup_keys c' end end.

(* Pattern::is_of_type.  The Rust walks the pattern with an explicit stack (right-to-left) and fails
   on the first shape mismatch or repeated identifier; since all errors are one [Err], the outcome is:
   Ok exactly if the shapes match everywhere (same tuple length, same array size: [pat_ctx]) and no
   identifier occurs twice; the map then holds the bindings of [pat_ctx]. *)
Definition is_of_type (p:pat) (t:ty) : res ctx :=
  match pat_ctx p t with
  | None => Err
  | Some c => if nodup_keys c then Ok c else Err
  end.

(* parse.rs Match::scrutinee_type *)
Definition scrutinee_type (lp rp:mpat) : res aty :=
  match lp, rp with
  | MLeft _ tl, MRight _ tr => Ok (AEither tl tr)
  | MNone, MSome _ tr => Ok (AOption tr)
  | MFalse, MTrue => Ok PTree.ABool
  | _, _ => Panic                                   (* unreachable!() *)
  end.
(* MatchPattern::as_typed_variable / as_variable *)
Definition typed_var (p:mpat) : option (N*aty) :=
  match p with MLeft x t | MRight x t | MSome x t => Some (x,t) | MNone | MFalse | MTrue => None end.
Definition arm_var (p:mpat) : option N := option_map fst (typed_var p).

(* a custom function: resolved parameters and analysed body (ast::CustomFunction) *)
Definition fdef := (list (N*ty) * expr)%type.

(* ast::CallName *)
Inductive cname :=
| CJet (j:N) | CUnwrapLeft (r:ty) | CUnwrapRight (l:ty) | CIsNone (a:ty) | CUnwrap | CAssert | CPanic | CDebug
| CCast (src:ty) | CCustom (f:fdef) | CFold (f:fdef) (k:nat) | CFor (f:fdef) (w:nat).

(* what Call::analyze does after CallName::analyze, as data:
   argument types, call tracked BEFORE the arguments are analysed, call tracked AFTER, AST constructor *)
Definition plan := (list ty * option kind * option kind * (list expr -> expr))%type.

Section Analyze.
Variable jlook : N -> option N.                 (* jet name id -> index in Elements::ALL; None: unknown, verify, check_sig_verify *)
Variable jsig : N -> option (list ty * ty).     (* jet index -> resolved source types and target type *)
Variable balias : N -> option ty.               (* BuiltinAlias::resolve *)
Variable main_name : N.                         (* the id of "main" *)

(* AliasedType::resolve with get_alias = the scope's alias map (Scope::resolve).  Post-order traversal
   failing at the first undefined alias; every failure is the same [Err]. *)
Fixpoint resolve (al:list (N*ty)) (a:aty) {struct a} : res ty :=
  match a with
  | AAlias n => of_opt (lookupN al n)
  | ABuiltin n => of_opt (balias n)
  | AEither a1 a2 => rbind (resolve al a1) (fun x => rbind (resolve al a2) (fun y => Ok (TEither x y)))
  | AOption a1 => rmap TOption (resolve al a1)
  | PTree.ABool => Ok TBool
  | PTree.AUInt k => Ok (TUInt k)
  | PTree.ATuple ts => rmap TTuple (mapr (fun a0 => resolve al a0) ts)
  | PTree.AArray a1 n => rmap (fun x => TArray x n) (resolve al a1)
  | PTree.AList a1 k => rmap (fun x => TList x k) (resolve al a1)
  end.

Section Expr.
Variable al : list (N*ty).          (* Scope::aliases   (constant while an expression is analysed) *)
Variable fn : list (N*fdef).        (* Scope::functions (constant while an expression is analysed) *)
Variable is_main : bool.            (* Scope::is_main *)

(* CallName::analyze (1234-1324) *)
Definition analyze_callname (name:pcallname) : res cname :=
  match name with
  | PJet n => match jlook n with Some j => Ok (CJet j) | None => Err end
  | PUnwrapLeft a => rmap CUnwrapLeft (resolve al a)
  | PUnwrapRight a => rmap CUnwrapRight (resolve al a)
  | PIsNone a => rmap CIsNone (resolve al a)
  | PUnwrap => Ok CUnwrap
  | PAssert => Ok CAssert
  | PPanic => Ok CPanic
  | PDebug => Ok CDebug
  | PCast a => rmap CCast (resolve al a)
  | PCustom f => match lookupN fn f with Some d => Ok (CCustom d) | None => Err end
  | PFold f k =>
      match k with 0 => Err (* bound 2^0 is not a NonZeroPow2Usize *) | _ =>
      match lookupN fn f with
      | None => Err
      | Some (ps, body) =>
          (* params().len() != 2 || params()[1].ty() != body().ty() *)
          match ps with
          | [_; (_, a)] => if ty_eqb a (ty_of body) then Ok (CFold (ps, body) k) else Err
          | _ => Err
          end
      end end
  | PForWhile f =>
      match lookupN fn f with
      | None => Err
      | Some (ps, body) =>
          match ps with
          | [(_, a); _; (_, c)] =>
              match ty_of body with
              | TEither _ r =>
                  if ty_eqb r a then
                    match c with
                    | TUInt w => if Nat.leb w 4 then Ok (CFor (ps, body) w) else Err    (* u1 .. u16 *)
                    | _ => Err
                    end
                  else Err
              | _ => Err
              end
          | _ => Err
          end
      end
  end.

(* Call::analyze (1088-1224) up to the analysis of the arguments; [n] = from.args().len() *)
Definition call_plan (cn:cname) (t:ty) (n:nat) : res plan :=
  match cn with
  | CJet j =>
      match jsig j with
      | None => Err
      | Some (ps, r) =>
          if negb (Nat.eqb n (length ps)) then Err else
          if negb (ty_eqb r t) then Err else
          Ok (ps, Some KJet, None, ECall t (BJet j))
      end
  | CUnwrapLeft r =>
      let a := TEither t r in
      if negb (Nat.eqb n 1) then Err else Ok ([a], None, Some (KUnwrapLeft a), ECall t BUnwrapLeft)
  | CUnwrapRight l =>
      let a := TEither l t in
      if negb (Nat.eqb n 1) then Err else Ok ([a], None, Some (KUnwrapRight a), ECall t BUnwrapRight)
  | CIsNone a =>
      if negb (Nat.eqb n 1) then Err else
      if negb (ty_eqb TBool t) then Err else
      Ok ([TOption a], None, None, ECall t BIsNone)
  | CUnwrap =>
      if negb (Nat.eqb n 1) then Err else Ok ([TOption t], Some KUnwrap, None, ECall t BUnwrap)
  | CAssert =>
      if negb (Nat.eqb n 1) then Err else
      if negb (ty_eqb TUnit t) then Err else
      Ok ([TBool], Some KAssert, None, ECall t BAssert)
  | CPanic =>
      if negb (Nat.eqb n 0) then Err else Ok ([], Some KPanic, None, ECall t BPanic)
  | CDebug =>
      if negb (Nat.eqb n 1) then Err else Ok ([t], None, Some (KDebug t), ECall t BDebug)
  | CCast src =>
      if negb (cast_ok src t) then Err else
      if negb (Nat.eqb n 1) then Err else Ok ([src], None, None, ECall t (BCast src))
  | CCustom (ps, body) =>
      if negb (Nat.eqb n (length ps)) then Err else
      if negb (ty_eqb (ty_of body) t) then Err else
      Ok (map snd ps, None, None, EFn t KCustom ps body)
  | CFold (ps, body) k =>
      match ps with
      | [] => Panic                                  (* params().first().expect("foldable function") *)
      | (_, e) :: ps' =>
          match ps' with
          | [] => Panic                              (* params().get(1).expect("foldable function") *)
          | (_, a) :: _ =>
              if negb (Nat.eqb n 2) then Err else
              if negb (ty_eqb (ty_of body) t) then Err else
              Ok ([TList e k; a], None, None, EFn t (KFold k) ps body)
          end
      end
  | CFor (ps, body) w =>
      match ps with
      | [] => Panic                                  (* params().first().expect("loopable function") *)
      | (_, a) :: ps' =>
          match ps' with
          | [] => Panic                              (* params().get(1).expect("loopable function") *)
          | (_, c) :: _ =>
              if negb (Nat.eqb n 2) then Err else
              if negb (ty_eqb (ty_of body) t) then Err else
              Ok ([a; c], None, None, EFn t (KFor w) ps body)
          end
      end
  end.

(* literals (906-927): the expected type selects the parser *)
Definition analyze_lit (l:lit) (t:ty) : res expr :=
  match l with
  | LDec s => match t with
      | TUInt k => rmap (fun n => EConst t (Value.AUInt k n)) (parse_decimal k s)
      | _ => Err end
  | LBin s => match t with
      | TUInt k => rmap (fun n => EConst t (Value.AUInt k n)) (parse_binary k s)
      | _ => Err end
  | LHex s => match t with
      | TUInt k => rmap (fun n => EConst t (Value.AUInt k n)) (parse_hex_uint k s)
      | TArray (TUInt 3) n =>
          rmap (fun bytes => EConst t (Value.AArray (map (Value.AUInt 3) bytes) (TUInt 3))) (parse_hex_bytes n s)
      | _ => Err end
  end.

(* Scope::insert_witness *)
Definition insert_witness (n:N) (t:ty) (s:st) : res st :=
  if negb is_main then Err else
  match lookupN (wits s) n with
  | Some _ => Err
  | None => Ok (set_wits s ((n,t) :: wits s))
  end.
(* Scope::insert_parameter *)
Definition insert_parameter (n:N) (t:ty) (s:st) : res st :=
  match lookupN (params s) n with
  | Some t' => if ty_eqb t' t then Ok s else Err
  | None => Ok (set_params s ((n,t) :: params s))
  end.

(* Statement::analyze / Assignment::analyze (794-832); [AE] is Expression::analyze *)
Definition stmt_step (AE : pexpr -> ty -> st -> res (expr*st))
                     (sm : option (ppat*aty) * pexpr) (s:st) : res ((option pat * expr) * st) :=
  match sm with
  | (Some (p, a), e) =>
      rbind (resolve al a) (fun te =>
      rbind (AE e te s) (fun '(e', s1) =>
      rbind (is_of_type p te) (fun c =>
      rbind (insert_vars c (vars s1)) (fun vs =>
      Ok ((Some p, e'), set_vars s1 vs)))))
  | (None, e) =>
      rbind (AE e TUnit s) (fun '(e', s1) => Ok ((None, e'), s1))
  end.

(* one arm of Match::analyze (1335-1341 / 1342-1348) *)
Definition arm_step (AE : pexpr -> ty -> st -> res (expr*st)) (mp:mpat) (e:pexpr) (t:ty) (s:st) : res (expr*st) :=
  let s1 := set_vars s (push_scope (vars s)) in
  rbind (match typed_var mp with
         | Some (x, a) =>
             rbind (resolve al a) (fun tx =>
             rbind (insert_variable x tx (vars s1)) (fun vs => Ok (set_vars s1 vs)))
         | None => Ok s1
         end) (fun s2 =>
  rbind (AE e t s2) (fun '(e', s3) =>
  rbind (pop_scope (vars s3)) (fun vs => Ok (e', set_vars s3 vs)))).

(* Expression::analyze + SingleExpression::analyze + Call::analyze + Match::analyze *)
Fixpoint analyze_expr (e:pexpr) (t:ty) (s:st) {struct e} : res (expr*st) :=
  match e with
  | PBlock stmts last =>
      let s1 := set_vars s (push_scope (vars s)) in
      rbind (map_st (stmt_step (fun e0 t0 s0 => analyze_expr e0 t0 s0)) stmts s1) (fun '(ss', s2) =>
      rbind (match last with
             | Some l => rbind (analyze_expr l t s2) (fun '(l', s3) => Ok (Some l', s3))
             | None => if is_unit t then Ok (None, s2) else Err
             end) (fun '(last', s3) =>
      rbind (pop_scope (vars s3)) (fun vs =>
      Ok (EBlock t ss' last', set_vars s3 vs))))
  | PBool b =>
      match t with TBool => Ok (EConst t (Value.ABool b), s) | _ => Err end
  | PLit l => rmap (fun e' => (e', s)) (analyze_lit l t)
  | PWitness n => rmap (fun s' => (EWitness t n, s')) (insert_witness n t s)
  | PParam n => rmap (fun s' => (EParam t n, s')) (insert_parameter n t s)
  | PVar x =>
      match get_variable (vars s) x with
      | None => Err
      | Some bound =>
          if negb (ty_eqb t bound) then Err else
          (* scope.insert_variable(identifier.clone(), ty.clone()): re-inserts the binding, with the same
             type, into the innermost scope *)
          rbind (insert_variable x t (vars s)) (fun vs => Ok (EVar t x, set_vars s vs))
      end
  | PParen e1 => rbind (analyze_expr e1 t s) (fun '(e1', s1) => Ok (EParen e1', s1))
  | PTuple es =>
      match t with
      | TTuple ts =>
          if negb (Nat.eqb (length es) (length ts)) then Err else
          rbind (map2_st (fun e0 t0 s0 => analyze_expr e0 t0 s0) es ts s) (fun '(es', s1) => Ok (ETuple t es', s1))
      | _ => Err
      end
  | PArray es =>
      match t with
      | TArray a n =>
          if negb (Nat.eqb (length es) n) then Err else
          rbind (map2_st (fun e0 t0 s0 => analyze_expr e0 t0 s0) es (repeat a (length es)) s) (fun '(es', s1) =>
          Ok (EArray t es', s1))
      | _ => Err
      end
  | PList es =>
      match t with
      | TList a k =>
          match k with 0 => Err (* bound 2^0 is not a NonZeroPow2Usize *) | _ =>
          if negb (lt_pow2 k (length es)) then Err else          (* bound.get() <= list.len() *)
          rbind (map2_st (fun e0 t0 s0 => analyze_expr e0 t0 s0) es (repeat a (length es)) s) (fun '(es', s1) =>
          Ok (EList t es', s1))
          end
      | _ => Err
      end
  | PLeft e1 =>
      match t with
      | TEither a _ => rbind (analyze_expr e1 a s) (fun '(e1', s1) => Ok (ELeft t e1', s1))
      | _ => Err end
  | PRight e1 =>
      match t with
      | TEither _ b => rbind (analyze_expr e1 b s) (fun '(e1', s1) => Ok (ERight t e1', s1))
      | _ => Err end
  | PNone =>
      match t with TOption _ => Ok (ENone t, s) | _ => Err end
  | PSome e1 =>
      match t with
      | TOption a => rbind (analyze_expr e1 a s) (fun '(e1', s1) => Ok (ESome t e1', s1))
      | _ => Err end
  | PCall sp name args =>
      rbind (analyze_callname name) (fun cn =>
      rbind (call_plan cn t (length args)) (fun '(tys, pre, post, build) =>
      let s1 := track_opt sp pre s in
      rbind (map2_st (fun e0 t0 s0 => analyze_expr e0 t0 s0) args tys s1) (fun '(args', s2) =>
      Ok (build args', track_opt sp post s2))))
  | PMatch scrut lp el rp er =>
      rbind (scrutinee_type lp rp) (fun sa =>
      rbind (resolve al sa) (fun sty =>
      rbind (analyze_expr scrut sty s) (fun '(scrut', s1) =>
      rbind (arm_step (fun e0 t0 s0 => analyze_expr e0 t0 s0) lp el t s1) (fun '(el', s2) =>
      rbind (arm_step (fun e0 t0 s0 => analyze_expr e0 t0 s0) rp er t s2) (fun '(er', s3) =>
      Ok (EMatch t scrut' (arm_var lp) el' (arm_var rp) er', s3))))))
  end.
End Expr.

(* ---------- items ---------- *)
(* the global part of Scope between items: the variable stack is empty and is_main is false there
   (push_main_scope / pop_main_scope and the assert!s of Item::analyze / Function::analyze can
   therefore not fail: is_topmost() holds and is_main was reset by pop_main_scope) *)
Record genv := mkGenv { g_al : list (N*ty); g_fn : list (N*fdef); g_params : ctx; g_wits : ctx; g_tlog : list (N*kind) }.

(* Function::analyze (729-792): [Some body] for main, [None] for a custom function *)
Definition analyze_function (name:N) (ps:list (N*aty)) (ret:option aty) (body:pexpr) (g:genv)
  : res (option expr * genv) :=
  if negb (N.eqb name main_name) then
    rbind (mapr (fun p : N*aty => rmap (fun t => (fst p, t)) (resolve (g_al g) (snd p))) ps) (fun ps' =>
    (* `params[..index].iter().any(|earlier| earlier.identifier() == param.identifier())` for every index:
       an Err exactly if two parameters have the same name *)
    if negb (nodup_keys ps') then Err else
    rbind (match ret with Some a => resolve (g_al g) a | None => Ok TUnit end) (fun rt =>
    (* push_scope; insert_variable for every parameter: the names are pairwise distinct, the map is [ps'] *)
    let s0 := mkSt [ps'] (g_params g) (g_wits g) (g_tlog g) in
    rbind (analyze_expr (g_al g) (g_fn g) false body rt s0) (fun '(body', s1) =>
    rbind (pop_scope (vars s1)) (fun _ =>
    (* Scope::insert_function *)
    match lookupN (g_fn g) name with
    | Some _ => Err
    | None => Ok (None, mkGenv (g_al g) ((name, (ps', body')) :: g_fn g) (params s1) (wits s1) (tlog s1))
    end))))
  else
    match ps with
    | _ :: _ => Err                                                   (* MainNoInputs *)
    | [] =>
        rbind (match ret with
               | Some a => rbind (resolve (g_al g) a) (fun rt => if is_unit rt then Ok tt else Err)   (* MainNoOutput *)
               | None => Ok tt
               end) (fun _ =>
        let s0 := mkSt [[]] (g_params g) (g_wits g) (g_tlog g) in               (* push_main_scope *)
        rbind (analyze_expr (g_al g) (g_fn g) true body TUnit s0) (fun '(body', s1) =>
        rbind (pop_scope (vars s1)) (fun _ =>                                    (* pop_main_scope *)
        Ok (Some body', mkGenv (g_al g) (g_fn g) (params s1) (wits s1) (tlog s1)))))
    end.

(* Item::analyze (707-727) *)
Definition analyze_item (it:pitem) (g:genv) : res (option expr * genv) :=
  match it with
  | ITypeAlias n a =>
      rbind (resolve (g_al g) a) (fun t =>
      Ok (None, mkGenv ((n,t) :: g_al g) (g_fn g) (g_params g) (g_wits g) (g_tlog g)))
  | IFunction name ps ret body => analyze_function name ps ret body g
  | IModule => Ok (None, g)
  end.

Definition genv0 : genv := mkGenv [] [] [] [] [].

(* the Function::Main items, in order *)
Fixpoint mains (l:list (option expr)) : list expr :=
  match l with [] => [] | Some e :: l' => e :: mains l' | None :: l' => mains l' end.

(* Program::analyze (679-705).
   Result: main, the parameter map and the witness map (as association lists with pairwise distinct
   keys, newest entry first), and the calls given to track_call in id order (id = position). *)
Definition analyze_program (p:pprogram) : res (expr * list (N*ty) * list (N*ty) * list (N*kind)) :=
  rbind (map_st analyze_item p genv0) (fun '(items, g) =>
  match mains items with
  | [] => Err                                                        (* MainRequired *)
  | [m] => Ok (m, g_params g, g_wits g, rev (g_tlog g))
  | _ :: _ :: _ => Err                                               (* FunctionRedefined(main) *)
  end).
End Analyze.

(* ---------- examples (hand-written parse trees) ---------- *)
Module Examples.
Local Open Scope N_scope.
(* ids: main = 0; variables a=1 b=2 c=4 s=5 x=6 y=7; functions add=3 f=8 g=9; alias T=10;
   jet name 100 = add_8 (index 7); witness names 60 61; parameter name 70; spans 50.. *)
Definition jl (n:N) : option N := if n =? 100 then Some 7 else None.
Definition js (j:N) : option (list ty * ty) :=
  if j =? 7 then Some ([TUInt 3; TUInt 3], TTuple [TBool; TUInt 3]) else None.
Definition ba (n:N) : option ty := if n =? 200 then Some (TUInt 8) else None.
Definition A := analyze_program jl js ba 0.
Definition u8 := PTree.AUInt 3.
Definition u16 := PTree.AUInt 4.
Definition body (e:pexpr) := PBlock [] (Some e).
Definition main_of (stmts:list (option (ppat*aty) * pexpr)) := IFunction 0 [] None (PBlock stmts None).
Definition is_ok {X} (r:res X) : bool := match r with Ok _ => true | _ => false end.
Definition is_err {X} (r:res X) : bool := match r with Err => true | _ => false end.

(* type T = u8;
   fn add(a: T, b: u8) -> (bool, u8) { jet::add_8(a, b) }
   fn main() { let (c, s): (bool, u8) = add(1, witness::w60);
               assert!(match c { false => true, true => false });
               let y: u8 = dbg!(param::p70); } *)
Definition prog_ok : pprogram :=
  [ ITypeAlias 10 u8;
    IFunction 3 [(1, AAlias 10); (2, u8)] (Some (PTree.ATuple [PTree.ABool; u8]))
      (body (PCall 50 (PJet 100) [PVar 1; PVar 2]));
    main_of
      [ (Some (PTup [PId 4; PId 5], PTree.ATuple [PTree.ABool; u8]),
         PCall 51 (PCustom 3) [PLit (LDec [49]); PWitness 60]);
        (None, PCall 52 PAssert [PMatch (PVar 4) MFalse (PBool true) MTrue (PBool false)]);
        (Some (PId 7, u8), PCall 53 PDebug [PParam 70]) ] ].

Example ex_ok_shape : A prog_ok =
  Ok (EBlock TUnit
        [ (Some (PTup [PId 4; PId 5]),
           EFn (TTuple [TBool; TUInt 3]) KCustom [(1, TUInt 3); (2, TUInt 3)]
             (EBlock (TTuple [TBool; TUInt 3]) []
                (Some (ECall (TTuple [TBool; TUInt 3]) (BJet 7) [EVar (TUInt 3) 1; EVar (TUInt 3) 2])))
             [EConst (TUInt 3) (Value.AUInt 3 1); EWitness (TUInt 3) 60]);
          (None, ECall TUnit BAssert
                   [EMatch TBool (EVar TBool 4) None (EConst TBool (Value.ABool true))
                                                None (EConst TBool (Value.ABool false))]);
          (Some (PId 7), ECall (TUInt 3) BDebug [EParam (TUInt 3) 70]) ] None,
      [(70, TUInt 3)], [(60, TUInt 3)],
      (* the body of add is tracked once, at its definition; assert! before, dbg! after its argument *)
      [(50, KJet); (52, KAssert); (53, KDebug (TUInt 3))]).
Proof. vm_compute. reflexivity. Qed.

(* a second program whose expected value is transcribed from the Rust dump (svh core, `ast`):
   fn main() { let y: [u8; 2] = 0x01ff; let o: Either<u8, u16> = Left(2);
               let z: u16 = match o { Right(b: u16) => b, Left(a: u8) => <(u8,u8)>::into((a, a)), };
               let l: List<u8, 4> = list![1,2]; let u: u8 = (unwrap_left::<u16>(o)); }
   ids: y=7 o=11 z=12 l=13 u=14 a=1 b=2 *)
Example ex_ok_shape2 :
  A [ main_of
      [ (Some (PId 7, PTree.AArray u8 2), PLit (LHex [48; 49; 102; 102]));
        (Some (PId 11, AEither u8 u16), PLeft (PLit (LDec [50])));
        (Some (PId 12, u16),
         PMatch (PVar 11) (MLeft 1 u8) (PCall 51 (PCast (PTree.ATuple [u8; u8])) [PTuple [PVar 1; PVar 1]])
                          (MRight 2 u16) (PVar 2));
        (Some (PId 13, PTree.AList u8 2), PList [PLit (LDec [49]); PLit (LDec [50])]);
        (Some (PId 14, u8), PParen (PCall 52 (PUnwrapLeft u16) [PVar 11])) ] ] =
  Ok (EBlock TUnit
        [ (Some (PId 7), EConst (TArray (TUInt 3) 2) (Value.AArray [Value.AUInt 3 1; Value.AUInt 3 255] (TUInt 3)));
          (Some (PId 11), ELeft (TEither (TUInt 3) (TUInt 4)) (EConst (TUInt 3) (Value.AUInt 3 2)));
          (Some (PId 12),
           EMatch (TUInt 4) (EVar (TEither (TUInt 3) (TUInt 4)) 11)
             (Some 1) (ECall (TUInt 4) (BCast (TTuple [TUInt 3; TUInt 3]))
                         [ETuple (TTuple [TUInt 3; TUInt 3]) [EVar (TUInt 3) 1; EVar (TUInt 3) 1]])
             (Some 2) (EVar (TUInt 4) 2));
          (Some (PId 13), EList (TList (TUInt 3) 2) [EConst (TUInt 3) (Value.AUInt 3 1); EConst (TUInt 3) (Value.AUInt 3 2)]);
          (Some (PId 14), EParen (ECall (TUInt 3) BUnwrapLeft [EVar (TEither (TUInt 3) (TUInt 4)) 11])) ] None,
      [], [], [(52, KUnwrapLeft (TEither (TUInt 3) (TUInt 4)))]).
Proof. vm_compute. reflexivity. Qed.

(* use before definition: main calls add, which is defined after main *)
Example ex_use_before_def : A [ main_of [(None, PCall 51 (PCustom 3) [])]; IFunction 3 [] None (PBlock [] None) ] = Err.
Proof. vm_compute. reflexivity. Qed.
Example ex_def_before_use : is_ok (A [ IFunction 3 [] None (PBlock [] None); main_of [(None, PCall 51 (PCustom 3) [])] ]) = true.
Proof. vm_compute. reflexivity. Qed.
(* an alias used before its definition *)
Example ex_alias_before_def : A [ main_of [(Some (PId 6, AAlias 10), PLit (LDec [49]))]; ITypeAlias 10 u8 ] = Err.
Proof. vm_compute. reflexivity. Qed.
(* a function cannot call itself *)
Example ex_recursion : A [ IFunction 3 [] None (body (PCall 51 (PCustom 3) [])); main_of [] ] = Err.
Proof. vm_compute. reflexivity. Qed.

(* let (x, x): (u8, u8) = (1, 2); *)
Example ex_dup_pattern_var :
  A [ main_of [(Some (PTup [PId 6; PId 6], PTree.ATuple [u8; u8]), PTuple [PLit (LDec [49]); PLit (LDec [50])])] ] = Err.
Proof. vm_compute. reflexivity. Qed.

(* let x: u8 = witness::w60; let y: u8 = witness::w60; *)
Example ex_witness_reuse :
  A [ main_of [(Some (PId 6, u8), PWitness 60); (Some (PId 7, u8), PWitness 60)] ] = Err.
Proof. vm_compute. reflexivity. Qed.
Example ex_witness_twice_distinct :
  is_ok (A [ main_of [(Some (PId 6, u8), PWitness 60); (Some (PId 7, u8), PWitness 61)] ]) = true.
Proof. vm_compute. reflexivity. Qed.

(* fn f() -> u8 { witness::w60 }  fn main() {} *)
Example ex_witness_outside_main :
  A [ IFunction 8 [] (Some u8) (body (PWitness 60)); main_of [] ] = Err.
Proof. vm_compute. reflexivity. Qed.

(* param:: is allowed anywhere, but one name has one type *)
Example ex_param_consistent :
  is_ok (A [ IFunction 8 [] (Some u8) (body (PParam 70)); main_of [(Some (PId 6, u8), PParam 70)] ]) = true.
Proof. vm_compute. reflexivity. Qed.
Example ex_param_inconsistent :
  A [ IFunction 8 [] (Some u8) (body (PParam 70)); main_of [(Some (PId 6, u16), PParam 70)] ] = Err.
Proof. vm_compute. reflexivity. Qed.

(* let (x, y): (u8, u8, u8) = (1, 2, 3);    (D2, fixed in /repo)  *)
Example ex_tuple_pattern_arity :
  A [ main_of [(Some (PTup [PId 6; PId 7], PTree.ATuple [u8; u8; u8]),
                PTuple [PLit (LDec [49]); PLit (LDec [50]); PLit (LDec [51])])] ] = Err.
Proof. vm_compute. reflexivity. Qed.
(* let x: (u8, u8) = (1, 2, 3); *)
Example ex_tuple_expr_arity :
  A [ main_of [(Some (PId 6, PTree.ATuple [u8; u8]), PTuple [PLit (LDec [49]); PLit (LDec [50]); PLit (LDec [51])])] ] = Err.
Proof. vm_compute. reflexivity. Qed.
(* let x: [u8; 3] = [1, 2]; *)
Example ex_array_size :
  A [ main_of [(Some (PId 6, PTree.AArray u8 3), PArray [PLit (LDec [49]); PLit (LDec [50])])] ] = Err.
Proof. vm_compute. reflexivity. Qed.

(* let x: List<u8, 2> = list![1, 2];   (at most 1 element) *)
Example ex_list_too_long :
  A [ main_of [(Some (PId 6, PTree.AList u8 1), PList [PLit (LDec [49]); PLit (LDec [50])])] ] = Err.
Proof. vm_compute. reflexivity. Qed.
Example ex_list_fits :
  is_ok (A [ main_of [(Some (PId 6, PTree.AList u8 1), PList [PLit (LDec [49])])] ]) = true.
Proof. vm_compute. reflexivity. Qed.

(* fn f(e: u8, acc: u16) -> u8 { e }   fold::<f, 2>(..): the accumulator type is not the result type *)
Example ex_fold_not_foldable :
  A [ IFunction 8 [(1, u8); (2, u16)] (Some u8) (body (PVar 1));
      main_of [(Some (PId 6, u8), PCall 51 (PFold 8 1) [PList []; PLit (LDec [49])])] ] = Err.
Proof. vm_compute. reflexivity. Qed.
(* fn g(e: u8, acc: u16) -> u16 { acc }  let x: u16 = fold::<g, 2>(list![1], 0); *)
Example ex_fold_ok :
  is_ok (A [ IFunction 9 [(1, u8); (2, u16)] (Some u16) (body (PVar 2));
             main_of [(Some (PId 6, u16), PCall 51 (PFold 9 1) [PList [PLit (LDec [49])]; PLit (LDec [48])])] ]) = true.
Proof. vm_compute. reflexivity. Qed.
(* for_while with a u32 counter is refused, with a u16 counter accepted *)
Definition loop_fn (w:nat) :=
  IFunction 9 [(1, u8); (2, u8); (4, PTree.AUInt w)] (Some (AEither u8 u8)) (body (PRight (PVar 1))).
Definition loop_main :=
  main_of [(Some (PId 6, AEither u8 u8), PCall 51 (PForWhile 9) [PLit (LDec [49]); PLit (LDec [48])])].
Example ex_for_while_u16 : is_ok (A [loop_fn 4; loop_main]) = true.
Proof. vm_compute. reflexivity. Qed.
Example ex_for_while_u32 : A [loop_fn 5; loop_main] = Err.
Proof. vm_compute. reflexivity. Qed.

(* let x: u16 = <u8>::into(1);  different layouts;   let x: (u8, u8) = <u16>::into(1): same layout *)
Example ex_cast_bad :
  A [ main_of [(Some (PId 6, u16), PCall 51 (PCast u8) [PLit (LDec [49])])] ] = Err.
Proof. vm_compute. reflexivity. Qed.
Example ex_cast_ok :
  is_ok (A [ main_of [(Some (PId 6, PTree.ATuple [u8; u8]), PCall 51 (PCast u16) [PLit (LDec [49])])] ]) = true.
Proof. vm_compute. reflexivity. Qed.

Example ex_missing_main : A [ IFunction 8 [] None (PBlock [] None) ] = Err.
Proof. vm_compute. reflexivity. Qed.
Example ex_main_twice : A [ main_of []; main_of [] ] = Err.
Proof. vm_compute. reflexivity. Qed.
Example ex_main_with_param : A [ IFunction 0 [(1, u8)] None (PBlock [] None) ] = Err.
Proof. vm_compute. reflexivity. Qed.
Example ex_main_with_result : A [ IFunction 0 [] (Some u8) (body (PLit (LDec [49]))) ] = Err.
Proof. vm_compute. reflexivity. Qed.
Example ex_main_unit_result : is_ok (A [ IFunction 0 [] (Some (PTree.ATuple [])) (PBlock [] None) ]) = true.
Proof. vm_compute. reflexivity. Qed.

(* fn f(a: u8, a: u16) {}    (D3, fixed in /repo) *)
Example ex_dup_param : A [ IFunction 8 [(1, u8); (1, u16)] None (PBlock [] None); main_of [] ] = Err.
Proof. vm_compute. reflexivity. Qed.
Example ex_fn_twice : A [ IFunction 8 [] None (PBlock [] None); IFunction 8 [] None (PBlock [] None); main_of [] ] = Err.
Proof. vm_compute. reflexivity. Qed.

(* scoping: a block's variables end with the block; a match arm binds its variable only in the arm *)
Example ex_block_scope :
  A [ main_of [(None, PBlock [(Some (PId 6, u8), PLit (LDec [49]))] None); (Some (PId 7, u8), PVar 6)] ] = Err.
Proof. vm_compute. reflexivity. Qed.
Example ex_shadow :
  is_ok (A [ main_of [(Some (PId 6, u8), PLit (LDec [49])); (Some (PId 6, u16), PLit (LDec [49])); (Some (PId 7, u16), PVar 6)] ]) = true.
Proof. vm_compute. reflexivity. Qed.
Example ex_match_arm_scope :
  is_ok (A [ main_of [(Some (PId 6, AOption u8), PNone);
                      (Some (PId 7, u8), PMatch (PVar 6) MNone (PLit (LDec [48])) (MSome 1 u8) (PVar 1))] ]) = true.
Proof. vm_compute. reflexivity. Qed.
Example ex_match_arm_leak :
  A [ main_of [(Some (PId 6, AOption u8), PNone);
               (Some (PId 7, u8), PMatch (PVar 6) MNone (PVar 1) (MSome 1 u8) (PVar 1))] ] = Err.
Proof. vm_compute. reflexivity. Qed.

(* the panics of the Rust code that a parse tree (not a source text) can trigger *)
Example ex_panic_hex_u1 : A [ main_of [(Some (PId 6, PTree.AUInt 0), PLit (LHex []))] ] = Panic.     (* value.rs:640 *)
Proof. vm_compute. reflexivity. Qed.
Example ex_panic_match_arms :                                                                   (* parse.rs:352 *)
  A [ main_of [(None, PMatch (PBool true) MTrue (PBlock [] None) MFalse (PBlock [] None))] ] = Panic.
Proof. vm_compute. reflexivity. Qed.
End Examples.
