(* Erasure: from the typed AST (Lang/Ast.v) back to a parse tree (Front/PTree.v).

   The typed AST records at every node the type that ast.rs assigned to it; a parse tree carries
   types only where the source text does (let statements, match-arm patterns, the type arguments of
   unwrap_left / unwrap_right / is_none / <T>::into, function signatures).  [erase_expr] drops the
   inferred annotations and keeps (re-creates) the ones that the source carries:

     - resolved types are printed alias-free                                   [aty_of_ty]
     - constants become the literal that `Display for UIntValue` prints        [erase_const]
         bool            true / false
         u1 .. u64       canonical decimal                                     (LDec (dec_of_N n))
         u128, u256      hexadecimal of the big-endian bytes                   (LHex ..)
         [u8; n] bytes   hexadecimal                                           (LHex ..)
     - witnesses, parameters, variables: by name
     - jets by a name chosen by [jname] (a right inverse of the name lookup on the jets used)
     - calls of custom functions / fold / for_while: the typed AST has the callee INLINED at the call
       ([EFn t k params body args]); its erasure is a call by name, the name chosen by [fname], and the
       callee becomes a function item of the erased program                    [erase_program]
     - call sites get the span id chosen by [spn] (span ids do not occur in the typed AST; they only
       label the entries of the tracked-call log).

   [src_ok] collects the static rules of ast.rs that are NOT part of the typing judgement Lang/WT.v
   (the completeness theorem Proofs/AnalyzeComplete.v needs exactly these as side conditions). *)
From Coq Require Import List Arith NArith Bool.
Import ListNotations.
Require Import SV.Base.Util SV.Base.Res SV.Layout.Ty SV.Layout.Value SV.Lang.Ast SV.Lang.WT
               SV.Text.Literal SV.Front.PTree SV.Front.Analyze.

(* ---------- types ---------- *)
Fixpoint aty_of_ty (t:ty) : aty :=
  match t with
  | TEither a b => AEither (aty_of_ty a) (aty_of_ty b)
  | TOption a => AOption (aty_of_ty a)
  | TBool => PTree.ABool
  | TUInt k => PTree.AUInt k
  | TTuple ts => PTree.ATuple (map aty_of_ty ts)
  | TArray a n => PTree.AArray (aty_of_ty a) n
  | TList a k => PTree.AList (aty_of_ty a) k
  end.

(* ---------- constants ---------- *)
(* the literal printed by Display for UIntValue (Text/Literal.v [uint_display]) without its 0x prefix *)
Definition lit_of_uint (k:nat) (n:N) : lit :=
  match k with
  | 7 => LHex (hex_of_bytes (to_be_bytes 16 n))
  | 8 => LHex (hex_of_bytes (to_be_bytes 32 n))
  | _ => LDec (dec_of_N n)
  end.

(* the byte list of a list of u8 values *)
Fixpoint bytes_of (vs:list value) : option (list N) :=
  match vs with
  | [] => Some []
  | Value.AUInt 3 b :: r => option_map (cons b) (bytes_of r)
  | _ => None
  end.

(* the constants a source text can denote: booleans, integers u1 .. u256, byte arrays *)
Definition erase_const (v:value) : option pexpr :=
  match v with
  | Value.ABool b => Some (PBool b)
  | Value.AUInt k n => if Nat.leb k 8 then Some (PLit (lit_of_uint k n)) else None
  | Value.AArray vs (TUInt 3) => option_map (fun bs => PLit (LHex (hex_of_bytes bs))) (bytes_of vs)
  | _ => None
  end.

(* ---------- collections over the typed AST ---------- *)
(* witness names, in analysis order; the bodies of inlined functions are NOT visited *)
Fixpoint wnames (e:expr) : list N :=
  match e with
  | EBlock _ stmts last =>
      flat_map (fun s => wnames (snd s)) stmts ++ match last with Some l => wnames l | None => [] end
  | EWitness _ n => [n]
  | EConst _ _ | EParam _ _ | EVar _ _ | ENone _ => []
  | EParen e' | ELeft _ e' | ERight _ e' | ESome _ e' => wnames e'
  | ETuple _ es | EArray _ es | EList _ es | ECall _ _ es => flat_map wnames es
  | EFn _ _ _ _ es => flat_map wnames es
  | EMatch _ s _ el _ er => wnames s ++ wnames el ++ wnames er
  end.

(* the functions called directly by an expression (callee bodies not visited) *)
Fixpoint dfns (e:expr) : list fdef :=
  match e with
  | EBlock _ stmts last =>
      flat_map (fun s => dfns (snd s)) stmts ++ match last with Some l => dfns l | None => [] end
  | EConst _ _ | EWitness _ _ | EParam _ _ | EVar _ _ | ENone _ => []
  | EParen e' | ELeft _ e' | ERight _ e' | ESome _ e' => dfns e'
  | ETuple _ es | EArray _ es | EList _ es | ECall _ _ es => flat_map dfns es
  | EFn _ _ ps body es => (ps, body) :: flat_map dfns es
  | EMatch _ s _ el _ er => dfns s ++ dfns el ++ dfns er
  end.

(* all functions of an expression, callees before callers (a definition order) *)
Fixpoint afns (e:expr) : list fdef :=
  match e with
  | EBlock _ stmts last =>
      flat_map (fun s => afns (snd s)) stmts ++ match last with Some l => afns l | None => [] end
  | EConst _ _ | EWitness _ _ | EParam _ _ | EVar _ _ | ENone _ => []
  | EParen e' | ELeft _ e' | ERight _ e' | ESome _ e' => afns e'
  | ETuple _ es | EArray _ es | EList _ es | ECall _ _ es => flat_map afns es
  | EFn _ _ ps body es => afns body ++ (ps, body) :: flat_map afns es
  | EMatch _ s _ el _ er => afns s ++ afns el ++ afns er
  end.

(* ---------- decidable equality of inlined functions (used only to choose their names) ---------- *)
Fixpoint ty_eq_dec (a b:ty) {struct a} : {a = b} + {a <> b}.
Proof. decide equality; try apply Nat.eq_dec. apply (list_eq_dec ty_eq_dec). Defined.
Fixpoint value_eq_dec (a b:value) {struct a} : {a = b} + {a <> b}.
Proof.
  decide equality; try apply Nat.eq_dec; try apply ty_eq_dec; try apply N.eq_dec; try apply Bool.bool_dec;
    apply (list_eq_dec value_eq_dec).
Defined.
Fixpoint pat_eq_dec (a b:pat) {struct a} : {a = b} + {a <> b}.
Proof. decide equality; try apply N.eq_dec; apply (list_eq_dec pat_eq_dec). Defined.
Definition builtin_eq_dec (a b:builtin) : {a = b} + {a <> b}.
Proof. decide equality; try apply N.eq_dec; apply ty_eq_dec. Defined.
Definition fkind_eq_dec (a b:fkind) : {a = b} + {a <> b}.
Proof. decide equality; apply Nat.eq_dec. Defined.
Definition opt_eq_dec {A} (d:forall a b:A, {a = b} + {a <> b}) (a b:option A) : {a = b} + {a <> b}.
Proof. decide equality. Defined.
Definition pair_eq_dec {A B} (d1:forall a b:A, {a = b} + {a <> b}) (d2:forall a b:B, {a = b} + {a <> b})
  (a b:A*B) : {a = b} + {a <> b}.
Proof. decide equality. Defined.
Fixpoint expr_eq_dec (a b:expr) {struct a} : {a = b} + {a <> b}.
Proof.
  decide equality; try apply ty_eq_dec; try apply value_eq_dec; try apply N.eq_dec; try apply builtin_eq_dec;
    try apply fkind_eq_dec; try apply (opt_eq_dec N.eq_dec); try apply (list_eq_dec expr_eq_dec);
    try apply (opt_eq_dec expr_eq_dec); try apply (list_eq_dec (pair_eq_dec N.eq_dec ty_eq_dec)).
  apply (list_eq_dec (pair_eq_dec (opt_eq_dec pat_eq_dec) expr_eq_dec)).
Defined.
Definition fdef_eq_dec : forall a b:fdef, {a = b} + {a <> b} :=
  pair_eq_dec (list_eq_dec (pair_eq_dec N.eq_dec ty_eq_dec)) expr_eq_dec.

(* a canonical choice of function names: main_name + 1 + the position of the first occurrence in [afns main] *)
Fixpoint index_of (d:fdef) (l:list fdef) : N :=
  match l with [] => 0%N | x::r => if fdef_eq_dec d x then 0%N else N.succ (index_of d r) end.
Definition fname_of (main_name:N) (main:expr) (d:fdef) : N := (main_name + 1 + index_of d (afns main))%N.

Definition nilb {A} (l:list A) : bool := match l with [] => true | _ => false end.
Definition someb {A} (o:option A) : bool := match o with Some _ => true | None => false end.
Definition memN (x:N) (l:list N) : bool := existsb (N.eqb x) l.
Fixpoint nodupN (l:list N) : bool :=
  match l with [] => true | x::r => negb (memN x r) && nodupN r end.

Section Erase.
Variable jlook : N -> option N.       (* jet name id -> jet index (as in Front/Analyze.v) *)
Variable jname : N -> N.              (* jet index -> the name id the erasure prints *)
Variable fname : fdef -> N.           (* inlined function -> the name id of its item *)
Variable spn : expr -> N.             (* call node -> span id *)
Variable main_name : N.

(* ---------- the static rules of ast.rs beyond typing ---------- *)
(* R-const   a constant is a bool, an integer u1 .. u256 or a byte array (what a literal denotes) *)
Definition const_ok (v:value) : bool := someb (erase_const v).
(* R-jet     a jet that is called has a name (jlook is None for verify / check_sig_verify) *)
Definition builtin_ok (b:builtin) : bool :=
  match b with
  | BJet j => match jlook (jname j) with Some j' => N.eqb j' j | None => false end
  | _ => true
  end.
(* R-for     the counter of for_while is u1 .. u16 *)
Definition fkind_ok (k:fkind) : bool := match k with KFor w => Nat.leb w 4 | _ => true end.
(* R-arm     Left / Right / Some arms bind an identifier (there is no wildcard match pattern) *)
Definition arms_named (st:ty) (xl xr:option N) : bool :=
  match st with
  | TEither _ _ => someb xl && someb xr
  | TOption _ => someb xr
  | _ => true
  end.
(* R-pat     a let pattern binds pairwise distinct identifiers
   R-param   the parameters of a function are pairwise distinct
   R-wit-fn  no witness expression inside a function other than main *)
Fixpoint src_ok (e:expr) : bool :=
  match e with
  | EBlock _ stmts last =>
      forallb (fun s => match s with
                 | (Some p, e') => src_ok e' && match pat_ctx p (ty_of e') with Some c => nodup_keys c | None => true end
                 | (None, e') => src_ok e'
                 end) stmts
      && match last with Some l => src_ok l | None => true end
  | EConst _ v => const_ok v
  | EWitness _ _ | EParam _ _ | EVar _ _ | ENone _ => true
  | EParen e' | ELeft _ e' | ERight _ e' | ESome _ e' => src_ok e'
  | ETuple _ es | EArray _ es | EList _ es => forallb src_ok es
  | ECall _ b es => builtin_ok b && forallb src_ok es
  | EFn _ k ps body es =>
      fkind_ok k && nodup_keys ps && src_ok body && nilb (wnames body) && forallb src_ok es
  | EMatch _ s xl el xr er => arms_named (ty_of s) xl xr && src_ok s && src_ok el && src_ok er
  end.
(* R-wit-once  every witness name is used at most once (in main) *)
Definition src_ok_main (main:expr) : bool := src_ok main && nodupN (wnames main).

(* ---------- erasure ---------- *)
Definition arg_ty (ats:list ty) : ty := match ats with [a] => a | _ => TUnit end.
Definition erase_builtin (b:builtin) (ats:list ty) : pcallname :=
  match b with
  | BJet j => PJet (jname j)
  | BUnwrapLeft => PUnwrapLeft (match arg_ty ats with TEither _ r => aty_of_ty r | _ => PTree.ABool end)
  | BUnwrapRight => PUnwrapRight (match arg_ty ats with TEither l _ => aty_of_ty l | _ => PTree.ABool end)
  | BUnwrap => PUnwrap
  | BIsNone => PIsNone (match arg_ty ats with TOption a => aty_of_ty a | _ => PTree.ABool end)
  | BAssert => PAssert
  | BPanic => PPanic
  | BDebug => PDebug
  | BCast src => PCast (aty_of_ty src)
  end.
Definition erase_fkind (k:fkind) (f:N) : pcallname :=
  match k with KCustom => PCustom f | KFold kk => PFold f kk | KFor _ => PForWhile f end.
Definition arm_name (x:option N) : N := match x with Some i => i | None => 0%N end.
Definition erase_arms (st:ty) (xl xr:option N) : mpat * mpat :=
  match st with
  | TEither a b => (MLeft (arm_name xl) (aty_of_ty a), MRight (arm_name xr) (aty_of_ty b))
  | TOption a => (MNone, MSome (arm_name xr) (aty_of_ty a))
  | _ => (MFalse, MTrue)
  end.

Fixpoint erase_expr (e:expr) : pexpr :=
  match e with
  | EBlock _ stmts last =>
      PBlock (map (fun s => match s with
                     | (Some p, e') => (Some (p, aty_of_ty (ty_of e')), erase_expr e')
                     | (None, e') => (None, erase_expr e')
                     end) stmts)
             (match last with Some l => Some (erase_expr l) | None => None end)
  | EConst _ v => match erase_const v with Some p => p | None => PNone end
  | EWitness _ n => PWitness n
  | EParam _ n => PParam n
  | EVar _ x => PVar x
  | EParen e' => PParen (erase_expr e')
  | ETuple _ es => PTuple (map erase_expr es)
  | EArray _ es => PArray (map erase_expr es)
  | EList _ es => PList (map erase_expr es)
  | ELeft _ e' => PLeft (erase_expr e')
  | ERight _ e' => PRight (erase_expr e')
  | ENone _ => PNone
  | ESome _ e' => PSome (erase_expr e')
  | ECall _ b es => PCall (spn e) (erase_builtin b (map ty_of es)) (map erase_expr es)
  | EFn _ k ps body es => PCall (spn e) (erase_fkind k (fname (ps, body))) (map erase_expr es)
  | EMatch _ s xl el xr er =>
      let '(lp, rp) := erase_arms (ty_of s) xl xr in
      PMatch (erase_expr s) lp (erase_expr el) rp (erase_expr er)
  end.

Definition erase_stmt (s:option pat * expr) : option (ppat*aty) * pexpr :=
  match s with
  | (Some p, e') => (Some (p, aty_of_ty (ty_of e')), erase_expr e')
  | (None, e') => (None, erase_expr e')
  end.

(* ---------- programs ---------- *)
(* keep the first definition of every name *)
Fixpoint dedup (seen:list N) (l:list fdef) : list fdef :=
  match l with
  | [] => []
  | d::r => if memN (fname d) seen then dedup seen r else d :: dedup (fname d :: seen) r
  end.
Definition erase_fn (d:fdef) : pitem :=
  IFunction (fname d) (map (fun p : N*ty => (fst p, aty_of_ty (snd p))) (fst d))
            (Some (aty_of_ty (ty_of (snd d)))) (erase_expr (snd d)).
(* the inlined functions become items, callees first; main comes last *)
Definition erase_program (main:expr) : pprogram :=
  map erase_fn (dedup [] (afns main)) ++ [IFunction main_name [] None (erase_expr main)].
End Erase.
