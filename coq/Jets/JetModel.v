(* Jets of the regenerated table, with the closed-form semantics where the family is modelled *)
From Coq Require Import List NArith String Bool.
Import ListNotations.
Require Import SV.Simp.Core SV.Layout.Ty SV.Jets.JetSem SV.Gen.JetTable.

Definition jrow := (N * string * list ty * ty * sty * sty)%type.
Definition row_idx (r:jrow) : N := match r with (i,_,_,_,_,_) => i end.
Definition row_name (r:jrow) : string := match r with (_,n,_,_,_,_) => n end.
Definition row_params (r:jrow) : list ty := match r with (_,_,p,_,_,_) => p end.
Definition row_ret (r:jrow) : ty := match r with (_,_,_,t,_,_) => t end.
Definition row_src (r:jrow) : sty := match r with (_,_,_,_,s,_) => s end.
Definition row_tgt (r:jrow) : sty := match r with (_,_,_,_,_,t) => t end.

Definition find_jet (j:N) : option jrow := find (fun r => N.eqb (row_idx r) j) jet_rows.

Definition jet_sig (j:N) : option (list ty * ty) :=
  match find_jet j with Some r => Some (row_params r, row_ret r) | None => None end.

Definition jet_model (j:N) : option (sval -> option (option sval)) :=
  match find_jet j with Some r => jet_by_name (row_name r) | None => None end.

(* the oracle handed to eval / sem when a model is executed; an input outside the jet's source type
   cannot arise from a well-typed program and is mapped to failure *)
Definition jet_oracle (j:N) (a:sval) : option sval :=
  match jet_model j with
  | Some f => match f a with Some r => r | None => None end
  | None => None end.
