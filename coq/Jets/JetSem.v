(* Closed-form semantics of the arithmetic / comparison / bit-logic jet families, over N.
   A jet is identified by its name as printed by simplicity-lang (Elements::to_string), split into an
   alphabetic base and numeric suffixes:  full_add_8 -> ("full_add",[8]),  leftmost_16_4 -> ("leftmost",[16;4]).
   [None] as the answer of a jet means "the jet fails" (only verify does). *)
From Coq Require Import List Arith NArith Bool String Ascii.
Import ListNotations.
Require Import SV.Base.Util SV.Base.BT SV.Simp.Core SV.Layout.Ty SV.Layout.Value.
Local Open Scope N_scope.

(* ---------- name parsing ---------- *)
Definition is_digit (c:ascii) : bool := let n := N_of_ascii c in (48 <=? n) && (n <=? 57).
Fixpoint split_us (s:string) (cur:string) : list string :=
  match s with
  | EmptyString => [cur]
  | String c r => if Ascii.eqb c "_"%char then cur :: split_us r EmptyString else split_us r (cur ++ String c EmptyString)%string
  end.
Fixpoint all_digits (s:string) : bool :=
  match s with EmptyString => true | String c r => is_digit c && all_digits r end.
Fixpoint nat_of_digits (s:string) (acc:nat) : nat :=
  match s with EmptyString => acc | String c r => nat_of_digits r (10*acc + N.to_nat (N_of_ascii c - 48))%nat end.
Definition is_num (s:string) : bool := match s with EmptyString => false | _ => all_digits s end.
Fixpoint join_us (l:list string) : string :=
  match l with [] => EmptyString | [x] => x | x::r => (x ++ "_" ++ join_us r)%string end.
Definition parse_name (s:string) : string * list nat :=
  let toks := split_us s EmptyString in
  (join_us (filter (fun t => negb (is_num t)) toks), map (fun t => nat_of_digits t 0%nat) (filter is_num toks)).

(* bit width -> exponent *)
Definition log2w (w:nat) : option nat :=
  match w with
  | 1 => Some 0 | 2 => Some 1 | 4 => Some 2 | 8 => Some 3 | 16 => Some 4 | 32 => Some 5
  | 64 => Some 6 | 128 => Some 7 | 256 => Some 8 | _ => None end%nat.

(* ---------- encodings ---------- *)
Definition dec (k:nat) (v:sval) : option N := as_integer v k.
Definition bitsN (k:nat) : N := N.of_nat (2^k).
Definition modw (k:nat) (n:N) : N := n mod 2^(bitsN k).
Definition enc (k:nat) (n:N) : sval := uint_sval k (modw k n).
Definition encb (b:bool) : sval := sbit b.
Definition decb (v:sval) : option bool := as_bit v.
Definition b2n (b:bool) : N := if b then 1 else 0.

Definition un (k:nat) (f:N -> sval) (v:sval) : option (option sval) :=
  match dec k v with Some a => Some (Some (f a)) | None => None end.
Definition bin (k:nat) (f:N -> N -> sval) (v:sval) : option (option sval) :=
  match v with VP x y => match dec k x, dec k y with Some a, Some b => Some (Some (f a b)) | _, _ => None end | _ => None end.
Definition tern (k:nat) (f:N -> N -> N -> sval) (v:sval) : option (option sval) :=
  match v with VP x (VP y z) => match dec k x, dec k y, dec k z with Some a, Some b, Some c => Some (Some (f a b c)) | _, _, _ => None end | _ => None end.
Definition cbin (k:nat) (f:bool -> N -> N -> sval) (v:sval) : option (option sval) :=
  match v with VP c (VP x y) => match decb c, dec k x, dec k y with Some c, Some a, Some b => Some (Some (f c a b)) | _, _, _ => None end | _ => None end.
Definition cun (k:nat) (f:bool -> N -> sval) (v:sval) : option (option sval) :=
  match v with VP c x => match decb c, dec k x with Some c, Some a => Some (Some (f c a)) | _, _ => None end | _ => None end.
Definition nul (f:sval) (v:sval) : option (option sval) := Some (Some f).

Definition maxw (k:nat) : N := 2^(bitsN k) - 1.
Definition amount_k (k:nat) : nat := if Nat.leb k 4 then 2 else 3.   (* type of shift / rotate amounts: u4 up to 16 bits, u8 above *)
Definition median3 (a b c:N) : N := N.max (N.min a b) (N.min (N.max a b) c).

(* result Some (Some v): value; Some None: jet fails; None: input is not of the jet's source type *)
Definition jet_fam (base:string) (nums:list nat) : option (sval -> option (option sval)) :=
  match nums with
  | [w] =>
    match log2w w with None => None | Some k =>
    let M := 2^(bitsN k) in
    if String.eqb base "low" then Some (nul (enc k 0))
    else if String.eqb base "high" then Some (nul (enc k (maxw k)))
    else if String.eqb base "one" then Some (nul (enc k 1))
    else if String.eqb base "complement" then Some (un k (fun a => enc k (maxw k - a)))
    else if String.eqb base "negate" then Some (un k (fun a => VP (encb (negb (a =? 0))) (enc k (M - a))))
    else if String.eqb base "increment" then Some (un k (fun a => VP (encb (M <=? a + 1)) (enc k (a + 1))))
    else if String.eqb base "decrement" then Some (un k (fun a => VP (encb (a =? 0)) (enc k (a + M - 1))))
    else if String.eqb base "is_zero" then Some (un k (fun a => encb (a =? 0)))
    else if String.eqb base "is_one" then Some (un k (fun a => encb (a =? 1)))
    else if String.eqb base "some" then Some (un k (fun a => encb (negb (a =? 0))))
    else if String.eqb base "all" then Some (un k (fun a => encb (a =? maxw k)))
    else if String.eqb base "add" then Some (bin k (fun a b => VP (encb (M <=? a + b)) (enc k (a + b))))
    else if String.eqb base "subtract" then Some (bin k (fun a b => VP (encb (a <? b)) (enc k (a + M - b))))
    else if String.eqb base "multiply" then Some (bin k (fun a b => enc (S k) (a * b)))
    else if String.eqb base "lt" then Some (bin k (fun a b => encb (a <? b)))
    else if String.eqb base "le" then Some (bin k (fun a b => encb (a <=? b)))
    else if String.eqb base "eq" then Some (bin k (fun a b => encb (a =? b)))
    else if String.eqb base "min" then Some (bin k (fun a b => enc k (N.min a b)))
    else if String.eqb base "max" then Some (bin k (fun a b => enc k (N.max a b)))
    else if String.eqb base "and" then Some (bin k (fun a b => enc k (N.land a b)))
    else if String.eqb base "or" then Some (bin k (fun a b => enc k (N.lor a b)))
    else if String.eqb base "xor" then Some (bin k (fun a b => enc k (N.lxor a b)))
    else if String.eqb base "divide" then Some (bin k (fun a b => enc k (if b =? 0 then 0 else a / b)))
    else if String.eqb base "modulo" then Some (bin k (fun a b => enc k (if b =? 0 then a else a mod b)))
    else if String.eqb base "div_mod" then Some (bin k (fun a b => VP (enc k (if b =? 0 then 0 else a / b)) (enc k (if b =? 0 then a else a mod b))))
    else if String.eqb base "divides" then Some (bin k (fun a b => encb (if a =? 0 then b =? 0 else (b mod a) =? 0)))
    else if String.eqb base "full_add" then Some (cbin k (fun c a b => VP (encb (M <=? a + b + b2n c)) (enc k (a + b + b2n c))))
    else if String.eqb base "full_subtract" then Some (cbin k (fun c a b => VP (encb (a <? b + b2n c)) (enc k (a + M + M - b - b2n c))))
    else if String.eqb base "full_increment" then Some (cun k (fun c a => VP (encb (M <=? a + b2n c)) (enc k (a + b2n c))))
    else if String.eqb base "full_decrement" then Some (cun k (fun c a => VP (encb (a <? b2n c)) (enc k (a + M - b2n c))))
    else if String.eqb base "full_multiply" then
      Some (fun v => match v with
        | VP (VP x y) (VP z u) => match dec k x, dec k y, dec k z, dec k u with
            | Some a, Some b, Some c, Some d => Some (Some (enc (S k) (a * b + c + d))) | _, _, _, _ => None end
        | _ => None end)
    else if String.eqb base "median" then Some (tern k (fun a b c => enc k (median3 a b c)))
    else if String.eqb base "xor_xor" then Some (tern k (fun a b c => enc k (N.lxor (N.lxor a b) c)))
    else if String.eqb base "maj" then Some (tern k (fun a b c => enc k (N.lor (N.lor (N.land a b) (N.land a c)) (N.land b c))))
    else if String.eqb base "ch" then Some (tern k (fun a b c => enc k (N.lor (N.land a b) (N.land (maxw k - a) c))))
    else if String.eqb base "left_shift" then Some (fun v => match v with VP x y => match dec (amount_k k) x, dec k y with
        | Some a, Some b => Some (Some (enc k (N.shiftl b a))) | _, _ => None end | _ => None end)
    else if String.eqb base "right_shift" then Some (fun v => match v with VP x y => match dec (amount_k k) x, dec k y with
        | Some a, Some b => Some (Some (enc k (N.shiftr b a))) | _, _ => None end | _ => None end)
    else if String.eqb base "left_rotate" then Some (fun v => match v with VP x y => match dec (amount_k k) x, dec k y with
        | Some a, Some b => let r := a mod (bitsN k) in
            Some (Some (enc k (N.lor (N.shiftl b r) (N.shiftr b (bitsN k - r))))) | _, _ => None end | _ => None end)
    else if String.eqb base "right_rotate" then Some (fun v => match v with VP x y => match dec (amount_k k) x, dec k y with
        | Some a, Some b => let r := a mod (bitsN k) in
            Some (Some (enc k (N.lor (N.shiftr b r) (N.shiftl b (bitsN k - r))))) | _, _ => None end | _ => None end)
    else if String.eqb base "left_shift_with" then Some (fun v => match v with VP c (VP x y) => match decb c, dec (amount_k k) x, dec k y with
        | Some c, Some a, Some b => let a' := N.min a (bitsN k) in
            Some (Some (enc k (N.shiftl b a' + (if c then 2^a' - 1 else 0)))) | _, _, _ => None end | _ => None end)
    else if String.eqb base "right_shift_with" then Some (fun v => match v with VP c (VP x y) => match decb c, dec (amount_k k) x, dec k y with
        | Some c, Some a, Some b => let a' := N.min a (bitsN k) in
            Some (Some (enc k (N.shiftr b a' + (if c then (2^a' - 1) * 2^(bitsN k - a') else 0)))) | _, _, _ => None end | _ => None end)
    else None
    end
  | [wa; wb] =>
    match log2w wa, log2w wb with
    | Some ka, Some kb =>
      let A := bitsN ka in let B := bitsN kb in
      if String.eqb base "leftmost" then Some (un ka (fun a => enc kb (N.shiftr a (A - B))))
      else if String.eqb base "rightmost" then Some (un ka (fun a => enc kb a))
      else if String.eqb base "left_pad_low" then Some (un ka (fun a => enc kb a))
      else if String.eqb base "left_pad_high" then Some (un ka (fun a => enc kb (a + (2^B - 2^A))))
      else if String.eqb base "right_pad_low" then Some (un ka (fun a => enc kb (N.shiftl a (B - A))))
      else if String.eqb base "right_pad_high" then Some (un ka (fun a => enc kb (N.shiftl a (B - A) + (2^(B - A) - 1))))
      else if String.eqb base "left_extend" then Some (un ka (fun a => enc kb (if N.testbit a (A - 1) then a + (2^B - 2^A) else a)))
      else if String.eqb base "right_extend" then Some (un ka (fun a => enc kb (N.shiftl a (B - A) + (if N.odd a then 2^(B - A) - 1 else 0))))
      else if String.eqb base "full_left_shift" then Some (fun v => match v with VP x y => match dec ka x, dec kb y with
          | Some a, Some b => let z := a * 2^B + b in Some (Some (VP (enc kb (N.shiftr z A)) (enc ka z))) | _, _ => None end | _ => None end)
      else if String.eqb base "full_right_shift" then Some (fun v => match v with VP y x => match dec kb y, dec ka x with
          | Some b, Some a => let z := b * 2^A + a in Some (Some (VP (enc ka (N.shiftr z B)) (enc kb z))) | _, _ => None end | _ => None end)
      else None
    | _, _ => None end
  | [] =>
    if String.eqb base "verify" then Some (fun v => match decb v with Some true => Some (Some VU) | Some false => Some None | None => None end)
    else None
  | _ => None
  end.

Definition jet_by_name (s:string) : option (sval -> option (option sval)) :=
  let '(base, nums) := parse_name s in jet_fam base nums.
