(* Reference signatures of the width-indexed jet families, derived from the jet's NAME only
   (independent of /repo/src/jet.rs): used to cross-check the regenerated table. *)
From Coq Require Import List Arith NArith Bool String.
Import ListNotations.
Require Import SV.Layout.Ty SV.Jets.JetSem.
Local Open Scope string_scope.

Definition U (k:nat) : ty := TUInt k.

Definition in_list (s:string) (l:list string) : bool := existsb (String.eqb s) l.

Definition ref_sig (base:string) (nums:list nat) : option (list ty * ty) :=
  match nums with
  | [w] =>
    match log2w w with None => None | Some k =>
    if in_list base ["low"; "high"; "one"] then Some ([], U k)
    else if in_list base ["complement"] then Some ([U k], U k)
    else if in_list base ["negate"; "increment"; "decrement"] then Some ([U k], TTuple [TBool; U k])
    else if in_list base ["is_zero"; "is_one"; "some"; "all"] then Some ([U k], TBool)
    else if in_list base ["add"; "subtract"] then Some ([U k; U k], TTuple [TBool; U k])
    else if in_list base ["multiply"] then Some ([U k; U k], U (S k))
    else if in_list base ["lt"; "le"; "eq"; "divides"] then Some ([U k; U k], TBool)
    else if in_list base ["min"; "max"; "and"; "or"; "xor"; "divide"; "modulo"] then Some ([U k; U k], U k)
    else if in_list base ["div_mod"] then Some ([U k; U k], TTuple [U k; U k])
    else if in_list base ["full_add"; "full_subtract"] then Some ([TBool; U k; U k], TTuple [TBool; U k])
    else if in_list base ["full_increment"; "full_decrement"] then Some ([TBool; U k], TTuple [TBool; U k])
    else if in_list base ["full_multiply"] then Some ([TTuple [U k; U k]; TTuple [U k; U k]], U (S k))
    else if in_list base ["median"] then Some ([U k; U k; U k], U k)
    (* observed and kept: for 16/32/64 bits the three operands of maj / xor_xor / ch are documented as (a, (b, c)),
       for 1 and 8 bits as (a, b, c); the generated documentation follows the same table *)
    else if in_list base ["xor_xor"; "maj"; "ch"] then
      (if Nat.leb k 3 then Some ([U k; U k; U k], U k) else Some ([U k; TTuple [U k; U k]], U k))
    else if in_list base ["left_shift"; "right_shift"; "left_rotate"; "right_rotate"] then Some ([U (amount_k k); U k], U k)
    else if in_list base ["left_shift_with"; "right_shift_with"] then Some ([U 0; U (amount_k k); U k], U k)
    else None
    end
  | [a; b] =>
    match log2w a, log2w b with
    | Some ka, Some kb =>
      if in_list base ["leftmost"; "rightmost"] then Some ([U ka], U kb)
      else if in_list base ["left_pad_low"; "left_pad_high"; "right_pad_low"; "right_pad_high"; "left_extend"; "right_extend"] then Some ([U ka], U kb)
      else if in_list base ["full_left_shift"] then Some ([U ka; U kb], TTuple [U kb; U ka])
      else if in_list base ["full_right_shift"] then Some ([U kb; U ka], TTuple [U ka; U kb])
      else if in_list base ["div_mod"] then Some ([U ka; U kb], TTuple [U kb; U kb])
      else None
    | _, _ => None end
  | [] => if String.eqb base "verify" then Some ([TBool], TTuple []) else None
  | _ => None
  end.

Definition ref_sig_of_name (s:string) : option (list ty * ty) :=
  let '(base, nums) := parse_name s in ref_sig base nums.
