//! C11: integer literals.  Digit strings are handed to the library functions exactly as parse.rs does
//! (after stripping `_` and the 0b/0x prefix).
//!   (dec k "s") (bin k "s") (hexu k "s")  -> ok <hex value> | err        UIntValue::parse_decimal / parse_binary / Value::parse_hexadecimal
//!   (hexb n "s")                          -> ok <hex bytes|-> | err       Value::parse_hexadecimal at [u8; n]
//!   (disp k <hex>)                        -> "<text>"                     Display of the integer
//!   (u256 "s") -> ok <hex> | err          (u256disp <hex>) -> "<text>"    num::U256 FromStr / Display
use std::str::FromStr;

use simfony::num::U256;
use simfony::str::{Binary, Decimal, Hexadecimal};
use simfony::types::{ResolvedType, TypeConstructible, UIntType};
use simfony::value::{UIntValue, ValueInner};
use simfony::Value;

use crate::conv::*;
use crate::sexp::{parse, quote};

fn uint_ty(k: usize) -> Result<UIntType, String> {
    UIntType::two_n(k as u32).ok_or_else(|| "bad width".to_string())
}

pub fn handle(line: &str) -> Result<String, String> {
    let s = parse(line)?;
    let (tag, a) = s.tag()?;
    match (tag, a.len()) {
        ("dec", 2) => {
            let ty = uint_ty(a[0].as_usize()?)?;
            Ok(match UIntValue::parse_decimal(&Decimal::from_str_unchecked(a[1].as_atom()?), ty) {
                Ok(v) => format!("ok {}", uint_to_hex(&v)),
                Err(_) => "err".to_string(),
            })
        }
        ("bin", 2) => {
            let ty = uint_ty(a[0].as_usize()?)?;
            Ok(match UIntValue::parse_binary(&Binary::from_str_unchecked(a[1].as_atom()?), ty) {
                Ok(v) => format!("ok {}", uint_to_hex(&v)),
                Err(_) => "err".to_string(),
            })
        }
        ("hexu", 2) => {
            let ty = ResolvedType::from(uint_ty(a[0].as_usize()?)?);
            Ok(match Value::parse_hexadecimal(&Hexadecimal::from_str_unchecked(a[1].as_atom()?), &ty) {
                Ok(v) => match v.inner() {
                    ValueInner::UInt(u) => format!("ok {}", uint_to_hex(u)),
                    _ => "ok ?".to_string(),
                },
                Err(_) => "err".to_string(),
            })
        }
        ("hexb", 2) => {
            let ty = ResolvedType::byte_array(a[0].as_usize()?);
            Ok(match Value::parse_hexadecimal(&Hexadecimal::from_str_unchecked(a[1].as_atom()?), &ty) {
                Ok(v) => match v.inner() {
                    ValueInner::Array(vs) => {
                        let mut out = String::from("ok -");
                        for x in vs.iter() {
                            if let ValueInner::UInt(UIntValue::U8(b)) = x.inner() {
                                out.push_str(&format!("{:02x}", b));
                            } else {
                                out.push('?');
                            }
                        }
                        out
                    }
                    _ => "ok ?".to_string(),
                },
                Err(_) => "err".to_string(),
            })
        }
        ("disp", 2) => {
            let v = uint_of_hex(a[0].as_usize()? as u32, a[1].as_atom()?)?;
            Ok(quote(&v.to_string()))
        }
        ("u256", 1) => Ok(match U256::from_str(a[0].as_atom()?) {
            Ok(v) => format!("ok {}", uint_to_hex(&UIntValue::U256(v))),
            Err(_) => "err".to_string(),
        }),
        ("u256disp", 1) => {
            let v = uint_of_hex(8, a[0].as_atom()?)?;
            match v {
                UIntValue::U256(x) => Ok(quote(&x.to_string())),
                _ => Err("not u256".into()),
            }
        }
        _ => Err("bad literal case".into()),
    }
}
