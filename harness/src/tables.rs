//! Translators: data tables of /repo's current source, dumped for regeneration of coq/Gen/*.v.
//!   (jets)              -> one line: ((idx name (param-ty...) result-ty src-sty tgt-sty) ...)
//!   (alias <Name>)      -> <ty> | none
//!   (grammar "<path>")  -> ((rule name kind <expr>) ...)   via pest_meta's own parser
use std::str::FromStr;
use std::sync::Arc;

use pest_meta::ast::{Expr, RuleType};
use simfony::simplicity::jet::{Elements, Jet};
use simfony::types::{AliasedType, BuiltinAlias};

use crate::conv::*;
use crate::sexp::{parse, quote, Sexp};

fn expr_sexp(e: &Expr) -> Sexp {
    let un = |t: &str, x: &Expr| Sexp::tagged(t, vec![expr_sexp(x)]);
    match e {
        Expr::Str(s) => Sexp::tagged("str", vec![Sexp::atom(quote(s))]),
        Expr::Insens(s) => Sexp::tagged("insens", vec![Sexp::atom(quote(s))]),
        Expr::Range(a, b) => Sexp::tagged("range", vec![Sexp::atom(quote(a)), Sexp::atom(quote(b))]),
        Expr::Ident(i) => Sexp::tagged("id", vec![Sexp::atom(i.clone())]),
        Expr::PosPred(x) => un("pos", x),
        Expr::NegPred(x) => un("neg", x),
        Expr::Seq(a, b) => Sexp::tagged("seq", vec![expr_sexp(a), expr_sexp(b)]),
        Expr::Choice(a, b) => Sexp::tagged("alt", vec![expr_sexp(a), expr_sexp(b)]),
        Expr::Opt(x) => un("opt", x),
        Expr::Rep(x) => un("rep", x),
        Expr::RepOnce(x) => un("rep1", x),
        Expr::RepExact(x, n) => Sexp::tagged("repn", vec![expr_sexp(x), Sexp::num(*n)]),
        other => Sexp::tagged("unsupported", vec![Sexp::atom(quote(&format!("{:?}", other)))]),
    }
}

pub fn handle(line: &str) -> Result<String, String> {
    let s = parse(line)?;
    let (tag, a) = s.tag()?;
    match (tag, a.len()) {
        ("jets", 0) => {
            let mut out = vec![];
            for (i, j) in Elements::ALL.iter().enumerate() {
                let params = simfony::jet::source_type(*j)
                    .iter()
                    .map(|t| t.resolve_builtin().map(|r| ty_to_sexp(&r)).unwrap_or(Sexp::atom("?")))
                    .collect();
                let ret = simfony::jet::target_type(*j)
                    .resolve_builtin()
                    .map(|r| ty_to_sexp(&r))
                    .unwrap_or(Sexp::atom("?"));
                let src: Arc<_> = j.source_ty().to_final();
                let tgt: Arc<_> = j.target_ty().to_final();
                out.push(Sexp::list(vec![
                    Sexp::num(i),
                    Sexp::atom(j.to_string()),
                    Sexp::list(params),
                    ret,
                    final_to_sexp_compact(&src),
                    final_to_sexp_compact(&tgt),
                ]));
            }
            Ok(Sexp::list(out).to_string())
        }
        ("alias", 1) => match BuiltinAlias::from_str(a[0].as_atom()?) {
            Ok(b) => Ok(ty_to_sexp(&b.resolve()).to_string()),
            Err(_) => Ok("none".to_string()),
        },
        ("grammar", 1) => {
            let text = std::fs::read_to_string(a[0].as_atom()?).map_err(|e| e.to_string())?;
            let pairs = pest_meta::parser::parse(pest_meta::parser::Rule::grammar_rules, &text)
                .map_err(|e| e.to_string())?;
            let rules = pest_meta::parser::consume_rules(pairs).map_err(|e| format!("{:?}", e))?;
            let out = rules
                .iter()
                .map(|r| {
                    let kind = match r.ty {
                        RuleType::Normal => "normal",
                        RuleType::Silent => "silent",
                        RuleType::Atomic => "atomic",
                        RuleType::CompoundAtomic => "compound",
                        RuleType::NonAtomic => "nonatomic",
                    };
                    Sexp::tagged(
                        "rule",
                        vec![Sexp::atom(r.name.clone()), Sexp::atom(kind), expr_sexp(&r.expr)],
                    )
                })
                .collect();
            Ok(Sexp::list(out).to_string())
        }
        _ => Err("bad tables case".into()),
    }
}

#[allow(dead_code)]
fn _u(_: AliasedType) {}
