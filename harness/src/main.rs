//! svh — the implementation side of the correspondence checks.
//!
//! Usage: `svh <command>`; cases are read from stdin, one per line; one answer line per case.
//! Every case runs under `catch_unwind`; a panic is reported as `PANIC <message>`.

mod conv;
mod sexp;
mod layout;
mod front;
mod core;
mod tables;
mod literal;
mod spans;
mod values;
mod pegcmd;
mod ptree;
mod total;

use std::io::{BufRead, Write};
use std::panic::{catch_unwind, AssertUnwindSafe};

fn panic_message(e: Box<dyn std::any::Any + Send>) -> String {
    let s = if let Some(s) = e.downcast_ref::<&str>() {
        s.to_string()
    } else if let Some(s) = e.downcast_ref::<String>() {
        s.clone()
    } else {
        "?".to_string()
    };
    s.replace('\n', " ")
}

fn main() {
    // panics are outcomes here, not noise
    std::panic::set_hook(Box::new(|_| {}));
    let args: Vec<String> = std::env::args().collect();
    if args.len() < 2 {
        eprintln!("usage: svh <command>");
        std::process::exit(2);
    }
    let cmd = args[1].as_str();
    let handler: fn(&str) -> Result<String, String> = match cmd {
        "layout" => layout::handle,
        "front" => front::handle,
        "core" => core::handle,
        "tables" => tables::handle,
        "literal" => literal::handle,
        "span" => spans::handle,
        "value" => values::handle,
        "peg" => pegcmd::handle,
        "ptree" => ptree::handle,
        "total" => total::handle,
        _ => {
            eprintln!("unknown command {cmd}");
            std::process::exit(2);
        }
    };
    let stdin = std::io::stdin();
    let stdout = std::io::stdout();
    let mut out = std::io::BufWriter::new(stdout.lock());
    for line in stdin.lock().lines() {
        let line = match line {
            Ok(l) => l,
            Err(e) => {
                writeln!(out, "ERR io {e}").unwrap();
                continue;
            }
        };
        if line.trim().is_empty() {
            continue;
        }
        let res = catch_unwind(AssertUnwindSafe(|| handler(&line)));
        match res {
            Ok(Ok(s)) => writeln!(out, "{s}").unwrap(),
            Ok(Err(e)) => writeln!(out, "ERR {}", e.replace('\n', " ")).unwrap(),
            Err(p) => writeln!(out, "PANIC {}", panic_message(p)).unwrap(),
        }
        // one answer per line must be on the pipe before the next case starts: when a case aborts the process,
        // the runner attributes the crash to the first line without an answer
        out.flush().unwrap();
    }
    out.flush().unwrap();
}
