//! C07: structural layout of types and values, reconstruction.
//!
//! Cases (one S-expression per line):
//!   (sty <ty>)                 -> <sty>                     StructuralType::from(&ResolvedType)
//!   (sval <value>)             -> (<sval> <sty-of-value>)   StructuralValue::from(&Value) and its Simplicity type
//!   (recon <ty> <sty> <sval>)  -> (some <value>) | none     Value::reconstruct of an arbitrary Simplicity value at <ty>
//!   (roundtrip <value>)        -> (some <value>) | none     reconstruct(structural(v), type(v))

use simfony::types::StructuralType;
use simfony::value::StructuralValue;
use simfony::Value;

use crate::conv::*;
use crate::sexp::{parse, Sexp};

pub fn handle(line: &str) -> Result<String, String> {
    let s = parse(line)?;
    let (tag, args) = s.tag()?;
    match (tag, args.len()) {
        ("sty", 1) => {
            let ty = ty_of_sexp(&args[0])?;
            let st = StructuralType::from(&ty);
            Ok(final_to_sexp(&st.into()).to_string())
        }
        ("sval", 1) => {
            let v = value_of_sexp(&args[0])?;
            let sv = StructuralValue::from(&v);
            let simv: &simfony::simplicity::Value = sv.as_ref();
            let ty = std::sync::Arc::new(simv.ty().clone());
            Ok(Sexp::list(vec![simvalue_to_sexp(simv.as_ref()), final_to_sexp(&ty)]).to_string())
        }
        ("recon", 3) => {
            let ty = ty_of_sexp(&args[0])?;
            let sty = ty_of_sexp(&args[1])?;
            let fin: std::sync::Arc<simfony::simplicity::types::Final> =
                StructuralType::from(&sty).into();
            let simv = simvalue_of_sexp(&args[2], &fin)?;
            let sv = StructuralValue::from(simv);
            Ok(match Value::reconstruct(&sv, &ty) {
                Some(v) => Sexp::tagged("some", vec![value_to_sexp(&v)]).to_string(),
                None => "none".to_string(),
            })
        }
        ("roundtrip", 1) => {
            let v = value_of_sexp(&args[0])?;
            let sv = StructuralValue::from(&v);
            Ok(match Value::reconstruct(&sv, v.ty()) {
                Some(v) => Sexp::tagged("some", vec![value_to_sexp(&v)]).to_string(),
                None => "none".to_string(),
            })
        }
        _ => Err(format!("bad layout case {}", line)),
    }
}
