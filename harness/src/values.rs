//! C15: printing and parsing of values, types, witness/argument modules and JSON maps.
//!   (vshow <value>) -> "<text>"            (vparse <ty> "<text>") -> (ok <value>) | (err "<msg>")
//!   (tshow <ty>)    -> "<text>"            (tparse "<text>")      -> (ok <ty>) | (err "<msg>")
//!   (modshow witness|param ((name value)...)) -> "<text>"     (modparse witness|param "<text>") -> (ok (name value)...) | (err "..")
//!   (json witness|param ((name value)...))    -> "<text>"     (unjson witness|param "<text>")   -> (ok (name value)...) | (err "..")
use simfony::parse::ParseFromStr;
use simfony::types::ResolvedType;
use simfony::{Arguments, Value, WitnessValues};

use crate::conv::*;
use crate::core::name_values;
use crate::front::first_line;
use crate::sexp::{parse, quote, Sexp};

fn sorted_bindings<'a, I: Iterator<Item = (&'a simfony::str::WitnessName, &'a Value)>>(it: I) -> String {
    let mut v: Vec<(String, Sexp)> = it
        .map(|(n, val)| (n.as_inner().to_string(), Sexp::list(vec![Sexp::atom(n.as_inner()), value_to_sexp(val)])))
        .collect();
    v.sort_by(|a, b| a.0.cmp(&b.0));
    Sexp::tagged("ok", v.into_iter().map(|x| x.1).collect()).to_string()
}

pub fn handle(line: &str) -> Result<String, String> {
    let s = parse(line)?;
    let (tag, a) = s.tag()?;
    match (tag, a.len()) {
        ("vshow", 1) => Ok(quote(&value_of_sexp(&a[0])?.to_string())),
        ("vparse", 2) => {
            let ty = ty_of_sexp(&a[0])?;
            Ok(match Value::parse_from_str(a[1].as_atom()?, &ty) {
                Ok(v) => Sexp::tagged("ok", vec![value_to_sexp(&v)]).to_string(),
                Err(e) => format!("(err {})", quote(&first_line(&e.to_string()))),
            })
        }
        ("tshow", 1) => Ok(quote(&ty_of_sexp(&a[0])?.to_string())),
        ("tparse", 1) => Ok(match ResolvedType::parse_from_str(a[0].as_atom()?) {
            Ok(t) => Sexp::tagged("ok", vec![ty_to_sexp(&t)]).to_string(),
            Err(e) => format!("(err {})", quote(&first_line(&e.to_string()))),
        }),
        ("modshow", 2) => {
            let m = name_values(&a[1])?;
            Ok(match a[0].as_atom()? {
                "witness" => quote(&WitnessValues::from(m).to_string()),
                _ => quote(&Arguments::from(m).to_string()),
            })
        }
        ("modparse", 2) => {
            let text = a[1].as_atom()?;
            Ok(match a[0].as_atom()? {
                "witness" => match WitnessValues::parse_from_str(text) {
                    Ok(w) => sorted_bindings(w.iter()),
                    Err(e) => format!("(err {})", quote(&first_line(&e.to_string()))),
                },
                _ => match Arguments::parse_from_str(text) {
                    Ok(w) => sorted_bindings(w.iter()),
                    Err(e) => format!("(err {})", quote(&first_line(&e.to_string()))),
                },
            })
        }
        ("json", 2) => {
            let m = name_values(&a[1])?;
            Ok(match a[0].as_atom()? {
                "witness" => quote(&serde_json::to_string(&WitnessValues::from(m)).map_err(|e| e.to_string())?),
                _ => quote(&serde_json::to_string(&Arguments::from(m)).map_err(|e| e.to_string())?),
            })
        }
        ("unjson", 2) => {
            let text = a[1].as_atom()?;
            Ok(match a[0].as_atom()? {
                "witness" => match serde_json::from_str::<WitnessValues>(text) {
                    Ok(w) => sorted_bindings(w.iter()),
                    Err(e) => format!("(err {})", quote(&e.to_string())),
                },
                _ => match serde_json::from_str::<Arguments>(text) {
                    Ok(w) => sorted_bindings(w.iter()),
                    Err(e) => format!("(err {})", quote(&e.to_string())),
                },
            })
        }
        _ => Err("bad value case".into()),
    }
}
