//! C20 / C14(b): spans, source slicing, error rendering.
//!   (render "<file>" sl sc el ec "<msg>") -> "<rendered>"    RichError::new(Error::Grammar(msg), span).with_file(file).to_string()
//!   (slice "<file>" sl sc el ec)          -> (some "<text>") | none            Span::to_slice
//!   (errmsg "<file>")                     -> ok | (err "<full message>")       TemplateProgram::new
use std::sync::Arc;

use simfony::error::{Error, Position, RichError, Span};
use simfony::TemplateProgram;

use crate::sexp::{parse, quote};

fn span_of(a: &[crate::sexp::Sexp]) -> Result<Span, String> {
    let sl = a[0].as_usize()?;
    let sc = a[1].as_usize()?;
    let el = a[2].as_usize()?;
    let ec = a[3].as_usize()?;
    Ok(Span::new(Position::new(sl, sc), Position::new(el, ec)))
}

pub fn handle(line: &str) -> Result<String, String> {
    let s = parse(line)?;
    let (tag, a) = s.tag()?;
    match (tag, a.len()) {
        ("render", 6) => {
            let file: Arc<str> = Arc::from(a[0].as_atom()?);
            let span = span_of(&a[1..5])?;
            let e = RichError::new(Error::Grammar(a[5].as_atom()?.to_string()), span).with_file(file);
            Ok(quote(&e.to_string()))
        }
        ("slice", 5) => {
            let file = a[0].as_atom()?;
            let span = span_of(&a[1..5])?;
            Ok(match span.to_slice(file) {
                Some(t) => format!("(some {})", quote(t)),
                None => "none".to_string(),
            })
        }
        ("errmsg", 1) => Ok(match TemplateProgram::new(a[0].as_atom()?) {
            Ok(_) => "ok".to_string(),
            Err(e) => format!("(err {})", quote(&e)),
        }),
        _ => Err("bad span case".into()),
    }
}
