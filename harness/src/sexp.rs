//! Minimal S-expressions: atoms and lists.  Shared wire format between the Python
//! orchestrator, this harness and the OCaml driver of the extracted Coq model.

#[derive(Clone, Debug, PartialEq, Eq)]
pub enum Sexp {
    Atom(String),
    List(Vec<Sexp>),
}

impl Sexp {
    pub fn atom<S: Into<String>>(s: S) -> Sexp {
        Sexp::Atom(s.into())
    }
    pub fn list(v: Vec<Sexp>) -> Sexp {
        Sexp::List(v)
    }
    pub fn tagged(tag: &str, mut v: Vec<Sexp>) -> Sexp {
        let mut out = vec![Sexp::atom(tag)];
        out.append(&mut v);
        Sexp::List(out)
    }
    pub fn num<N: std::fmt::Display>(n: N) -> Sexp {
        Sexp::Atom(n.to_string())
    }
    pub fn as_atom(&self) -> Result<&str, String> {
        match self {
            Sexp::Atom(s) => Ok(s),
            _ => Err(format!("expected atom, got {}", self)),
        }
    }
    pub fn as_list(&self) -> Result<&[Sexp], String> {
        match self {
            Sexp::List(v) => Ok(v),
            _ => Err(format!("expected list, got {}", self)),
        }
    }
    pub fn as_usize(&self) -> Result<usize, String> {
        self.as_atom()?
            .parse::<usize>()
            .map_err(|e| format!("bad number {}: {}", self, e))
    }
    /// (tag, rest) of a tagged list; an atom is a tag with no arguments.
    pub fn tag(&self) -> Result<(&str, &[Sexp]), String> {
        match self {
            Sexp::Atom(s) => Ok((s, &[])),
            Sexp::List(v) if !v.is_empty() => Ok((v[0].as_atom()?, &v[1..])),
            _ => Err("empty list has no tag".to_string()),
        }
    }

    pub fn write(&self, out: &mut String) {
        // iterative to survive deep nesting
        enum T<'a> {
            Node(&'a Sexp),
            Close,
            Space,
        }
        let mut stack = vec![T::Node(self)];
        while let Some(t) = stack.pop() {
            match t {
                T::Close => out.push(')'),
                T::Space => out.push(' '),
                T::Node(Sexp::Atom(s)) => out.push_str(s),
                T::Node(Sexp::List(v)) => {
                    out.push('(');
                    stack.push(T::Close);
                    for (i, x) in v.iter().enumerate().rev() {
                        stack.push(T::Node(x));
                        if i > 0 {
                            stack.push(T::Space);
                        }
                    }
                }
            }
        }
    }
}

impl std::fmt::Display for Sexp {
    fn fmt(&self, f: &mut std::fmt::Formatter<'_>) -> std::fmt::Result {
        let mut s = String::new();
        self.write(&mut s);
        f.write_str(&s)
    }
}

pub fn parse(s: &str) -> Result<Sexp, String> {
    let b = s.as_bytes();
    let mut stack: Vec<Vec<Sexp>> = vec![vec![]];
    let mut i = 0;
    while i < b.len() {
        match b[i] {
            b' ' | b'\t' | b'\n' | b'\r' => i += 1,
            b'(' => {
                stack.push(vec![]);
                i += 1;
            }
            b')' => {
                let top = stack.pop().ok_or("unbalanced )")?;
                stack
                    .last_mut()
                    .ok_or("unbalanced )")?
                    .push(Sexp::List(top));
                i += 1;
            }
            b'"' => {
                // quoted atom with \xx hex escapes for arbitrary bytes; kept with quotes stripped
                let mut j = i + 1;
                let mut buf = Vec::new();
                while j < b.len() && b[j] != b'"' {
                    if b[j] == b'\\' && j + 2 < b.len() {
                        let h = std::str::from_utf8(&b[j + 1..j + 3]).map_err(|e| e.to_string())?;
                        buf.push(u8::from_str_radix(h, 16).map_err(|e| e.to_string())?);
                        j += 3;
                    } else {
                        buf.push(b[j]);
                        j += 1;
                    }
                }
                if j >= b.len() {
                    return Err("unterminated string".into());
                }
                stack
                    .last_mut()
                    .unwrap()
                    .push(Sexp::Atom(String::from_utf8_lossy(&buf).into_owned()));
                i = j + 1;
            }
            _ => {
                let mut j = i;
                while j < b.len() && !matches!(b[j], b' ' | b'\t' | b'\n' | b'\r' | b'(' | b')') {
                    j += 1;
                }
                stack
                    .last_mut()
                    .unwrap()
                    .push(Sexp::Atom(String::from_utf8_lossy(&b[i..j]).into_owned()));
                i = j;
            }
        }
    }
    if stack.len() != 1 {
        return Err("unbalanced (".into());
    }
    let mut top = stack.pop().unwrap();
    if top.len() != 1 {
        return Err(format!("expected exactly one expression, got {}", top.len()));
    }
    Ok(top.pop().unwrap())
}

/// Encode arbitrary text as a quoted atom understood by `parse` (and by the OCaml/Python readers).
pub fn quote(s: &str) -> String {
    let mut out = String::from("\"");
    for &c in s.as_bytes() {
        if c.is_ascii_alphanumeric() || b"_-+*/.,:;<>=!?[]{}#@&|^~ ".contains(&c) {
            out.push(c as char);
        } else {
            out.push_str(&format!("\\{:02x}", c));
        }
    }
    out.push('"');
    out
}
