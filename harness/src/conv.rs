//! Conversions between the wire S-expressions and simfony's public data types.

use std::sync::Arc;

use simfony::either::Either;
use simfony::num::{NonZeroPow2Usize, U256};
use simfony::simplicity;
use simfony::types::{ResolvedType, TypeConstructible, TypeInner, UIntType};
use simfony::value::{UIntValue, ValueConstructible, ValueInner};
use simfony::Value;
use simplicity::types::{CompleteBound, Final};
use simplicity::ValueRef;

use crate::sexp::Sexp;

pub fn uint_k(ty: UIntType) -> u32 {
    ty.bit_width().get().trailing_zeros()
}

// ---------------------------------------------------------------- types

pub fn ty_to_sexp(ty: &ResolvedType) -> Sexp {
    match ty.as_inner() {
        TypeInner::Either(a, b) => Sexp::tagged("E", vec![ty_to_sexp(a), ty_to_sexp(b)]),
        TypeInner::Option(a) => Sexp::tagged("O", vec![ty_to_sexp(a)]),
        TypeInner::Boolean => Sexp::atom("B"),
        TypeInner::UInt(u) => Sexp::tagged("U", vec![Sexp::num(uint_k(*u))]),
        TypeInner::Tuple(ts) => Sexp::tagged("T", ts.iter().map(|t| ty_to_sexp(t)).collect()),
        TypeInner::Array(a, n) => Sexp::tagged("A", vec![ty_to_sexp(a), Sexp::num(*n)]),
        TypeInner::List(a, b) => Sexp::tagged(
            "L",
            vec![ty_to_sexp(a), Sexp::num(b.get().trailing_zeros())],
        ),
        _ => Sexp::atom("?"),
    }
}

pub fn ty_of_sexp(s: &Sexp) -> Result<ResolvedType, String> {
    let (tag, args) = s.tag()?;
    match (tag, args.len()) {
        ("E", 2) => Ok(ResolvedType::either(ty_of_sexp(&args[0])?, ty_of_sexp(&args[1])?)),
        ("O", 1) => Ok(ResolvedType::option(ty_of_sexp(&args[0])?)),
        ("B", 0) => Ok(ResolvedType::boolean()),
        ("U", 1) => {
            let k = args[0].as_usize()? as u32;
            UIntType::two_n(k)
                .map(ResolvedType::from)
                .ok_or_else(|| format!("bad uint exponent {k}"))
        }
        ("T", _) => Ok(ResolvedType::tuple(
            args.iter().map(ty_of_sexp).collect::<Result<Vec<_>, _>>()?,
        )),
        ("A", 2) => Ok(ResolvedType::array(ty_of_sexp(&args[0])?, args[1].as_usize()?)),
        ("L", 2) => {
            let k = args[1].as_usize()? as u32;
            let bound = NonZeroPow2Usize::new(1usize << k).ok_or("bad list bound")?;
            Ok(ResolvedType::list(ty_of_sexp(&args[0])?, bound))
        }
        _ => Err(format!("bad type {}", s)),
    }
}

// ---------------------------------------------------------------- values

fn hex_of_be_bytes(bytes: &[u8]) -> String {
    let s: String = bytes.iter().map(|b| format!("{:02x}", b)).collect();
    let t = s.trim_start_matches('0');
    if t.is_empty() { "0".to_string() } else { t.to_string() }
}

fn be_bytes_of_hex(s: &str, n: usize) -> Result<Vec<u8>, String> {
    if s.len() > 2 * n || s.is_empty() {
        return Err(format!("hex {s} does not fit {n} bytes"));
    }
    let padded = format!("{:0>width$}", s, width = 2 * n);
    (0..n)
        .map(|i| u8::from_str_radix(&padded[2 * i..2 * i + 2], 16).map_err(|e| e.to_string()))
        .collect()
}

/// Unsigned integers travel as lower-case hexadecimal without leading zeros.
pub fn uint_to_hex(u: &UIntValue) -> String {
    match u {
        UIntValue::U1(n) | UIntValue::U2(n) | UIntValue::U4(n) | UIntValue::U8(n) => format!("{:x}", n),
        UIntValue::U16(n) => format!("{:x}", n),
        UIntValue::U32(n) => format!("{:x}", n),
        UIntValue::U64(n) => format!("{:x}", n),
        UIntValue::U128(n) => format!("{:x}", n),
        UIntValue::U256(n) => hex_of_be_bytes(n.as_ref()),
    }
}

pub fn uint_of_hex(k: u32, s: &str) -> Result<UIntValue, String> {
    let bad = || format!("bad u{} literal {}", 1u32 << k, s);
    let small = |bits: u32| -> Result<u128, String> {
        let v = u128::from_str_radix(s, 16).map_err(|_| bad())?;
        if bits < 128 && v >> bits != 0 { Err(bad()) } else { Ok(v) }
    };
    Ok(match k {
        0 => UIntValue::u1(small(1)? as u8).map_err(|e| e.to_string())?,
        1 => UIntValue::u2(small(2)? as u8).map_err(|e| e.to_string())?,
        2 => UIntValue::u4(small(4)? as u8).map_err(|e| e.to_string())?,
        3 => UIntValue::U8(small(8)? as u8),
        4 => UIntValue::U16(small(16)? as u16),
        5 => UIntValue::U32(small(32)? as u32),
        6 => UIntValue::U64(small(64)? as u64),
        7 => UIntValue::U128(small(128)?),
        8 => {
            let bytes = be_bytes_of_hex(s, 32)?;
            let arr: [u8; 32] = bytes.try_into().unwrap();
            UIntValue::U256(U256::from_byte_array(arr))
        }
        _ => return Err("bad uint exponent".into()),
    })
}

pub fn value_to_sexp(v: &Value) -> Sexp {
    match v.inner() {
        ValueInner::Either(Either::Left(l)) => {
            let tr = match v.ty().as_inner() {
                TypeInner::Either(_, r) => ty_to_sexp(r),
                _ => Sexp::atom("?"),
            };
            Sexp::tagged("l", vec![value_to_sexp(l), tr])
        }
        ValueInner::Either(Either::Right(r)) => {
            let tl = match v.ty().as_inner() {
                TypeInner::Either(l, _) => ty_to_sexp(l),
                _ => Sexp::atom("?"),
            };
            Sexp::tagged("r", vec![tl, value_to_sexp(r)])
        }
        ValueInner::Option(None) => {
            let t = match v.ty().as_inner() {
                TypeInner::Option(t) => ty_to_sexp(t),
                _ => Sexp::atom("?"),
            };
            Sexp::tagged("n", vec![t])
        }
        ValueInner::Option(Some(x)) => Sexp::tagged("s", vec![value_to_sexp(x)]),
        ValueInner::Boolean(b) => Sexp::tagged("b", vec![Sexp::num(*b as u8)]),
        ValueInner::UInt(u) => Sexp::tagged(
            "u",
            vec![Sexp::num(uint_k(u.get_type())), Sexp::atom(uint_to_hex(u))],
        ),
        ValueInner::Tuple(vs) => Sexp::tagged("t", vs.iter().map(value_to_sexp).collect()),
        ValueInner::Array(vs) => {
            let t = match v.ty().as_inner() {
                TypeInner::Array(t, _) => ty_to_sexp(t),
                _ => Sexp::atom("?"),
            };
            let mut a = vec![t];
            a.extend(vs.iter().map(value_to_sexp));
            Sexp::tagged("a", a)
        }
        ValueInner::List(vs, bound) => {
            let t = match v.ty().as_inner() {
                TypeInner::List(t, _) => ty_to_sexp(t),
                _ => Sexp::atom("?"),
            };
            let mut a = vec![t, Sexp::num(bound.get().trailing_zeros())];
            a.extend(vs.iter().map(value_to_sexp));
            Sexp::tagged("li", a)
        }
    }
}

pub fn value_of_sexp(s: &Sexp) -> Result<Value, String> {
    let (tag, args) = s.tag()?;
    match (tag, args.len()) {
        ("l", 2) => Ok(Value::left(value_of_sexp(&args[0])?, ty_of_sexp(&args[1])?)),
        ("r", 2) => Ok(Value::right(ty_of_sexp(&args[0])?, value_of_sexp(&args[1])?)),
        ("n", 1) => Ok(Value::none(ty_of_sexp(&args[0])?)),
        ("s", 1) => Ok(Value::some(value_of_sexp(&args[0])?)),
        ("b", 1) => Ok(Value::from(args[0].as_usize()? != 0)),
        ("u", 2) => Ok(Value::from(uint_of_hex(
            args[0].as_usize()? as u32,
            args[1].as_atom()?,
        )?)),
        ("t", _) => Ok(Value::tuple(
            args.iter().map(value_of_sexp).collect::<Result<Vec<_>, _>>()?,
        )),
        ("a", n) if n >= 1 => {
            let t = ty_of_sexp(&args[0])?;
            let vs = args[1..].iter().map(value_of_sexp).collect::<Result<Vec<_>, _>>()?;
            Ok(Value::array(vs, t))
        }
        ("li", n) if n >= 2 => {
            let t = ty_of_sexp(&args[0])?;
            let k = args[1].as_usize()? as u32;
            let bound = NonZeroPow2Usize::new(1usize << k).ok_or("bad list bound")?;
            let vs = args[2..].iter().map(value_of_sexp).collect::<Result<Vec<_>, _>>()?;
            Ok(Value::list(vs, t, bound))
        }
        _ => Err(format!("bad value {}", s)),
    }
}

// ---------------------------------------------------------------- Simplicity types and values

/// k such that t = 2^(2^k), if any
fn word_exp(t: &Arc<Final>) -> Option<u32> {
    match t.bound() {
        CompleteBound::Sum(a, b) => match (a.bound(), b.bound()) {
            (CompleteBound::Unit, CompleteBound::Unit) => Some(0),
            _ => None,
        },
        CompleteBound::Product(a, b) => match (word_exp(a), word_exp(b)) {
            (Some(x), Some(y)) if x == y => Some(x + 1),
            _ => None,
        },
        _ => None,
    }
}

/// compact rendering: (W k) stands for the 2^k-bit word type
pub fn final_to_sexp_compact(t: &Arc<Final>) -> Sexp {
    if let Some(k) = word_exp(t) {
        if k >= 1 {
            return Sexp::tagged("W", vec![Sexp::num(k)]);
        }
    }
    match t.bound() {
        CompleteBound::Unit => Sexp::atom("1"),
        CompleteBound::Sum(a, b) => Sexp::tagged("+", vec![final_to_sexp_compact(a), final_to_sexp_compact(b)]),
        CompleteBound::Product(a, b) => Sexp::tagged("*", vec![final_to_sexp_compact(a), final_to_sexp_compact(b)]),
    }
}

pub fn final_to_sexp(t: &Arc<Final>) -> Sexp {
    match t.bound() {
        CompleteBound::Unit => Sexp::atom("1"),
        CompleteBound::Sum(a, b) => Sexp::tagged("+", vec![final_to_sexp(a), final_to_sexp(b)]),
        CompleteBound::Product(a, b) => Sexp::tagged("*", vec![final_to_sexp(a), final_to_sexp(b)]),
    }
}

pub fn simvalue_to_sexp(v: ValueRef) -> Sexp {
    if v.is_unit() {
        Sexp::atom("u")
    } else if let Some(l) = v.as_left() {
        Sexp::tagged("L", vec![simvalue_to_sexp(l)])
    } else if let Some(r) = v.as_right() {
        Sexp::tagged("R", vec![simvalue_to_sexp(r)])
    } else if let Some((a, b)) = v.as_product() {
        Sexp::tagged("P", vec![simvalue_to_sexp(a), simvalue_to_sexp(b)])
    } else {
        Sexp::atom("?")
    }
}

/// Build a Simplicity value from the wire form at a given final type.
pub fn simvalue_of_sexp(s: &Sexp, ty: &Arc<Final>) -> Result<simplicity::Value, String> {
    let (tag, args) = s.tag()?;
    match (tag, args.len(), ty.bound()) {
        ("u", 0, CompleteBound::Unit) => Ok(simplicity::Value::unit()),
        ("L", 1, CompleteBound::Sum(a, b)) => Ok(simplicity::Value::left(
            simvalue_of_sexp(&args[0], a)?,
            b.clone(),
        )),
        ("R", 1, CompleteBound::Sum(a, b)) => Ok(simplicity::Value::right(
            a.clone(),
            simvalue_of_sexp(&args[0], b)?,
        )),
        ("P", 2, CompleteBound::Product(a, b)) => Ok(simplicity::Value::product(
            simvalue_of_sexp(&args[0], a)?,
            simvalue_of_sexp(&args[1], b)?,
        )),
        _ => Err(format!("value {} does not fit type {}", s, ty)),
    }
}
