//! C17 / C06 / C16: the real pest parser generated from /repo/src/minimal.pest (the same grammar file simfony
//! compiles in; simfony's own generated parser type is private), for pair-tree level comparison with Text/Peg.v.
//!   (peg <rule> "<input>") -> fail | (ok <end> (<rule> <start> <end> children...)...)
use pest::iterators::Pair;
use pest::Parser;

use crate::sexp::{parse, Sexp};

#[derive(pest_derive::Parser)]
#[grammar = "/repo/src/minimal.pest"]
struct G;

fn tree(p: Pair<Rule>) -> Sexp {
    let sp = p.as_span();
    let mut v = vec![
        Sexp::atom(format!("{:?}", p.as_rule())),
        Sexp::num(sp.start()),
        Sexp::num(sp.end()),
    ];
    for c in p.into_inner() {
        v.push(tree(c));
    }
    Sexp::list(v)
}

fn rule_of(name: &str) -> Option<Rule> {
    // the derive does not give a name -> Rule map; probe through the Debug names of all rules reachable by trial
    macro_rules! rules { ($($r:ident),* $(,)?) => { match name { $(stringify!($r) => Some(Rule::$r),)* _ => None } } }
    rules!(program, item, statement, expression, block_expression, identifier, jet, witness_name, builtin_type,
           builtin_function, function_name, typed_identifier, function_params, function_return, fn_keyword, function,
           variable_pattern, ignore_pattern, tuple_pattern, array_pattern, pattern, let_keyword, assignment,
           left_pattern, right_pattern, none_pattern, some_pattern, false_pattern, true_pattern, match_pattern,
           sum_type, option_type, boolean_type, unsigned_type, tuple_type, array_size, array_type, list_bound, list_type, ty,
           builtin_alias, alias_name, type_keyword, type_alias, left_expr, right_expr, none_expr, some_expr, false_expr, true_expr,
           unwrap_left, unwrap_right, is_none, unwrap, assert, panic, type_cast, debug, fold, for_while, call_name, call_args, call_expr,
           dec_literal, bin_literal, hex_literal, witness_expr, param_expr, variable_expr, match_arm, match_keyword, match_expr,
           tuple_expr, array_expr, list_expr, single_expression, mod_keyword, const_keyword, module_name, module_assign, module)
}

pub fn handle(line: &str) -> Result<String, String> {
    let s = parse(line)?;
    let (tag, a) = s.tag()?;
    match (tag, a.len()) {
        ("peg", 2) => {
            let rule = rule_of(a[0].as_atom()?).ok_or("unknown rule")?;
            let input = a[1].as_atom()?;
            match G::parse(rule, input) {
                Err(_) => Ok("fail".to_string()),
                Ok(pairs) => {
                    let mut end = 0;
                    let mut out = vec![];
                    for p in pairs {
                        end = end.max(p.as_span().end());
                        out.push(tree(p));
                    }
                    let mut v = vec![Sexp::num(end)];
                    v.extend(out);
                    Ok(Sexp::tagged("ok", v).to_string())
                }
            }
        }
        ("callspans", 1) => {
            // byte ranges of every call expression, straight from pest's pairs (independent of error.rs)
            let input = a[0].as_atom()?;
            match G::parse(Rule::program, input) {
                Err(_) => Ok("fail".to_string()),
                Ok(pairs) => {
                    let mut out = vec![];
                    for p in pairs.flatten() {
                        if p.as_rule() == Rule::call_expr {
                            let sp = p.as_span();
                            out.push(Sexp::list(vec![Sexp::num(sp.start()), Sexp::num(sp.end())]));
                        }
                    }
                    Ok(Sexp::tagged("ok", out).to_string())
                }
            }
        }
        _ => Err("bad peg case".into()),
    }
}
