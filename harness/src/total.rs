//! C06: every text entry point returns Ok or Err.
//!   (entry program|witmod|argmod|witjson|argjson|type "<text>")   (entry value <ty> "<text>")
//!   -> ok | err | (the generic PANIC line of main.rs)
use simfony::parse::ParseFromStr;
use simfony::types::ResolvedType;
use simfony::{Arguments, TemplateProgram, Value, WitnessValues};

use crate::conv::ty_of_sexp;
use crate::sexp::parse;

pub fn handle(line: &str) -> Result<String, String> {
    let s = parse(line)?;
    let (tag, a) = s.tag()?;
    if tag != "entry" || a.is_empty() {
        return Err("bad total case".into());
    }
    let which = a[0].as_atom()?;
    let r: bool = match (which, a.len()) {
        ("program", 2) => match TemplateProgram::new(a[1].as_atom()?) {
            Ok(t) => {
                // also drive the later stages: instantiate without arguments, commit, satisfy without witnesses
                let _ = t.parameters().iter().count();
                match t.instantiate(Arguments::default(), true) {
                    Ok(c) => {
                        let _ = c.commit();
                        let _ = c.satisfy(WitnessValues::default()).map(|s| s.redeem().encode_to_vec());
                        true
                    }
                    Err(e) => {
                        let _ = e.len();
                        true
                    }
                }
            }
            Err(e) => {
                let _ = e.len();
                false
            }
        },
        ("witmod", 2) => WitnessValues::parse_from_str(a[1].as_atom()?).map_err(|e| e.to_string()).is_ok(),
        ("argmod", 2) => Arguments::parse_from_str(a[1].as_atom()?).map_err(|e| e.to_string()).is_ok(),
        ("witjson", 2) => serde_json::from_str::<WitnessValues>(a[1].as_atom()?).map_err(|e| e.to_string()).is_ok(),
        ("argjson", 2) => serde_json::from_str::<Arguments>(a[1].as_atom()?).map_err(|e| e.to_string()).is_ok(),
        ("type", 2) => ResolvedType::parse_from_str(a[1].as_atom()?).map_err(|e| e.to_string()).is_ok(),
        ("value", 3) => {
            let ty = ty_of_sexp(&a[1])?;
            Value::parse_from_str(a[2].as_atom()?, &ty).map_err(|e| e.to_string()).is_ok()
        }
        _ => return Err("bad entry".into()),
    };
    Ok(if r { "ok".into() } else { "err".into() })
}
