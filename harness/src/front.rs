//! Text entry points of the library: acceptance, instantiation.
//!
//! Cases:
//!   (accept "<text>")      -> ok | err "<first line of message>"       TemplateProgram::new
//!   (compile "<text>")     -> ok <cmr> | rej "<msg>" | cerr "<msg>"    TemplateProgram::new + instantiate(no args, no debug) + commit
use simfony::{Arguments, TemplateProgram};

use crate::sexp::{parse, quote};

pub fn first_line(s: &str) -> String {
    s.lines().last().unwrap_or("").trim().to_string()
}

pub fn handle(line: &str) -> Result<String, String> {
    let s = parse(line)?;
    let (tag, args) = s.tag()?;
    match (tag, args.len()) {
        ("accept", 1) => {
            let text = args[0].as_atom()?;
            Ok(match TemplateProgram::new(text) {
                Ok(_) => "ok".to_string(),
                Err(e) => format!("err {}", quote(&first_line(&e))),
            })
        }
        ("compile", 1) => {
            let text = args[0].as_atom()?;
            let t = match TemplateProgram::new(text) {
                Ok(t) => t,
                Err(e) => return Ok(format!("rej {}", quote(&first_line(&e)))),
            };
            match t.instantiate(Arguments::default(), false) {
                Ok(c) => Ok(format!("ok {}", c.commit().cmr())),
                Err(e) => Ok(format!("cerr {}", quote(&first_line(&e)))),
            }
        }
        _ => Err(format!("bad front case {}", line)),
    }
}
