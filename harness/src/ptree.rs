//! Parse-tree dump (C04 / C12 / C14 / C16): text -> parse::Program in the wire form read by Front/PTree.v.
//!   (ptree "<text>") -> (ok (items...) (spans (id sl sc el ec)...)) | (err "<msg>")
//!   (pprint "<text>") -> (ok "<Display of the parse tree>") | (err ..)
use simfony::either::Either;
use simfony::error::Span;
use simfony::parse::{self, ParseFromStr};
use simfony::pattern::Pattern;
use simfony::types::{AliasedType, TypeDeconstructible};

use crate::conv::uint_k;
use crate::front::first_line;
use crate::sexp::{parse as parse_sexp, quote, Sexp};

pub fn aty_sexp(t: &AliasedType) -> Sexp {
    if let Some(n) = t.as_alias() {
        return Sexp::tagged("al", vec![Sexp::atom(n.as_inner())]);
    }
    if let Some(b) = t.as_builtin() {
        return Sexp::tagged("bi", vec![Sexp::atom(b.to_string())]);
    }
    if let Some((a, b)) = t.as_either() {
        return Sexp::tagged("E", vec![aty_sexp(a), aty_sexp(b)]);
    }
    if let Some(a) = t.as_option() {
        return Sexp::tagged("O", vec![aty_sexp(a)]);
    }
    if t.is_boolean() {
        return Sexp::atom("B");
    }
    if let Some(u) = t.as_integer() {
        return Sexp::tagged("U", vec![Sexp::num(uint_k(u))]);
    }
    if let Some(ts) = t.as_tuple() {
        return Sexp::tagged("T", ts.iter().map(|x| aty_sexp(x)).collect());
    }
    if let Some((a, n)) = t.as_array() {
        return Sexp::tagged("A", vec![aty_sexp(a), Sexp::num(n)]);
    }
    if let Some((a, b)) = t.as_list() {
        return Sexp::tagged("L", vec![aty_sexp(a), Sexp::num(b.get().trailing_zeros())]);
    }
    Sexp::atom("?")
}

fn pat_sexp(p: &Pattern) -> Sexp {
    match p {
        Pattern::Identifier(i) => Sexp::tagged("id", vec![Sexp::atom(i.as_inner())]),
        Pattern::Ignore => Sexp::atom("_"),
        Pattern::Tuple(ps) => Sexp::tagged("tup", ps.iter().map(pat_sexp).collect()),
        Pattern::Array(ps) => Sexp::tagged("arr", ps.iter().map(pat_sexp).collect()),
    }
}

struct Ctx {
    spans: Vec<Sexp>,
}

fn mpat(p: &parse::MatchPattern) -> Sexp {
    use parse::MatchPattern as M;
    match p {
        M::Left(i, t) => Sexp::tagged("ml", vec![Sexp::atom(i.as_inner()), aty_sexp(t)]),
        M::Right(i, t) => Sexp::tagged("mr", vec![Sexp::atom(i.as_inner()), aty_sexp(t)]),
        M::None => Sexp::atom("mn"),
        M::Some(i, t) => Sexp::tagged("ms", vec![Sexp::atom(i.as_inner()), aty_sexp(t)]),
        M::False => Sexp::atom("mf"),
        M::True => Sexp::atom("mt"),
    }
}

fn expr(e: &parse::Expression, c: &mut Ctx) -> Sexp {
    match e.inner() {
        parse::ExpressionInner::Single(s) => single(s, c),
        parse::ExpressionInner::Block(stmts, last) => {
            let ss = stmts
                .iter()
                .map(|s| match s {
                    parse::Statement::Assignment(a) => Sexp::tagged(
                        "let",
                        vec![pat_sexp(a.pattern()), aty_sexp(a.ty()), expr(a.expression(), c)],
                    ),
                    parse::Statement::Expression(x) => Sexp::tagged("ex", vec![expr(x, c)]),
                })
                .collect();
            let l = match last {
                Some(x) => Sexp::tagged("some", vec![expr(x, c)]),
                None => Sexp::atom("none"),
            };
            Sexp::tagged("blk", vec![Sexp::list(ss), l])
        }
    }
}

fn exprs(es: &[parse::Expression], c: &mut Ctx) -> Vec<Sexp> {
    es.iter().map(|e| expr(e, c)).collect()
}

fn single(s: &parse::SingleExpression, c: &mut Ctx) -> Sexp {
    use parse::SingleExpressionInner as S;
    match s.inner() {
        S::Boolean(b) => Sexp::tagged("bool", vec![Sexp::num(*b as u8)]),
        S::Decimal(d) => Sexp::tagged("dec", vec![Sexp::atom(quote(d.as_inner()))]),
        S::Binary(d) => Sexp::tagged("bin", vec![Sexp::atom(quote(d.as_inner()))]),
        S::Hexadecimal(d) => Sexp::tagged("hex", vec![Sexp::atom(quote(d.as_inner()))]),
        S::Witness(n) => Sexp::tagged("wit", vec![Sexp::atom(n.as_inner())]),
        S::Parameter(n) => Sexp::tagged("par", vec![Sexp::atom(n.as_inner())]),
        S::Variable(i) => Sexp::tagged("var", vec![Sexp::atom(i.as_inner())]),
        S::Expression(e) => Sexp::tagged("paren", vec![expr(e, c)]),
        S::Tuple(es) => Sexp::tagged("tup", exprs(es, c)),
        S::Array(es) => Sexp::tagged("arr", exprs(es, c)),
        S::List(es) => Sexp::tagged("lst", exprs(es, c)),
        S::Either(Either::Left(e)) => Sexp::tagged("left", vec![expr(e, c)]),
        S::Either(Either::Right(e)) => Sexp::tagged("right", vec![expr(e, c)]),
        S::Option(None) => Sexp::atom("none"),
        S::Option(Some(e)) => Sexp::tagged("some", vec![expr(e, c)]),
        S::Call(call) => {
            use parse::CallName as C;
            let name = match call.name() {
                C::Jet(j) => Sexp::tagged("jet", vec![Sexp::atom(j.as_inner())]),
                C::UnwrapLeft(t) => Sexp::tagged("ul", vec![aty_sexp(t)]),
                C::UnwrapRight(t) => Sexp::tagged("ur", vec![aty_sexp(t)]),
                C::IsNone(t) => Sexp::tagged("isnone", vec![aty_sexp(t)]),
                C::Unwrap => Sexp::atom("unwrap"),
                C::Assert => Sexp::atom("assert"),
                C::Panic => Sexp::atom("panic"),
                C::Debug => Sexp::atom("dbg"),
                C::TypeCast(t) => Sexp::tagged("cast", vec![aty_sexp(t)]),
                C::Custom(f) => Sexp::tagged("custom", vec![Sexp::atom(f.as_inner())]),
                C::Fold(f, b) => Sexp::tagged("fold", vec![Sexp::atom(f.as_inner()), Sexp::num(b.get().trailing_zeros())]),
                C::ForWhile(f) => Sexp::tagged("forwhile", vec![Sexp::atom(f.as_inner())]),
            };
            let id = c.spans.len() + 1;
            let sp: &Span = call.as_ref();
            c.spans.push(Sexp::list(vec![
                Sexp::num(id),
                Sexp::num(sp.start.line.get()),
                Sexp::num(sp.start.col.get()),
                Sexp::num(sp.end.line.get()),
                Sexp::num(sp.end.col.get()),
            ]));
            let mut v = vec![Sexp::num(id), name];
            v.extend(exprs(call.args(), c));
            Sexp::tagged("call", v)
        }
        S::Match(m) => {
            let sc = expr(m.scrutinee(), c);
            let l = expr(m.left().expression(), c);
            let r = expr(m.right().expression(), c);
            Sexp::tagged("match", vec![sc, mpat(m.left().pattern()), l, mpat(m.right().pattern()), r])
        }
    }
}

pub fn handle(line: &str) -> Result<String, String> {
    let s = parse_sexp(line)?;
    let (tag, a) = s.tag()?;
    match (tag, a.len()) {
        ("ptree", 1) => {
            let prog = match parse::Program::parse_from_str(a[0].as_atom()?) {
                Ok(p) => p,
                Err(e) => return Ok(format!("(err {})", quote(&first_line(&e.to_string())))),
            };
            let mut c = Ctx { spans: vec![] };
            let mut items = vec![];
            for it in prog.items() {
                items.push(match it {
                    parse::Item::TypeAlias(al) => Sexp::tagged("alias", vec![Sexp::atom(al.name().as_inner()), aty_sexp(al.ty())]),
                    parse::Item::Function(f) => {
                        let ps = f
                            .params()
                            .iter()
                            .map(|p| Sexp::list(vec![Sexp::atom(p.identifier().as_inner()), aty_sexp(p.ty())]))
                            .collect();
                        let ret = match f.ret() {
                            Some(t) => Sexp::tagged("some", vec![aty_sexp(t)]),
                            None => Sexp::atom("none"),
                        };
                        Sexp::tagged("fn", vec![Sexp::atom(f.name().as_inner()), Sexp::list(ps), ret, expr(f.body(), &mut c)])
                    }
                    parse::Item::Module => Sexp::atom("module"),
                });
            }
            Ok(Sexp::tagged("ok", vec![Sexp::list(items), Sexp::tagged("spans", c.spans)]).to_string())
        }
        ("pprint", 1) => Ok(match parse::Program::parse_from_str(a[0].as_atom()?) {
            Ok(p) => format!("(ok {})", quote(&p.to_string())),
            Err(e) => format!("(err {})", quote(&first_line(&e.to_string()))),
        }),
        ("rt", 1) => Ok(match parse::Program::parse_from_str(a[0].as_atom()?) {
            // C16 as stated: parse, print, parse again, compare with the tree's own PartialEq
            Ok(p) => {
                let printed = p.to_string();
                match parse::Program::parse_from_str(&printed) {
                    Ok(q) if q == p => format!("(ok eq {})", quote(&printed)),
                    Ok(_) => format!("(ok DIFF {})", quote(&printed)),
                    Err(e) => format!("(ok REPARSE-ERR {} {})", quote(&first_line(&e.to_string())), quote(&printed)),
                }
            }
            Err(e) => format!("(err {})", quote(&first_line(&e.to_string()))),
        }),
        _ => Err("bad ptree case".into()),
    }
}
