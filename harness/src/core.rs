//! The compiler core: typed-AST dump, structural hash of the emitted Simplicity DAG, execution.
//!
//! Cases:
//!   (ast "<text>")
//!       -> (ok <expr> (params (<name> <ty>)...) (witnesses (<name> <ty>)...)) | (rej "<msg>")
//!   (term "<text>" ((<name> <value>)...) <dbg 0|1>)
//!       -> (ok <hash> <expanded-node-count> <root-arrow>) | (rej "<msg>") | (cerr "<msg>")
//!   (run "<text>" ((<name> <value>)...) ((<wname> <value>)...) <dbg 0|1>)
//!       -> (ok|fail "<msg>"|sat "<msg>"|rej|cerr ... ) with CMR / encode / decode facts (see `run`)

use std::collections::HashMap;
use std::sync::Arc;

use simfony::ast;
use simfony::either::Either;
use simfony::named::ConstructNode;
use simfony::parse::{self, MatchPattern, ParseFromStr};
use simfony::pattern::Pattern;
use simfony::simplicity;
use simfony::str::WitnessName;
use simfony::types::{ResolvedType, TypeInner};
use simfony::{Arguments, CompiledProgram, TemplateProgram, Value, WitnessValues};
use simplicity::jet::Elements;
use simplicity::node::Inner;
use simplicity::{BitMachine, Cmr, FailEntropy, RedeemNode};

use crate::conv::*;
use crate::front::first_line;
use crate::sexp::{parse as parse_sexp, quote, Sexp};

// ------------------------------------------------------------------ AST dump

fn pat_sexp(p: &Pattern) -> Sexp {
    match p {
        Pattern::Identifier(i) => Sexp::tagged("id", vec![Sexp::atom(i.as_inner())]),
        Pattern::Ignore => Sexp::atom("_"),
        Pattern::Tuple(ps) => Sexp::tagged("tup", ps.iter().map(pat_sexp).collect()),
        Pattern::Array(ps) => Sexp::tagged("arr", ps.iter().map(pat_sexp).collect()),
    }
}

pub fn jet_index(j: Elements) -> usize {
    Elements::ALL.iter().position(|x| *x == j).unwrap()
}

fn arm_var(p: &MatchPattern) -> Sexp {
    match p.as_variable() {
        Some(i) => Sexp::tagged("v", vec![Sexp::atom(i.as_inner())]),
        None => Sexp::atom("_"),
    }
}

fn expr_sexp(e: &ast::Expression) -> Sexp {
    match e.inner() {
        ast::ExpressionInner::Single(s) => {
            if s.ty() != e.ty() {
                return Sexp::tagged(
                    "tymismatch",
                    vec![ty_to_sexp(e.ty()), ty_to_sexp(s.ty())],
                );
            }
            single_sexp(s)
        }
        ast::ExpressionInner::Block(stmts, last) => {
            let ss = stmts
                .iter()
                .map(|s| match s {
                    ast::Statement::Assignment(a) => {
                        Sexp::tagged("let", vec![pat_sexp(a.pattern()), expr_sexp(a.expression())])
                    }
                    ast::Statement::Expression(x) => Sexp::tagged("ex", vec![expr_sexp(x)]),
                })
                .collect();
            let l = match last {
                Some(x) => Sexp::tagged("some", vec![expr_sexp(x)]),
                None => Sexp::atom("none"),
            };
            Sexp::tagged("block", vec![ty_to_sexp(e.ty()), Sexp::list(ss), l])
        }
    }
}

fn exprs(es: &[ast::Expression]) -> Vec<Sexp> {
    es.iter().map(expr_sexp).collect()
}

fn params_sexp(f: &ast::CustomFunction) -> Sexp {
    Sexp::list(
        f.params()
            .iter()
            .map(|p| Sexp::list(vec![Sexp::atom(p.identifier().as_inner()), ty_to_sexp(p.ty())]))
            .collect(),
    )
}

fn single_sexp(s: &ast::SingleExpression) -> Sexp {
    use ast::SingleExpressionInner as S;
    let t = ty_to_sexp(s.ty());
    match s.inner() {
        S::Constant(v) => {
            if v.ty() != s.ty() {
                return Sexp::tagged("tymismatch", vec![t, ty_to_sexp(v.ty())]);
            }
            Sexp::tagged("const", vec![t, value_to_sexp(v)])
        }
        S::Witness(n) => Sexp::tagged("wit", vec![t, Sexp::atom(n.as_inner())]),
        S::Parameter(n) => Sexp::tagged("param", vec![t, Sexp::atom(n.as_inner())]),
        S::Variable(i) => Sexp::tagged("var", vec![t, Sexp::atom(i.as_inner())]),
        S::Expression(e) => {
            if e.ty() != s.ty() {
                return Sexp::tagged("tymismatch", vec![t, ty_to_sexp(e.ty())]);
            }
            Sexp::tagged("paren", vec![expr_sexp(e)])
        }
        S::Tuple(es) => {
            let mut v = vec![t];
            v.extend(exprs(es));
            Sexp::tagged("tuple", v)
        }
        S::Array(es) => {
            let mut v = vec![t];
            v.extend(exprs(es));
            Sexp::tagged("array", v)
        }
        S::List(es) => {
            let mut v = vec![t];
            v.extend(exprs(es));
            Sexp::tagged("list", v)
        }
        S::Either(Either::Left(e)) => Sexp::tagged("left", vec![t, expr_sexp(e)]),
        S::Either(Either::Right(e)) => Sexp::tagged("right", vec![t, expr_sexp(e)]),
        S::Option(None) => Sexp::tagged("none", vec![t]),
        S::Option(Some(e)) => Sexp::tagged("some", vec![t, expr_sexp(e)]),
        S::Call(c) => {
            use ast::CallName as C;
            let b = |name: &str| -> Sexp {
                let mut v = vec![t.clone(), Sexp::atom(name)];
                v.extend(exprs(c.args()));
                Sexp::tagged("call", v)
            };
            let f = |kind: Sexp, f: &ast::CustomFunction| -> Sexp {
                let mut v = vec![t.clone(), kind, params_sexp(f), expr_sexp(f.body())];
                v.extend(exprs(c.args()));
                Sexp::tagged("fn", v)
            };
            match c.name() {
                C::Jet(j) => {
                    let mut v = vec![
                        t.clone(),
                        Sexp::tagged("jet", vec![Sexp::num(jet_index(*j)), Sexp::atom(j.to_string())]),
                    ];
                    v.extend(exprs(c.args()));
                    Sexp::tagged("call", v)
                }
                C::UnwrapLeft(_) => b("unwrap_left"),
                C::UnwrapRight(_) => b("unwrap_right"),
                C::IsNone(_) => b("is_none"),
                C::Unwrap => b("unwrap"),
                C::Assert => b("assert"),
                C::Panic => b("panic"),
                C::Debug => b("dbg"),
                C::TypeCast(src) => {
                    let mut v = vec![t.clone(), Sexp::tagged("cast", vec![ty_to_sexp(src)])];
                    v.extend(exprs(c.args()));
                    Sexp::tagged("call", v)
                }
                C::Custom(fun) => f(Sexp::atom("custom"), fun),
                C::Fold(fun, bound) => f(
                    Sexp::tagged("fold", vec![Sexp::num(bound.get().trailing_zeros())]),
                    fun,
                ),
                C::ForWhile(fun, width) => f(
                    Sexp::tagged("for", vec![Sexp::num(width.get().trailing_zeros())]),
                    fun,
                ),
            }
        }
        S::Match(m) => Sexp::tagged(
            "match",
            vec![
                t,
                expr_sexp(m.scrutinee()),
                arm_var(m.left().pattern()),
                expr_sexp(m.left().expression()),
                arm_var(m.right().pattern()),
                expr_sexp(m.right().expression()),
            ],
        ),
    }
}

fn sorted_types<'a, I: Iterator<Item = (&'a WitnessName, &'a ResolvedType)>>(it: I) -> Vec<Sexp> {
    let mut v: Vec<(String, Sexp)> = it
        .map(|(n, t)| {
            (
                n.as_inner().to_string(),
                Sexp::list(vec![Sexp::atom(n.as_inner()), ty_to_sexp(t)]),
            )
        })
        .collect();
    v.sort_by(|a, b| a.0.cmp(&b.0));
    v.into_iter().map(|x| x.1).collect()
}

pub fn analyze_text(text: &str) -> Result<ast::Program, String> {
    let p = parse::Program::parse_from_str(text).map_err(|e| e.to_string())?;
    ast::Program::analyze(&p).map_err(|e| e.to_string())
}

fn ast_cmd(text: &str) -> String {
    match analyze_text(text) {
        Err(e) => format!("(rej {})", quote(&first_line(&e))),
        Ok(prog) => Sexp::tagged(
            "ok",
            vec![
                expr_sexp(prog.main()),
                Sexp::tagged("params", sorted_types(prog.parameters().iter())),
                Sexp::tagged("witnesses", sorted_types(prog.witness_types().iter())),
            ],
        )
        .to_string(),
    }
}

// ------------------------------------------------------------------ term hash

pub fn mix(h: u64, x: u64) -> u64 {
    let mut z = (h ^ x).wrapping_mul(0x9E3779B97F4A7C15);
    z ^= z >> 29;
    z = z.wrapping_mul(0xBF58476D1CE4E5B9);
    z ^= z >> 32;
    z
}

#[derive(Clone, Copy)]
pub struct H(pub u64, pub u64, pub u64); // two lanes + expanded node count (saturating)

const S1: u64 = 0x0123456789abcdef;
const S2: u64 = 0x0fedcba987654321;

pub fn hnode(tag: u64, payload: u64, kids: &[H]) -> H {
    let mut a = mix(S1, tag);
    let mut b = mix(S2, tag.wrapping_add(77));
    a = mix(a, payload);
    b = mix(b, payload);
    let mut n: u64 = 1;
    for k in kids {
        a = mix(a, k.0);
        b = mix(b, k.1);
        n = n.saturating_add(k.2);
    }
    H(a, b, n)
}

pub fn hash_name(s: &str) -> u64 {
    let mut h = 0xcbf29ce484222325u64;
    for b in s.bytes() {
        h = mix(h, b as u64);
    }
    h
}

// tags shared with the OCaml driver
pub const T_IDEN: u64 = 1;
pub const T_UNIT: u64 = 2;
pub const T_INJL: u64 = 3;
pub const T_INJR: u64 = 4;
pub const T_TAKE: u64 = 5;
pub const T_DROP: u64 = 6;
pub const T_COMP: u64 = 7;
pub const T_CASE: u64 = 8;
pub const T_ASSERTL: u64 = 9;
pub const T_ASSERTR: u64 = 10;
pub const T_PAIR: u64 = 11;
pub const T_FAIL: u64 = 12;
pub const T_WIT: u64 = 13;
pub const T_JET: u64 = 14;

fn word_hash(bits: &[bool]) -> H {
    // expansion of a constant word into pairs of `injl unit` / `injr unit`, as `scribe` without word jets
    if bits.len() == 1 {
        let u = hnode(T_UNIT, 0, &[]);
        return hnode(if bits[0] { T_INJR } else { T_INJL }, 0, &[u]);
    }
    let (l, r) = bits.split_at(bits.len() / 2);
    hnode(T_PAIR, 0, &[word_hash(l), word_hash(r)])
}

fn cmr_token(c: &Cmr) -> u64 {
    if *c == Cmr::fail(FailEntropy::ZERO) {
        0
    } else {
        1
    }
}

pub fn dag_hash(root: &Arc<ConstructNode>) -> H {
    let mut memo: HashMap<*const ConstructNode, H> = HashMap::new();
    // iterative post-order
    let mut stack: Vec<(Arc<ConstructNode>, bool)> = vec![(root.clone(), false)];
    while let Some((node, visited)) = stack.pop() {
        let key = Arc::as_ptr(&node);
        if memo.contains_key(&key) {
            continue;
        }
        let kids: Vec<Arc<ConstructNode>> = match node.inner() {
            Inner::InjL(c) | Inner::InjR(c) | Inner::Take(c) | Inner::Drop(c) => vec![c.clone()],
            Inner::AssertL(c, _) | Inner::AssertR(_, c) => vec![c.clone()],
            Inner::Comp(a, b) | Inner::Case(a, b) | Inner::Pair(a, b) => vec![a.clone(), b.clone()],
            Inner::Disconnect(a, _) => vec![a.clone()],
            _ => vec![],
        };
        if !visited {
            stack.push((node.clone(), true));
            for k in kids {
                if !memo.contains_key(&Arc::as_ptr(&k)) {
                    stack.push((k, false));
                }
            }
            continue;
        }
        let hk: Vec<H> = kids.iter().map(|k| memo[&Arc::as_ptr(k)]).collect();
        let h = match node.inner() {
            Inner::Iden => hnode(T_IDEN, 0, &[]),
            Inner::Unit => hnode(T_UNIT, 0, &[]),
            Inner::InjL(_) => hnode(T_INJL, 0, &hk),
            Inner::InjR(_) => hnode(T_INJR, 0, &hk),
            Inner::Take(_) => hnode(T_TAKE, 0, &hk),
            Inner::Drop(_) => hnode(T_DROP, 0, &hk),
            Inner::Comp(..) => hnode(T_COMP, 0, &hk),
            Inner::Case(..) => hnode(T_CASE, 0, &hk),
            Inner::AssertL(_, c) => hnode(T_ASSERTL, cmr_token(c), &hk),
            Inner::AssertR(c, _) => hnode(T_ASSERTR, cmr_token(c), &hk),
            Inner::Pair(..) => hnode(T_PAIR, 0, &hk),
            Inner::Disconnect(..) => hnode(99, 0, &hk),
            Inner::Witness(w) => hnode(T_WIT, hash_name(w.as_inner()), &[]),
            Inner::Fail(_) => hnode(T_FAIL, 0, &[]),
            Inner::Jet(j) => hnode(T_JET, jet_index(*j) as u64, &[]),
            Inner::Word(w) => {
                let bits: Vec<bool> = w.iter().collect();
                word_hash(&bits)
            }
        };
        memo.insert(key, h);
    }
    memo[&Arc::as_ptr(root)]
}

pub fn hash_str(h: H) -> String {
    format!("{:016x}{:016x}", h.0, h.1)
}

// ------------------------------------------------------------------ arguments / witnesses from the wire

pub fn name_values(s: &Sexp) -> Result<HashMap<WitnessName, Value>, String> {
    let mut m = HashMap::new();
    for item in s.as_list()? {
        let l = item.as_list()?;
        if l.len() != 2 {
            return Err(format!("bad binding {}", item));
        }
        m.insert(
            WitnessName::from_str_unchecked(l[0].as_atom()?),
            value_of_sexp(&l[1])?,
        );
    }
    Ok(m)
}

fn term_cmd(text: &str, args: &Sexp, dbg: bool) -> Result<String, String> {
    let prog = match analyze_text(text) {
        Ok(p) => p,
        Err(e) => return Ok(format!("(rej {})", quote(&first_line(&e)))),
    };
    let arguments = Arguments::from(name_values(args)?);
    if let Err(e) = arguments.is_consistent(prog.parameters()) {
        return Ok(format!("(argerr {})", quote(&e.to_string())));
    }
    match prog.compile(arguments, dbg) {
        Err(e) => Ok(format!("(cerr {})", quote(&first_line(&e.to_string())))),
        Ok(node) => {
            let h = dag_hash(&node);
            Ok(format!("(ok {} {})", hash_str(h), h.2))
        }
    }
}

// ------------------------------------------------------------------ execution

pub struct RunFacts {
    pub outcome: String,
}

/// satisfy -> encode -> decode -> Bit Machine under the dummy environment.
pub fn run_program(compiled: &CompiledProgram, wit: WitnessValues, pruned: bool) -> String {
    run_program_env(compiled, wit, pruned, simfony::dummy_env::dummy())
}

pub fn run_program_env(
    compiled: &CompiledProgram,
    wit: WitnessValues,
    pruned: bool,
    env: simplicity::jet::elements::ElementsEnv<Arc<simplicity::elements::Transaction>>,
) -> String {
    let commit_cmr = compiled.commit().cmr();
    let wit_copy = wit.clone();
    let satisfied = if pruned {
        compiled.satisfy_with_env(wit, Some(&env))
    } else {
        compiled.satisfy(wit)
    };
    let satisfied = match satisfied {
        Ok(s) => s,
        Err(e) => return format!("(sat {})", quote(&first_line(&e))),
    };
    let redeem = satisfied.redeem();
    let mut facts = vec![];
    facts.push(format!("cmr={}", if redeem.cmr() == commit_cmr { "same" } else { "DIFF" }));
    if pruned {
        // the program as returned (in memory), before any encoding
        let m = match BitMachine::for_program(redeem) {
            Ok(mut mac) => match mac.exec(redeem, &env) {
                Ok(_) => "ok".to_string(),
                Err(_) => "fail".to_string(),
            },
            Err(_) => "limits".to_string(),
        };
        facts.push(format!("mexec={}", m));
        // two DIFFERENT nodes with one identity hash (an assertl and an assertr that stem from case nodes which became
        // equal after pruning): such a program has no canonical encoding, the encoder merges the two nodes
        use simplicity::dag::{DagLike, InternalSharing};
        let mut seen: HashMap<simplicity::Ihr, String> = HashMap::new();
        let mut twins = false;
        for item in redeem.as_ref().post_order_iter::<InternalSharing>() {
            let tag = match item.node.inner() {
                Inner::AssertL(_, c) => format!("assertl {}", c),
                Inner::AssertR(c, _) => format!("assertr {}", c),
                _ => continue,
            };
            if let Some(old) = seen.insert(item.node.ihr(), tag.clone()) {
                if old != tag {
                    twins = true;
                }
            }
        }
        facts.push(format!("twins={}", if twins { "yes" } else { "no" }));
        // the dependency's pruner applied to simfony's own UNPRUNED output: if that alone reproduces the returned program
        // byte for byte, whatever is wrong with it was made inside simplicity::RedeemNode::prune
        let dep = match compiled.satisfy(wit_copy) {
            Ok(u) => match u.redeem().prune(&env) {
                Ok(p) => {
                    if p.encode_to_vec() == redeem.encode_to_vec() {
                        "same"
                    } else {
                        "diff"
                    }
                }
                Err(_) => "err",
            },
            Err(_) => "sat-err",
        };
        facts.push(format!("depprune={}", dep));
    }
    let (prog_bytes, wit_bytes) = redeem.encode_to_vec();
    let decoded = RedeemNode::<Elements>::decode(
        simplicity::BitIter::from(prog_bytes.iter().copied()),
        simplicity::BitIter::from(wit_bytes.iter().copied()),
    );
    let exec_node = match decoded {
        Ok(d) => {
            facts.push(format!(
                "decode=ok dcmr={}",
                if d.cmr() == commit_cmr { "same" } else { "DIFF" }
            ));
            d
        }
        Err(e) => {
            facts.push(format!("decode=ERR:{}", e.to_string().replace(' ', "_")));
            redeem.clone()
        }
    };
    let mut mac = match BitMachine::for_program(&exec_node) {
        Ok(m) => m,
        Err(e) => return format!("(limits {} {})", quote(&e.to_string()), facts.join(" ")),
    };
    match mac.exec(&exec_node, &env) {
        Ok(_) => format!("(ok {})", facts.join(" ")),
        Err(e) => format!("(fail {} {})", quote(&e.to_string()), facts.join(" ")),
    }
}

fn run_cmd(text: &str, args: &Sexp, wit: &Sexp, dbg: bool, pruned: bool) -> Result<String, String> {
    let template = match TemplateProgram::new(text) {
        Ok(t) => t,
        Err(e) => return Ok(format!("(rej {})", quote(&first_line(&e)))),
    };
    let arguments = Arguments::from(name_values(args)?);
    let compiled = match template.instantiate(arguments, dbg) {
        Ok(c) => c,
        Err(e) => return Ok(format!("(cerr {})", quote(&first_line(&e)))),
    };
    let wv = WitnessValues::from(name_values(wit)?);
    Ok(run_program(&compiled, wv, pruned))
}

fn hex(bytes: &[u8]) -> String {
    bytes.iter().map(|b| format!("{:02x}", b)).collect()
}

/// commit(): CMR and encoding
fn commit_cmd(text: &str, args: &Sexp, dbg: bool) -> Result<String, String> {
    let template = match TemplateProgram::new(text) {
        Ok(t) => t,
        Err(e) => return Ok(format!("(rej {})", quote(&first_line(&e)))),
    };
    let arguments = Arguments::from(name_values(args)?);
    match template.instantiate(arguments, dbg) {
        Ok(c) => {
            let commit = c.commit();
            Ok(format!("(ok {} {})", commit.cmr(), hex(&commit.encode_to_vec())))
        }
        Err(e) => Ok(format!("(cerr {})", quote(&first_line(&e)))),
    }
}

/// parameters() of a template
fn params_cmd(text: &str) -> Result<String, String> {
    match TemplateProgram::new(text) {
        Ok(t) => Ok(Sexp::tagged("ok", sorted_types(t.parameters().iter())).to_string()),
        Err(e) => Ok(format!("(rej {})", quote(&first_line(&e)))),
    }
}

/// every AssertL hidden CMR of the debug build, looked up in debug_symbols()
/// C19: the same source through the different constructors of the public API.
///   (apipaths "<text>" (args..) (witness..) dbg) -> (commit <a> <b>) (redeem <a> <b> <c>) with hex encodings or error tags
fn apipaths_cmd(text: &str, args: &Sexp, wit: &Sexp, dbg: bool) -> Result<String, String> {
    use simfony::SatisfiedProgram;
    let enc_commit = |c: &CompiledProgram| hex(&c.commit().encode_to_vec());
    let enc_redeem = |s: &simfony::SatisfiedProgram| {
        let (p, w) = s.redeem().encode_to_vec();
        format!("{}:{}", hex(&p), hex(&w))
    };
    let a1 = match CompiledProgram::new(text, Arguments::from(name_values(args)?), dbg) {
        Ok(c) => enc_commit(&c),
        Err(_) => "err".to_string(),
    };
    let a2 = match TemplateProgram::new(text) {
        Ok(t) => match t.instantiate(Arguments::from(name_values(args)?), dbg) {
            Ok(c) => enc_commit(&c),
            Err(_) => "err".to_string(),
        },
        Err(_) => "err".to_string(),
    };
    // one template object used several times: first with the other flag, then with this one (nothing may stick to the object)
    let a3 = match TemplateProgram::new(text) {
        Ok(t) => {
            let _ = t.instantiate(Arguments::from(name_values(args)?), !dbg);
            let _ = t.instantiate(Arguments::default(), !dbg);
            match t.instantiate(Arguments::from(name_values(args)?), dbg) {
                Ok(c) => enc_commit(&c),
                Err(_) => "err".to_string(),
            }
        }
        Err(_) => "err".to_string(),
    };
    let a2 = if a2 == a3 { a2 } else { format!("{}/reused:{}", a2, a3) };
    let r1 = match SatisfiedProgram::new(text, Arguments::from(name_values(args)?), WitnessValues::from(name_values(wit)?), dbg) {
        Ok(s) => enc_redeem(&s),
        Err(_) => "err".to_string(),
    };
    let (r2, r3) = match CompiledProgram::new(text, Arguments::from(name_values(args)?), dbg) {
        Ok(c) => (
            match c.satisfy(WitnessValues::from(name_values(wit)?)) {
                Ok(s) => enc_redeem(&s),
                Err(_) => "err".to_string(),
            },
            match c.satisfy_with_env(WitnessValues::from(name_values(wit)?), None) {
                Ok(s) => enc_redeem(&s),
                Err(_) => "err".to_string(),
            },
        ),
        Err(_) => ("err".to_string(), "err".to_string()),
    };
    Ok(format!("(commit {} {}) (redeem {} {} {})", a1, a2, r1, r2, r3))
}

/// C14 (last clause): the value a tracked call reports for a Simplicity input.
///   (mapvalue "<text>" (args..) ((<cmr> <value>)...)) -> (ok (dbg <value>) | (fallible <value>) | (fallible-other) | none | unknown ...)
fn mapvalue_cmd(text: &str, args: &Sexp, queries: &Sexp) -> Result<String, String> {
    use simfony::debug::FallibleCallName as F;
    let template = match TemplateProgram::new(text) {
        Ok(t) => t,
        Err(e) => return Ok(format!("(rej {})", quote(&first_line(&e)))),
    };
    let arguments = Arguments::from(name_values(args)?);
    let compiled = match template.instantiate(arguments, true) {
        Ok(c) => c,
        Err(e) => return Ok(format!("(cerr {})", quote(&first_line(&e)))),
    };
    let mut out = vec![];
    for q in queries.as_list()? {
        let l = q.as_list()?;
        let want = l[0].as_atom()?;
        let value = value_of_sexp(&l[1])?;
        let call = want.parse::<Cmr>().ok().and_then(|cmr| compiled.debug_symbols().get(&cmr));
        let Some(call) = call else {
            out.push(Sexp::atom("unknown"));
            continue;
        };
        let structural = simfony::value::StructuralValue::from(&value);
        out.push(match call.map_value(&structural) {
            None => Sexp::atom("none"),
            Some(Either::Right(dv)) => Sexp::tagged("dbg", vec![value_to_sexp(dv.value())]),
            Some(Either::Left(fc)) => match fc.name() {
                F::UnwrapLeft(v) | F::UnwrapRight(v) => Sexp::tagged("fallible", vec![value_to_sexp(&v)]),
                _ => Sexp::atom("fallible-other"),
            },
        });
    }
    Ok(Sexp::tagged("ok", out).to_string())
}

fn dbgsyms_cmd(text: &str, args: &Sexp) -> Result<String, String> {
    use simplicity::dag::{DagLike, InternalSharing};
    let template = match TemplateProgram::new(text) {
        Ok(t) => t,
        Err(e) => return Ok(format!("(rej {})", quote(&first_line(&e)))),
    };
    let arguments = Arguments::from(name_values(args)?);
    let compiled = match template.instantiate(arguments, true) {
        Ok(c) => c,
        Err(e) => return Ok(format!("(cerr {})", quote(&first_line(&e)))),
    };
    let commit = compiled.commit();
    let fail_zero = Cmr::fail(FailEntropy::ZERO);
    let mut seen: Vec<Cmr> = vec![];
    let mut out = vec![];
    for item in commit.as_ref().post_order_iter::<InternalSharing>() {
        if let Inner::AssertL(_, cmr) = item.node.inner() {
            if *cmr == fail_zero || seen.contains(cmr) {
                continue;
            }
            seen.push(*cmr);
            match compiled.debug_symbols().get(cmr) {
                Some(call) => {
                    use simfony::debug::TrackedCallName as T;
                    let kind = match call.name() {
                        T::Assert => "assert".to_string(),
                        T::Panic => "panic".to_string(),
                        T::Jet => "jet".to_string(),
                        T::UnwrapLeft(t) => format!("unwrap_left:{}", t),
                        T::UnwrapRight(t) => format!("unwrap_right:{}", t),
                        T::Unwrap => "unwrap".to_string(),
                        T::Debug(t) => format!("dbg:{}", t),
                    };
                    out.push(Sexp::list(vec![
                        Sexp::atom(format!("{}", cmr)),
                        Sexp::atom(quote(call.text())),
                        Sexp::atom(quote(&kind)),
                    ]));
                }
                None => out.push(Sexp::list(vec![Sexp::atom(format!("{}", cmr)), Sexp::atom("UNRESOLVED")])),
            }
        }
    }
    Ok(Sexp::tagged("ok", out).to_string())
}

/// tracked-kind calls of main's inlined typed AST, with their spans: (kind sl sc el ec)
fn calls_cmd(text: &str) -> Result<String, String> {
    use simfony::error::Span;
    fn walk(e: &ast::Expression, out: &mut Vec<Sexp>) {
        match e.inner() {
            ast::ExpressionInner::Single(s) => walk_single(s, out),
            ast::ExpressionInner::Block(stmts, last) => {
                for st in stmts.iter() {
                    match st {
                        ast::Statement::Assignment(a) => walk(a.expression(), out),
                        ast::Statement::Expression(x) => walk(x, out),
                    }
                }
                if let Some(x) = last {
                    walk(x, out);
                }
            }
        }
    }
    fn walk_single(s: &ast::SingleExpression, out: &mut Vec<Sexp>) {
        use ast::SingleExpressionInner as S;
        match s.inner() {
            S::Constant(_) | S::Witness(_) | S::Parameter(_) | S::Variable(_) | S::Option(None) => {}
            S::Expression(e) | S::Either(Either::Left(e)) | S::Either(Either::Right(e)) | S::Option(Some(e)) => walk(e, out),
            S::Tuple(es) | S::Array(es) | S::List(es) => es.iter().for_each(|e| walk(e, out)),
            S::Match(m) => {
                walk(m.scrutinee(), out);
                walk(m.left().expression(), out);
                walk(m.right().expression(), out);
            }
            S::Call(c) => {
                use ast::CallName as C;
                let kind = match c.name() {
                    C::Jet(_) => Some("jet"),
                    C::UnwrapLeft(_) => Some("unwrap_left"),
                    C::UnwrapRight(_) => Some("unwrap_right"),
                    C::Unwrap => Some("unwrap"),
                    C::Assert => Some("assert"),
                    C::Panic => Some("panic"),
                    C::Debug => Some("dbg"),
                    _ => None,
                };
                if let Some(k) = kind {
                    let sp: &Span = c.as_ref();
                    out.push(Sexp::list(vec![
                        Sexp::atom(k),
                        Sexp::num(sp.start.line.get()),
                        Sexp::num(sp.start.col.get()),
                        Sexp::num(sp.end.line.get()),
                        Sexp::num(sp.end.col.get()),
                    ]));
                }
                c.args().iter().for_each(|e| walk(e, out));
                match c.name() {
                    C::Custom(f) | C::Fold(f, _) | C::ForWhile(f, _) => walk(f.body(), out),
                    _ => {}
                }
            }
        }
    }
    match analyze_text(text) {
        Err(e) => Ok(format!("(rej {})", quote(&first_line(&e)))),
        Ok(prog) => {
            let mut out = vec![];
            walk(prog.main(), &mut out);
            Ok(Sexp::tagged("ok", out).to_string())
        }
    }
}

pub fn handle(line: &str) -> Result<String, String> {
    let s = parse_sexp(line)?;
    let (tag, a) = s.tag()?;
    match (tag, a.len()) {
        ("commit", 3) => commit_cmd(a[0].as_atom()?, &a[1], a[2].as_usize()? != 0),
        ("params", 1) => params_cmd(a[0].as_atom()?),
        ("dbgsyms", 2) => dbgsyms_cmd(a[0].as_atom()?, &a[1]),
        ("mapvalue", 3) => mapvalue_cmd(a[0].as_atom()?, &a[1], &a[2]),
        ("witnodes", 3) => {
            // C05: the (type, value) of every witness node of the satisfied, unpruned program
            use simplicity::dag::{DagLike, InternalSharing};
            let template = match TemplateProgram::new(a[0].as_atom()?) {
                Ok(t) => t,
                Err(e) => return Ok(format!("(rej {})", quote(&first_line(&e)))),
            };
            let compiled = match template.instantiate(Arguments::from(name_values(&a[1])?), false) {
                Ok(c) => c,
                Err(e) => return Ok(format!("(cerr {})", quote(&first_line(&e)))),
            };
            let sat = match compiled.satisfy(WitnessValues::from(name_values(&a[2])?)) {
                Ok(s) => s,
                Err(e) => return Ok(format!("(sat {})", quote(&first_line(&e)))),
            };
            let mut out = vec![];
            for item in sat.redeem().as_ref().post_order_iter::<InternalSharing>() {
                if let Inner::Witness(v) = item.node.inner() {
                    out.push(Sexp::list(vec![final_to_sexp(&item.node.arrow().target), simvalue_to_sexp(v.as_ref())]));
                }
            }
            Ok(Sexp::tagged("ok", out).to_string())
        }
        ("apipaths", 4) => apipaths_cmd(a[0].as_atom()?, &a[1], &a[2], a[3].as_usize()? != 0),
        ("calls", 1) => calls_cmd(a[0].as_atom()?),
        ("ast", 1) => Ok(ast_cmd(a[0].as_atom()?)),
        ("term", 3) => term_cmd(a[0].as_atom()?, &a[1], a[2].as_usize()? != 0),
        ("run", 4) => run_cmd(a[0].as_atom()?, &a[1], &a[2], a[3].as_usize()? != 0, false),
        ("runp", 4) => run_cmd(a[0].as_atom()?, &a[1], &a[2], a[3].as_usize()? != 0, true),
        ("satpaths", 3) => {
            // C05: every public way of attaching witness values answers alike — (satpaths text args wit) ->
            // (satisfy ok|err|panic) (env-none ..) (env-some ..) (new ..)
            use std::panic::{catch_unwind, AssertUnwindSafe};
            let text = a[0].as_atom()?;
            let template = match TemplateProgram::new(text) {
                Ok(t) => t,
                Err(e) => return Ok(format!("(rej {})", quote(&first_line(&e)))),
            };
            let compiled = match template.instantiate(Arguments::from(name_values(&a[1])?), false) {
                Ok(c) => c,
                Err(e) => return Ok(format!("(cerr {})", quote(&first_line(&e)))),
            };
            let show = |r: std::thread::Result<Result<(), String>>| match r {
                Ok(Ok(())) => "ok".to_string(),
                Ok(Err(e)) => format!("(err {})", quote(&first_line(&e))),
                Err(_) => "panic".to_string(),
            };
            let wv = || -> Result<WitnessValues, String> { Ok(WitnessValues::from(name_values(&a[2])?)) };
            let (w1, w2, w3, w4) = (wv()?, wv()?, wv()?, wv()?);
            let args4 = Arguments::from(name_values(&a[1])?);
            let r1 = show(catch_unwind(AssertUnwindSafe(|| compiled.satisfy(w1).map(|_| ()))));
            let r2 = show(catch_unwind(AssertUnwindSafe(|| compiled.satisfy_with_env(w2, None).map(|_| ()))));
            let env = simfony::dummy_env::dummy();
            let r3 = show(catch_unwind(AssertUnwindSafe(|| compiled.satisfy_with_env(w3, Some(&env)).map(|_| ()))));
            let r4 = show(catch_unwind(AssertUnwindSafe(|| simfony::SatisfiedProgram::new(text, args4, w4, false).map(|_| ()))));
            Ok(format!("(satisfy {}) (env-none {}) (env-some {}) (new {})", r1, r2, r3, r4))
        }
        ("runpe", 5) => {
            // (runpe text args wit dbg (locktime sequence fee) | ((lt seq fee) (lt seq fee) ...)): unpruned and pruned under
            // non-default environments; several environments are applied one after the other to ONE CompiledProgram
            let envs: Vec<&Sexp> = match a[4].as_list()?.first() {
                Some(Sexp::List(_)) => a[4].as_list()?.iter().collect(),
                _ => vec![&a[4]],
            };
            let template = match TemplateProgram::new(a[0].as_atom()?) {
                Ok(t) => t,
                Err(e) => return Ok(format!("(rej {})", quote(&first_line(&e)))),
            };
            let compiled = match template.instantiate(Arguments::from(name_values(&a[1])?), a[3].as_usize()? != 0) {
                Ok(c) => c,
                Err(e) => return Ok(format!("(cerr {})", quote(&first_line(&e)))),
            };
            let mut outs = vec![];
            for e in envs {
                let e = e.as_list()?;
                let mk = || -> Result<_, String> {
                    Ok(simfony::dummy_env::dummy_with(
                        simplicity::elements::LockTime::from_consensus(e[0].as_usize()? as u32),
                        simplicity::elements::Sequence(e[1].as_usize()? as u32),
                        e[2].as_usize()? != 0,
                    ))
                };
                let u = run_program_env(&compiled, WitnessValues::from(name_values(&a[2])?), false, mk()?);
                let p = run_program_env(&compiled, WitnessValues::from(name_values(&a[2])?), true, mk()?);
                outs.push(format!("(unpruned {}) (pruned {})", u, p));
            }
            Ok(outs.join(" ; "))
        }
        _ => Err(format!("bad core case {}", &line[..line.len().min(80)])),
    }
}

#[allow(dead_code)]
fn _unused(_: &TypeInner<Arc<ResolvedType>>) {}
