(* Minimal S-expressions shared with the Rust harness and the Python orchestrator *)
type t = Atom of string | List of t list

exception Parse_error of string

let parse (s : string) : t =
  let n = String.length s in
  let stack : t list ref list ref = ref [ ref [] ] in
  let push x = match !stack with top :: _ -> top := x :: !top | [] -> raise (Parse_error "stack") in
  let i = ref 0 in
  while !i < n do
    (match s.[!i] with
     | ' ' | '\t' | '\n' | '\r' -> incr i
     | '(' -> stack := ref [] :: !stack; incr i
     | ')' ->
       (match !stack with
        | top :: rest when rest <> [] -> stack := rest; push (List (List.rev !top)); incr i
        | _ -> raise (Parse_error "unbalanced )"))
     | '"' ->
       let b = Buffer.create 16 in
       let j = ref (!i + 1) in
       while !j < n && s.[!j] <> '"' do
         if s.[!j] = '\\' && !j + 2 < n then begin
           Buffer.add_char b (Char.chr (int_of_string ("0x" ^ String.sub s (!j + 1) 2)));
           j := !j + 3
         end else begin Buffer.add_char b s.[!j]; incr j end
       done;
       if !j >= n then raise (Parse_error "unterminated string");
       push (Atom (Buffer.contents b)); i := !j + 1
     | _ ->
       let j = ref !i in
       while !j < n && (match s.[!j] with ' ' | '\t' | '\n' | '\r' | '(' | ')' -> false | _ -> true) do incr j done;
       push (Atom (String.sub s !i (!j - !i))); i := !j)
  done;
  match !stack with
  | [ top ] -> (match !top with [ x ] -> x | l -> raise (Parse_error (Printf.sprintf "expected one expression, got %d" (List.length l))))
  | _ -> raise (Parse_error "unbalanced (")

let rec write (b : Buffer.t) (x : t) : unit =
  match x with
  | Atom s -> Buffer.add_string b s
  | List l ->
    Buffer.add_char b '(';
    List.iteri (fun i y -> if i > 0 then Buffer.add_char b ' '; write b y) l;
    Buffer.add_char b ')'

let to_string x = let b = Buffer.create 256 in write b x; Buffer.contents b
let tagged tag l = List (Atom tag :: l)
let tag = function
  | Atom s -> (s, [])
  | List (Atom s :: r) -> (s, r)
  | _ -> raise (Parse_error "no tag")
let atom = function Atom s -> s | x -> raise (Parse_error ("expected atom: " ^ to_string x))
let int_of x = int_of_string (atom x)
