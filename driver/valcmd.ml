(* C15 on the model side *)
open Model
open Sexp
open Conv
type string = Stdlib.String.t
open Litcmd

let handle (line : string) : string =
  let s = parse line in
  match tag s with
  | "vshow", [ v ] -> quote (string_of_bytes (val_print_machine (value_of v)))
  | "vparse", [ t; txt ] ->
    (match vparse_top (ty_of t) (bytes_of_string (atom txt)) with
     | Some (v, []) -> to_string (tagged "ok" [ sexp_of_value v ])
     | Some (_, _) -> "(err trailing)"
     | None -> "(err model)")
  | "tshow", [ t ] -> quote (string_of_bytes (ty_print_machine (ty_of t)))
  | "tparse", [ txt ] ->
    (match tparse_top (bytes_of_string (atom txt)) with
     | Some (t, []) -> to_string (tagged "ok" [ sexp_of_ty t ])
     | Some (_, _) -> "(err trailing)"
     | None -> "(err model)")
  | "modshow", [ m; List l ] ->
    let entries = List.map (function List [ n; v ] -> (bytes_of_string (atom n), value_of v) | _ -> raise (Parse_error "bad entry")) l in
    quote (string_of_bytes (mod_print (bytes_of_string (atom m)) entries))
  | _ -> "ERR bad value case"
