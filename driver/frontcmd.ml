(* C04 / C12 / C14: the front-end model (Front/Analyze.v) run on parse trees dumped by the harness *)
open Model
open Sexp
open Conv
type string = Stdlib.String.t
open Litcmd
open Corecmd

(* names carry a role prefix for the analysis model (its jet / builtin tables are keyed by role); the printer and lexer
   models know spellings only, so for them the same spelling is the same id whatever its role *)
let roles = ref true
let rintern (role : string) (s : string) : n = if !roles then intern (role ^ s) else intern s

let rec aty_of (s : Sexp.t) : aty =
  match tag s with
  | "al", [ n ] -> AAlias (rintern "alias:" (atom n))
  | "bi", [ n ] -> ABuiltin (rintern "builtin:" (atom n))
  | "E", [ a; b ] -> AEither (aty_of a, aty_of b)
  | "O", [ a ] -> AOption (aty_of a)
  | "B", [] -> ABool0
  | "U", [ k ] -> AUInt0 (nat_of_int (int_of k))
  | "T", l -> ATuple0 (List.map aty_of l)
  | "A", [ a; n ] -> AArray0 (aty_of a, nat_of_int (int_of n))
  | "L", [ a; k ] -> AList0 (aty_of a, nat_of_int (int_of k))
  | _ -> raise (Parse_error ("bad aliased type " ^ to_string s))

let mpat_of (s : Sexp.t) : mpat =
  match tag s with
  | "ml", [ x; t ] -> MLeft (intern (atom x), aty_of t)
  | "mr", [ x; t ] -> MRight (intern (atom x), aty_of t)
  | "mn", [] -> MNone
  | "ms", [ x; t ] -> MSome (intern (atom x), aty_of t)
  | "mf", [] -> MFalse
  | "mt", [] -> MTrue
  | _ -> raise (Parse_error "bad match pattern")

let cname_of (s : Sexp.t) : pcallname =
  match tag s with
  | "jet", [ n ] -> PJet (rintern "jet:" (atom n))
  | "ul", [ t ] -> PUnwrapLeft (aty_of t)
  | "ur", [ t ] -> PUnwrapRight (aty_of t)
  | "isnone", [ t ] -> PIsNone (aty_of t)
  | "unwrap", [] -> PUnwrap
  | "assert", [] -> PAssert
  | "panic", [] -> PPanic
  | "dbg", [] -> PDebug
  | "cast", [ t ] -> PCast (aty_of t)
  | "custom", [ f ] -> PCustom (rintern "fn:" (atom f))
  | "fold", [ f; k ] -> PFold (rintern "fn:" (atom f), nat_of_int (int_of k))
  | "forwhile", [ f ] -> PForWhile (rintern "fn:" (atom f))
  | _ -> raise (Parse_error "bad call name")

let rec pexpr_of (s : Sexp.t) : pexpr =
  match tag s with
  | "blk", [ List ss; last ] ->
    let stmt x = match tag x with
      | "let", [ p; t; e ] -> (Some (pat_of p, aty_of t), pexpr_of e)
      | "ex", [ e ] -> (None, pexpr_of e)
      | _ -> raise (Parse_error "bad statement") in
    let l = match tag last with
      | "some", [ e ] -> Some (pexpr_of e)
      | "none", [] -> None
      | _ -> raise (Parse_error "bad block end") in
    PBlock (List.map stmt ss, l)
  | "bool", [ b ] -> PBool (int_of b <> 0)
  | "dec", [ d ] -> PLit (LDec (bytes_of_string (atom d)))
  | "bin", [ d ] -> PLit (LBin (bytes_of_string (atom d)))
  | "hex", [ d ] -> PLit (LHex (bytes_of_string (atom d)))
  | "wit", [ n ] -> PWitness (intern (atom n))
  | "par", [ n ] -> PParam (intern (atom n))
  | "var", [ n ] -> PVar (intern (atom n))
  | "paren", [ e ] -> PParen (pexpr_of e)
  | "tup", l -> PTuple (List.map pexpr_of l)
  | "arr", l -> PArray (List.map pexpr_of l)
  | "lst", l -> PList (List.map pexpr_of l)
  | "left", [ e ] -> PLeft (pexpr_of e)
  | "right", [ e ] -> PRight (pexpr_of e)
  | "none", [] -> PNone
  | "some", [ e ] -> PSome (pexpr_of e)
  | "call", sp :: name :: args -> PCall (n_of_int (int_of sp), cname_of name, List.map pexpr_of args)
  | "match", [ sc; lp; el; rp; er ] -> PMatch (pexpr_of sc, mpat_of lp, pexpr_of el, mpat_of rp, pexpr_of er)
  | _ -> raise (Parse_error ("bad pexpr " ^ String.sub (to_string s) 0 (min 60 (String.length (to_string s)))))

let item_of (s : Sexp.t) : pitem =
  match tag s with
  | "alias", [ n; t ] -> ITypeAlias (rintern "alias:" (atom n), aty_of t)
  | "fn", [ n; List ps; ret; body ] ->
    let name = rintern "fn:" (atom n) in
    let params = List.map (function List [ x; t ] -> (intern (atom x), aty_of t) | _ -> raise (Parse_error "bad param")) ps in
    let r = match tag ret with "some", [ t ] -> Some (aty_of t) | "none", [] -> None | _ -> raise (Parse_error "bad ret") in
    IFunction (name, params, r, pexpr_of body)
  | "module", [] -> IModule
  | _ -> raise (Parse_error "bad item")

(* ---- environment of the model: jets by name, builtin aliases *)
let jet_names : string array Lazy.t = lazy (
  let rows = Model.jet_rows in
  let a = Array.make (List.length rows) "" in
  List.iter (fun (((((idx, name), _), _), _), _) -> a.(int_of_n idx) <- ocaml_string name) rows; a)

let jlook (nm : n) : n option =
  let s = name_of nm in
  if String.length s > 4 && String.sub s 0 4 = "jet:" then begin
    let j = String.sub s 4 (String.length s - 4) in
    if j = "verify" || j = "check_sig_verify" then None
    else begin
      let a = Lazy.force jet_names in
      let r = ref None in
      Array.iteri (fun i x -> if x = j then r := Some (n_of_int i)) a; !r
    end
  end else None

let balias (nm : n) : ty option =
  let s = name_of nm in
  if String.length s > 8 && String.sub s 0 8 = "builtin:" then begin
    let b = String.sub s 8 (String.length s - 8) in
    let r = ref None in
    List.iter (fun (name, t) -> if ocaml_string name = b then r := t) Model.builtin_aliases; !r
  end else None

(* ---- typed AST back to the wire form of harness/src/core.rs *)
let plain (nm : n) : string =
  let s = name_of nm in
  match String.index_opt s ':' with
  | Some i when i < 8 -> String.sub s (i + 1) (String.length s - i - 1)
  | _ -> s

let rec sx_pat (p : pat) : Sexp.t =
  match p with
  | PId x -> tagged "id" [ Atom (plain x) ]
  | PIgn -> Atom "_"
  | PTup l -> tagged "tup" (List.map sx_pat l)
  | PArr l -> tagged "arr" (List.map sx_pat l)

let sx_builtin (b : builtin) : Sexp.t =
  match b with
  | BJet j -> tagged "jet" [ Atom (string_of_int (int_of_n j)); Atom (Lazy.force jet_names).(int_of_n j) ]
  | BUnwrapLeft -> Atom "unwrap_left" | BUnwrapRight -> Atom "unwrap_right" | BUnwrap -> Atom "unwrap"
  | BIsNone -> Atom "is_none" | BAssert -> Atom "assert" | BPanic -> Atom "panic" | BDebug -> Atom "dbg"
  | BCast t -> tagged "cast" [ sexp_of_ty t ]

let arm (x : n option) : Sexp.t = match x with Some i -> tagged "v" [ Atom (plain i) ] | None -> Atom "_"

let rec sx_expr (e : expr) : Sexp.t =
  match e with
  | EBlock (t, ss, last) ->
    let st (p, e') = match p with Some p -> tagged "let" [ sx_pat p; sx_expr e' ] | None -> tagged "ex" [ sx_expr e' ] in
    tagged "block" [ sexp_of_ty t; List (List.map st ss); (match last with Some e' -> tagged "some" [ sx_expr e' ] | None -> Atom "none") ]
  | EConst (t, v) -> tagged "const" [ sexp_of_ty t; sexp_of_value v ]
  | EWitness (t, n) -> tagged "wit" [ sexp_of_ty t; Atom (plain n) ]
  | EParam (t, n) -> tagged "param" [ sexp_of_ty t; Atom (plain n) ]
  | EVar (t, x) -> tagged "var" [ sexp_of_ty t; Atom (plain x) ]
  | EParen e' -> tagged "paren" [ sx_expr e' ]
  | ETuple (t, es) -> tagged "tuple" (sexp_of_ty t :: List.map sx_expr es)
  | EArray (t, es) -> tagged "array" (sexp_of_ty t :: List.map sx_expr es)
  | EList (t, es) -> tagged "list" (sexp_of_ty t :: List.map sx_expr es)
  | ELeft (t, e') -> tagged "left" [ sexp_of_ty t; sx_expr e' ]
  | ERight (t, e') -> tagged "right" [ sexp_of_ty t; sx_expr e' ]
  | ENone t -> tagged "none" [ sexp_of_ty t ]
  | ESome (t, e') -> tagged "some" [ sexp_of_ty t; sx_expr e' ]
  | ECall (t, b, es) -> tagged "call" (sexp_of_ty t :: sx_builtin b :: List.map sx_expr es)
  | EFn (t, k, ps, body, es) ->
    let kind = match k with
      | KCustom -> Atom "custom"
      | KFold kk -> tagged "fold" [ Atom (string_of_int (int_of_nat kk)) ]
      | KFor w -> tagged "for" [ Atom (string_of_int (int_of_nat w)) ] in
    tagged "fn" (sexp_of_ty t :: kind :: List (List.map (fun (n, t) -> List [ Atom (plain n); sexp_of_ty t ]) ps) :: sx_expr body :: List.map sx_expr es)
  | EMatch (t, s, xl, el, xr, er) -> tagged "match" [ sexp_of_ty t; sx_expr s; arm xl; sx_expr el; arm xr; sx_expr er ]

let sorted_types (l : (n * ty) list) : Sexp.t list =
  let l = List.map (fun (n, t) -> (plain n, t)) l in
  let l = List.sort (fun (a, _) (b, _) -> compare a b) l in
  List.map (fun (n, t) -> List [ Atom n; sexp_of_ty t ]) l

let kind_str (k : kind) : string =
  match k with
  | KAssert -> "assert" | KPanic -> "panic" | KJet -> "jet" | KUnwrap -> "unwrap"
  | KUnwrapLeft _ -> "unwrap_left" | KUnwrapRight _ -> "unwrap_right" | KDebug _ -> "dbg"

let handle (line : string) : string =
  let s = parse line in
  match tag s with
  | "manalyze", [ List items ] ->
    let p = List.map item_of items in
    (match analyze_program jlook jet_sig balias (intern "fn:main") p with
     | Ok (((main, params), wits), tracked) ->
       to_string (tagged "ok" [ sx_expr main; tagged "params" (sorted_types params); tagged "witnesses" (sorted_types wits);
                                tagged "tracked" (List.map (fun (sp, k) -> List [ Atom (string_of_int (int_of_n sp)); Atom (kind_str k) ]) tracked) ])
     | Err -> "err"
     | Panic -> "panic")
  | "mparse", [ text; List items ] ->
    (* C16: the character-level reader (Text/ProgLex.v lexer + token parser) on the text, against the dumped tree *)
    roles := false;
    let p = (try List.map item_of items with e -> roles := true; raise e) in
    roles := true;
    let ns (x : n) = bytes_of_string (name_of x) in
    let internb (b : n list) : n = intern (string_of_bytes b) in
    let names = prog_names_ok ns internb p in
    (match parse_text internb (bytes_of_string (atom text)) with
     | Some q -> Printf.sprintf "(parse %s) (names_ok %b)" (if q = erase_program p then "same" else "DIFF") names
     | None -> Printf.sprintf "(parse none) (names_ok %b)" names)
  | "mprint", [ List items ] ->
    (* C16: the model of the Display state machines of parse.rs on the dumped parse tree *)
    let p = List.map item_of items in
    let ns (x : n) = bytes_of_string (plain x) in
    quote (string_of_bytes (print_program_machine ns p))
  | "mwf", [ List items ] ->
    (* C16: the tree satisfies the hypothesis of C16_print_parse_roundtrip; and the theorem's conclusion, evaluated *)
    let p = List.map item_of items in
    let wf = prog_wf p in
    let rt = (match parse_token_list (tokens_program p) with Some q -> q = erase_program p | None -> false) in
    Printf.sprintf "(wf %b) (roundtrip %b)" wf rt
  | _ -> "ERR bad front case"
