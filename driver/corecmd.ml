(* compiler core on the model side: AST reader, structural term hash, (later) execution *)
open Model
open Sexp
type string = Stdlib.String.t
open Conv

(* ---- name interning: identifiers / witness names <-> N *)
let names : (string, int) Hashtbl.t = Hashtbl.create 64
let rev_names : (int, string) Hashtbl.t = Hashtbl.create 64
let intern (s : string) : n =
  match Hashtbl.find_opt names s with
  | Some i -> n_of_int i
  | None ->
    let i = Hashtbl.length names + 1 in
    Hashtbl.add names s i; Hashtbl.add rev_names i s; n_of_int i
let name_of (x : n) : string = try Hashtbl.find rev_names (int_of_n x) with Not_found -> "?"

let rec pat_of (s : Sexp.t) : pat =
  match tag s with
  | "id", [ x ] -> PId (intern (atom x))
  | "_", [] -> PIgn
  | "tup", l -> PTup (List.map pat_of l)
  | "arr", l -> PArr (List.map pat_of l)
  | _ -> raise (Parse_error ("bad pattern " ^ to_string s))

let arm_of (s : Sexp.t) : n option =
  match tag s with
  | "v", [ x ] -> Some (intern (atom x))
  | "_", [] -> None
  | _ -> raise (Parse_error "bad arm")

let builtin_of (s : Sexp.t) : builtin =
  match tag s with
  | "jet", [ i; _ ] -> BJet (n_of_int (int_of i))
  | "unwrap_left", [] -> BUnwrapLeft
  | "unwrap_right", [] -> BUnwrapRight
  | "unwrap", [] -> BUnwrap
  | "is_none", [] -> BIsNone
  | "assert", [] -> BAssert
  | "panic", [] -> BPanic
  | "dbg", [] -> BDebug
  | "cast", [ t ] -> BCast (ty_of t)
  | _ -> raise (Parse_error ("bad builtin " ^ to_string s))

let rec expr_of (s : Sexp.t) : expr =
  match tag s with
  | "block", [ t; List ss; last ] ->
    let stmt x = match tag x with
      | "let", [ p; e ] -> (Some (pat_of p), expr_of e)
      | "ex", [ e ] -> (None, expr_of e)
      | _ -> raise (Parse_error "bad statement") in
    let l = match tag last with
      | "some", [ e ] -> Some (expr_of e)
      | "none", [] -> None
      | _ -> raise (Parse_error "bad block end") in
    EBlock (ty_of t, List.map stmt ss, l)
  | "const", [ t; v ] -> EConst (ty_of t, value_of v)
  | "wit", [ t; n ] -> EWitness (ty_of t, intern (atom n))
  | "param", [ t; n ] -> EParam (ty_of t, intern (atom n))
  | "var", [ t; n ] -> EVar (ty_of t, intern (atom n))
  | "paren", [ e ] -> EParen (expr_of e)
  | "tuple", t :: es -> ETuple (ty_of t, List.map expr_of es)
  | "array", t :: es -> EArray (ty_of t, List.map expr_of es)
  | "list", t :: es -> EList (ty_of t, List.map expr_of es)
  | "left", [ t; e ] -> ELeft (ty_of t, expr_of e)
  | "right", [ t; e ] -> ERight (ty_of t, expr_of e)
  | "none", [ t ] -> ENone (ty_of t)
  | "some", [ t; e ] -> ESome (ty_of t, expr_of e)
  | "call", t :: b :: es -> ECall (ty_of t, builtin_of b, List.map expr_of es)
  | "fn", t :: k :: List ps :: body :: es ->
    let kind = match tag k with
      | "custom", [] -> KCustom
      | "fold", [ k ] -> KFold (nat_of_int (int_of k))
      | "for", [ w ] -> KFor (nat_of_int (int_of w))
      | _ -> raise (Parse_error "bad fn kind") in
    let param p = match p with
      | List [ n; t ] -> (intern (atom n), ty_of t)
      | _ -> raise (Parse_error "bad param") in
    EFn (ty_of t, kind, List.map param ps, expr_of body, List.map expr_of es)
  | "match", [ t; s; xl; el; xr; er ] -> EMatch (ty_of t, expr_of s, arm_of xl, expr_of el, arm_of xr, expr_of er)
  | "tymismatch", _ -> raise (Parse_error ("implementation AST has inconsistent types: " ^ to_string s))
  | _ -> raise (Parse_error ("bad expr " ^ String.sub (to_string s) 0 (min 80 (String.length (to_string s)))))

let bindings_of (s : Sexp.t) : (n * value) list =
  match s with
  | List l -> List.map (function List [ n; v ] -> (intern (atom n), value_of v) | _ -> raise (Parse_error "bad binding")) l
  | _ -> raise (Parse_error "bad bindings")

let lookup_fn (l : (n * 'a) list) : n -> 'a option =
  let tbl = Hashtbl.create 16 in
  List.iter (fun (k, v) -> Hashtbl.replace tbl (int_of_n k) v) l;
  fun k -> Hashtbl.find_opt tbl (int_of_n k)

(* ---- structural hash, identical to harness/src/core.rs *)
let mix (h : int64) (x : int64) : int64 =
  let open Int64 in
  let z = mul (logxor h x) 0x9E3779B97F4A7C15L in
  let z = logxor z (shift_right_logical z 29) in
  let z = mul z 0xBF58476D1CE4E5B9L in
  logxor z (shift_right_logical z 32)

let s1 = 0x0123456789abcdefL
let s2 = 0x0fedcba987654321L

let hash_name (s : string) : int64 =
  let h = ref 0xcbf29ce484222325L in
  String.iter (fun c -> h := mix !h (Int64.of_int (Char.code c))) s; !h

type h = { a : int64; b : int64; n : int }

let hnode (tag : int) (payload : int64) (kids : h list) : h =
  let a = ref (mix (mix s1 (Int64.of_int tag)) payload) in
  let b = ref (mix (mix s2 (Int64.of_int (tag + 77))) payload) in
  let n = ref 1 in
  List.iter (fun k -> a := mix !a k.a; b := mix !b k.b; n := !n + k.n) kids;
  { a = !a; b = !b; n = !n }

let rec term_hash (t : term) : h =
  match t with
  | Iden -> hnode 1 0L []
  | Unit -> hnode 2 0L []
  | InjL s -> hnode 3 0L [ term_hash s ]
  | InjR s -> hnode 4 0L [ term_hash s ]
  | Take s -> hnode 5 0L [ term_hash s ]
  | Drop s -> hnode 6 0L [ term_hash s ]
  | Comp (s, u) -> hnode 7 0L [ term_hash s; term_hash u ]
  | Case (s, u) -> hnode 8 0L [ term_hash s; term_hash u ]
  | AssertL (s, c) -> hnode 9 (Int64.of_int (int_of_n c)) [ term_hash s ]
  | AssertR (c, s) -> hnode 10 (Int64.of_int (int_of_n c)) [ term_hash s ]
  | Pair (s, u) -> hnode 11 0L [ term_hash s; term_hash u ]
  | Fail -> hnode 12 0L []
  | Wit n -> hnode 13 (hash_name (name_of n)) []
  | Jet j -> hnode 14 (Int64.of_int (int_of_n j)) []

let hash_str (x : h) : string = Printf.sprintf "%016Lx%016Lx" x.a x.b

let res_str f = function Ok x -> f x | Err -> "(cerr model)" | Panic -> "(panic model)"

let handle (line : string) : string =
  let s = parse line in
  match tag s with
  | "mterm", [ ast; args; dbg ] ->
    let e = expr_of ast in
    let a = lookup_fn (bindings_of args) in
    res_str (fun t -> let x = term_hash t in Printf.sprintf "(ok %s %d)" (hash_str x) x.n)
      (compile_program (int_of dbg <> 0) a e)
  | _ -> "ERR bad core case"

(* ---- execution on the model: source semantics and evaluation of the compiled term *)
let ocaml_string (s : Model.string) : string =
  let b = Buffer.create 16 in
  let rec go = function
    | EmptyString -> ()
    | String (Ascii (b0, b1, b2, b3, b4, b5, b6, b7), r) ->
      let bit x i = if x then 1 lsl i else 0 in
      Buffer.add_char b (Char.chr (bit b0 0 + bit b1 1 + bit b2 2 + bit b3 3 + bit b4 4 + bit b5 5 + bit b6 6 + bit b7 7));
      go r in
  go s; Buffer.contents b

let jets : (sval -> sval option option) option array Lazy.t = lazy (
  let rows = Model.jet_rows in
  let n = List.length rows in
  let a = Array.make n None in
  List.iter (fun (((((idx, name), _), _), _), _) -> a.(int_of_n idx) <- Model.jet_by_name name) rows;
  a)

exception Unknown_jet of int

(* observation hook: the left argument of the last eq_* jet call (used to pin computed values) *)
let eq_jets : bool array Lazy.t = lazy (
  let rows = Model.jet_rows in
  let a = Array.make (List.length rows) false in
  List.iter (fun (((((idx, name), _), _), _), _) ->
      let s = ocaml_string name in
      a.(int_of_n idx) <- String.length s > 3 && String.sub s 0 3 = "eq_") rows;
  a)
let last_eq : sval option ref = ref None
let armed : bool ref = ref false   (* set when witness::EXPECT has just been read *)
let rec leaf_bits (v : sval) (acc : bool list) : bool list =
  match v with
  | VP (a, b) -> leaf_bits a (leaf_bits b acc)
  | VL VU -> false :: acc
  | VR VU -> true :: acc
  | _ -> acc
let hex_of_bits (l : bool list) : string =
  let len = List.length l in
  let pad = (4 - len mod 4) mod 4 in
  let l = List.init pad (fun _ -> false) @ l in
  let b = Buffer.create 16 in
  let rec go = function
    | a :: b1 :: c :: d :: r ->
      let v = (if a then 8 else 0) + (if b1 then 4 else 0) + (if c then 2 else 0) + (if d then 1 else 0) in
      Buffer.add_char b "0123456789abcdef".[v]; go r
    | _ -> () in
  go l; Buffer.contents b

let jet_oracle (j : n) (a : sval) : sval option =
  let i = int_of_n j in
  if !armed && (Lazy.force eq_jets).(i) then (armed := false; match a with VP (x, _) -> last_eq := Some x | _ -> ());
  match (Lazy.force jets).(i) with
  | Some f -> (match f a with Some r -> r | None -> None)
  | None -> raise (Unknown_jet i)

let out_str = function Val VU -> "ok" | Val _ -> "value" | Failed -> "failed" | Stuck -> "stuck"

let handle (line : string) : string =
  let s = parse line in
  match tag s with
  | "mrun", [ ast; args; wits; dbg ] ->
    let e = expr_of ast in
    let a = lookup_fn (bindings_of args) in
    let w0 = lookup_fn (bindings_of wits) in
    let w n = (if name_of n = "EXPECT" then armed := true);
      match w0 n with Some v -> Some (structural v) | None -> None in
    (try
       last_eq := None; armed := false;
       let s = sem_program jet_oracle w a e in
       let obs = match !last_eq with Some v -> hex_of_bits (leaf_bits v []) | None -> "none" in
       let ev = match compile_program (int_of dbg <> 0) a e with
         | Ok t -> out_str (eval jet_oracle w t VU)
         | Err -> "cerr" | Panic -> "panic" in
       Printf.sprintf "(sem %s) (eval %s) (lasteq %s)" (out_str s) ev obs
     with Unknown_jet i -> Printf.sprintf "(unknown-jet %d)" i)
  | "mwt", [ ast; args; wtys ] ->
    let e = expr_of ast in
    let a = lookup_fn (bindings_of args) in
    let wl = match wtys with
      | List l -> List.map (function List [ n; t ] -> (intern (atom n), ty_of t) | _ -> raise (Parse_error "bad witness type")) l
      | _ -> raise (Parse_error "bad witness types") in
    let w = lookup_fn wl in
    if wt_program jet_sig w a e then "true" else "false"
  | "mjet", [ idx; argv ] ->
    let j = n_of_int (int_of idx) in
    (match jet_sig j with
     | None -> "nosig"
     | Some (_, ret) ->
       (try
          (match jet_oracle j (structural (value_of argv)) with
           | None -> "fail"
           | Some sv -> (match reconstruct ret sv with
               | Some v -> to_string (tagged "some" [ sexp_of_value v ])
               | None -> "badresult"))
        with Unknown_jet _ -> "unknown"))
  | "mwcons", [ vals; decl ] ->
    let dl = match decl with
      | List l -> List.map (function List [ n; t ] -> (intern (atom n), ty_of t) | _ -> raise (Parse_error "bad decl")) l
      | _ -> raise (Parse_error "bad decl") in
    if wit_consistent (bindings_of vals) (lookup_fn dl) then "true" else "false"
  | "macons", [ vals; params ] ->
    let pl = match params with
      | List l -> List.map (function List [ n; t ] -> (intern (atom n), ty_of t) | _ -> raise (Parse_error "bad params")) l
      | _ -> raise (Parse_error "bad params") in
    if args_consistent (lookup_fn (bindings_of vals)) pl then "true" else "false"
  | "knownjets", [] ->
    let a = Lazy.force jets in
    let l = ref [] in
    Array.iteri (fun i x -> if x <> None then l := string_of_int i :: !l) a;
    "(" ^ String.concat " " (List.rev !l) ^ ")"
  | _ -> handle line
