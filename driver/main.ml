(* svd — the model side of the correspondence checks: runs the definitions extracted from Coq.
   Usage: svd <command>; one case per stdin line, one answer line per case. *)
open Model
open Sexp
open Conv
type string = Stdlib.String.t

let layout (line : string) : string =
  let s = parse line in
  match tag s with
  | "sty", [ t ] -> to_string (sexp_of_sty (struct_ty (ty_of t)))
  | "sval", [ v ] ->
    let v = value_of v in
    to_string (List [ sexp_of_sval (structural v); sexp_of_sty (struct_ty (type_of v)) ])
  | "recon", [ t; _sty; sv ] ->
    (match reconstruct (ty_of t) (sval_of sv) with
     | Some v -> to_string (tagged "some" [ sexp_of_value v ])
     | None -> "none")
  | "roundtrip", [ v ] ->
    let v = value_of v in
    (match reconstruct (type_of v) (structural v) with
     | Some v -> to_string (tagged "some" [ sexp_of_value v ])
     | None -> "none")
  | "prune", [ v; t ] ->
    (* C05: the supplied value (structural form) shrunk to a witness node's type: the literal model of named.rs prune_value
       (stack machine, bits, byte padding, decoder) — and it must equal the structural description (C05_prune_value_is_prune) *)
    let sv = structural (value_of v) in
    let ty = sty_of t in
    let a = prune_value_bytes sv ty and b = prune sv ty in
    let sh = shrinks ty (struct_ty (type_of (value_of v))) in
    (match a, b with
     | Some x, Some y when x = y -> Printf.sprintf "(some %s) (shrinks %b)" (to_string (sexp_of_sval x)) sh
     | None, None -> Printf.sprintf "none (shrinks %b)" sh
     | _ -> "MODEL-DISAGREES")
  | "wf", [ v ] -> if value_wf (value_of v) then "true" else "false"
  | "cast", [ a; b ] -> if cast_ok (ty_of a) (ty_of b) then "true" else "false"
  | _ -> "ERR bad layout case"

let () =
  let handler =
    match Sys.argv with
    | [| _; "layout" |] -> layout
    | [| _; "core" |] -> Corecmd.handle
    | [| _; "literal" |] -> Litcmd.handle
    | [| _; "span" |] -> Spancmd.handle
    | [| _; "value" |] -> Valcmd.handle
    | [| _; "peg" |] -> Pegcmd.handle
    | [| _; "front" |] -> Frontcmd.handle
    | _ -> prerr_endline "usage: svd <command>"; exit 2 in
  (try
     while true do
       let line = input_line stdin in
       if String.trim line <> "" then begin
         let r = try handler line with
           | Parse_error m -> "ERR " ^ m
           | Stack_overflow -> "ERR stack overflow"
           | e -> "ERR " ^ Printexc.to_string e in
         print_string r; print_char '\n'; flush stdout
       end
     done
   with End_of_file -> ());
  flush stdout
