(* C17 / C06 / C16: the PEG model run on the regenerated grammar *)
open Model
open Sexp
open Conv
type string = Stdlib.String.t
open Litcmd

let coq_string (s : string) : Model.string =
  let rec go i = if i >= String.length s then EmptyString else
      let c = Char.code s.[i] in
      let b k = c land (1 lsl k) <> 0 in
      String (Ascii (b 0, b 1, b 2, b 3, b 4, b 5, b 6, b 7), go (i + 1)) in
  go 0

let rec tree_sx (t : ptree) : Sexp.t =
  match t with
  | PNode (r, s, e, cs) ->
    List (Atom (Corecmd.ocaml_string r) :: Atom (string_of_int (int_of_nat s)) :: Atom (string_of_int (int_of_nat e)) :: List.map tree_sx cs)

let handle (line : string) : string =
  let s = parse line in
  match tag s with
  | "peg", [ rule; input ] ->
    let inp = bytes_of_string (atom input) in
    let fuel = nat_of_int (200 + 12 * String.length (atom input)) in
    (match Model.parse grammar fuel (coq_string (atom rule)) inp with
     | Fail0 -> "fail"
     | OutOfFuel -> "outoffuel"
     | Succ (e, ts) -> to_string (List (Atom "ok" :: Atom (string_of_int (int_of_nat e)) :: List.map tree_sx ts)))
  | _ -> "ERR bad peg case"
