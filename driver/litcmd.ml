(* C11 on the model side *)
open Model
open Sexp
open Conv
type string = Stdlib.String.t

let bytes_of_string (s : string) : n list = List.init (String.length s) (fun i -> n_of_int (Char.code s.[i]))
let string_of_bytes (l : n list) : string = String.concat "" (List.map (fun b -> String.make 1 (Char.chr (int_of_n b))) l)

let res_n = function Ok v -> "ok " ^ hex_of_n v | Err -> "err" | Panic -> "PANIC model"

let quote (s : string) : string =
  let b = Buffer.create 16 in
  Buffer.add_char b '"';
  String.iter (fun c ->
      let ok = (c >= 'a' && c <= 'z') || (c >= 'A' && c <= 'Z') || (c >= '0' && c <= '9') || String.contains "_-+*/.,:;<>=!?[]{}#@&|^~ " c in
      if ok then Buffer.add_char b c else Buffer.add_string b (Printf.sprintf "\\%02x" (Char.code c))) s;
  Buffer.add_char b '"'; Buffer.contents b

(* big-endian bytes of a number, fixed length *)
let bytes_of_hex (h : string) (len : int) : n list =
  let h = String.make (max 0 (2 * len - String.length h)) '0' ^ h in
  List.init len (fun i -> n_of_int (int_of_string ("0x" ^ String.sub h (2 * i) 2)))
let hex_of_bytes (l : n list) : string =
  let s = String.concat "" (List.map (fun b -> Printf.sprintf "%02x" (int_of_n b)) l) in
  let i = ref 0 in
  while !i < String.length s - 1 && s.[!i] = '0' do incr i done;
  String.sub s !i (String.length s - !i)

let handle (line : string) : string =
  let s = parse line in
  match tag s with
  | "dec", [ k; str ] -> res_n (parse_decimal (nat_of_int (int_of k)) (bytes_of_string (atom str)))
  | "bin", [ k; str ] -> res_n (parse_binary (nat_of_int (int_of k)) (bytes_of_string (atom str)))
  | "hexu", [ k; str ] -> res_n (parse_hex_uint (nat_of_int (int_of k)) (bytes_of_string (atom str)))
  | "hexb", [ n; str ] ->
    (match parse_hex_bytes (nat_of_int (int_of n)) (bytes_of_string (atom str)) with
     | Ok bs -> "ok -" ^ String.concat "" (List.map (fun b -> Printf.sprintf "%02x" (int_of_n b)) bs)
     | Err -> "err" | Panic -> "PANIC model")
  | "disp", [ k; h ] -> quote (string_of_bytes (uint_display (nat_of_int (int_of k)) (n_of_hex (atom h))))
  | "u256", [ str ] ->
    (match u256_from_str (bytes_of_string (atom str)) with
     | Ok bs -> "ok " ^ hex_of_bytes bs | Err -> "err" | Panic -> "PANIC model")
  | "u256disp", [ h ] -> quote (string_of_bytes (u256_display (bytes_of_hex (atom h) 32)))
  | _ -> "ERR bad literal case"
