(* C20 / C14(b) on the model side *)
open Model
open Sexp
open Conv
type string = Stdlib.String.t
open Litcmd

let mkspan_of (a : Sexp.t list) : span res =
  match a with
  | [ sl; sc; el; ec ] ->
    (match position_new (nat_of_int (int_of sl)) (nat_of_int (int_of sc)), position_new (nat_of_int (int_of el)) (nat_of_int (int_of ec)) with
     | Ok s, Ok e -> span_new s e
     | Panic, _ | _, Panic -> Panic
     | _, _ -> Err)
  | _ -> Err

let pos_str (p : position) = Printf.sprintf "%d %d" (int_of_nat p.line) (int_of_nat p.col)

let handle (line : string) : string =
  let s = parse line in
  match tag s with
  | "render", [ file; sl; sc; el; ec; msg ] ->
    (match mkspan_of [ sl; sc; el; ec ] with
     | Ok sp ->
       (match render (bytes_of_string (atom file)) sp (bytes_of_string ("Grammar error: " ^ atom msg)) with
        | Ok out -> quote (string_of_bytes out)
        | Err -> "err" | Panic -> "PANIC model")
     | Err -> "err" | Panic -> "PANIC model")
  | "slice", [ file; sl; sc; el; ec ] ->
    (match mkspan_of [ sl; sc; el; ec ] with
     | Ok sp ->
       (match to_slice (bytes_of_string (atom file)) sp with
        | Ok out -> "(some " ^ quote (string_of_bytes out) ^ ")"
        | Err -> "none" | Panic -> "PANIC model")
     | Err -> "err" | Panic -> "PANIC model")
  | "offsets", [ file; s0; e0 ] ->
    (* span of a pair covering bytes [s,e) *)
    (match span_of_offsets (bytes_of_string (atom file)) (nat_of_int (int_of s0)) (nat_of_int (int_of e0)) with
     | Ok sp -> Printf.sprintf "(%s %s)" (pos_str sp.sp_start) (pos_str sp.sp_end)
     | Err -> "err" | Panic -> "PANIC model")
  | "lines", [ file ] ->
    "(" ^ String.concat " " (List.map (fun l -> quote (string_of_bytes l)) (lines (bytes_of_string (atom file)))) ^ ")"
  | "tracked", [ file; s0; e0 ] ->
    (match span_of_offsets (bytes_of_string (atom file)) (nat_of_int (int_of s0)) (nat_of_int (int_of e0)) with
     | Ok sp -> (match tracked_text (bytes_of_string (atom file)) sp with
         | Ok t -> quote (string_of_bytes t) | Err -> "err" | Panic -> "PANIC model")
     | Err -> "err" | Panic -> "PANIC model")
  | "trackedlc", [ file; sl; sc; el; ec ] ->
    (match mkspan_of [ sl; sc; el; ec ] with
     | Ok sp -> (match tracked_text (bytes_of_string (atom file)) sp with
         | Ok t -> quote (string_of_bytes t) | Err -> "err" | Panic -> "PANIC model")
     | Err -> "err" | Panic -> "PANIC model")
  | _ -> "ERR bad span case"
