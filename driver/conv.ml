(* Conversions between wire S-expressions and the extracted Coq datatypes *)
open Model
open Sexp
type string = Stdlib.String.t

let rec nat_of_int (n : int) : nat = let rec go acc n = if n <= 0 then acc else go (S acc) (n - 1) in go O n
let rec int_of_nat (n : nat) : int = let rec go acc = function O -> acc | S m -> go (acc + 1) m in go 0 n

(* N <-> hexadecimal strings (arbitrary size) *)
let n_of_hex (s : string) : n =
  (* most significant digit first; build positive by doubling *)
  let acc = ref N0 in
  let dbl b = (match !acc with
      | N0 -> if b then acc := Npos XH
      | Npos p -> acc := Npos (if b then XI p else XO p)) in
  String.iter (fun c ->
      let d = match c with
        | '0' .. '9' -> Char.code c - 48
        | 'a' .. 'f' -> Char.code c - 87
        | 'A' .. 'F' -> Char.code c - 55
        | _ -> raise (Parse_error ("bad hex " ^ s)) in
      dbl (d land 8 <> 0); dbl (d land 4 <> 0); dbl (d land 2 <> 0); dbl (d land 1 <> 0)) s;
  !acc

let hex_of_n (x : n) : string =
  match x with
  | N0 -> "0"
  | Npos p ->
    (* bits least significant first *)
    let rec bits p acc = match p with XH -> true :: acc | XO q -> bits q (false :: acc) | XI q -> bits q (true :: acc) in
    (* bits p [] gives most-significant-first list *)
    let l = bits p [] in
    let len = List.length l in
    let pad = (4 - len mod 4) mod 4 in
    let l = List.init pad (fun _ -> false) @ l in
    let b = Buffer.create 16 in
    let rec go = function
      | a :: b1 :: c :: d :: r ->
        let v = (if a then 8 else 0) + (if b1 then 4 else 0) + (if c then 2 else 0) + (if d then 1 else 0) in
        Buffer.add_char b "0123456789abcdef".[v]; go r
      | [] -> ()
      | _ -> assert false in
    go l; Buffer.contents b

let n_of_int (i : int) : n = n_of_hex (Printf.sprintf "%x" i)
let int_of_n (x : n) : int = int_of_string ("0x" ^ hex_of_n x)

let rec ty_of (s : Sexp.t) : ty =
  match tag s with
  | "E", [ a; b ] -> TEither (ty_of a, ty_of b)
  | "O", [ a ] -> TOption (ty_of a)
  | "B", [] -> TBool
  | "U", [ k ] -> TUInt (nat_of_int (int_of k))
  | "T", l -> TTuple (List.map ty_of l)
  | "A", [ a; n ] -> TArray (ty_of a, nat_of_int (int_of n))
  | "L", [ a; k ] -> TList (ty_of a, nat_of_int (int_of k))
  | _ -> raise (Parse_error ("bad type " ^ to_string s))

let rec sexp_of_ty (t : ty) : Sexp.t =
  match t with
  | TEither (a, b) -> tagged "E" [ sexp_of_ty a; sexp_of_ty b ]
  | TOption a -> tagged "O" [ sexp_of_ty a ]
  | TBool -> Atom "B"
  | TUInt k -> tagged "U" [ Atom (string_of_int (int_of_nat k)) ]
  | TTuple l -> tagged "T" (List.map sexp_of_ty l)
  | TArray (a, n) -> tagged "A" [ sexp_of_ty a; Atom (string_of_int (int_of_nat n)) ]
  | TList (a, k) -> tagged "L" [ sexp_of_ty a; Atom (string_of_int (int_of_nat k)) ]

let rec value_of (s : Sexp.t) : value =
  match tag s with
  | "l", [ v; t ] -> ALeft (value_of v, ty_of t)
  | "r", [ t; v ] -> ARight (ty_of t, value_of v)
  | "n", [ t ] -> ANone (ty_of t)
  | "s", [ v ] -> ASome (value_of v)
  | "b", [ b ] -> ABool (int_of b <> 0)
  | "u", [ k; n ] -> AUInt (nat_of_int (int_of k), n_of_hex (atom n))
  | "t", l -> ATuple (List.map value_of l)
  | "a", t :: l -> AArray (List.map value_of l, ty_of t)
  | "li", t :: k :: l -> AList (List.map value_of l, ty_of t, nat_of_int (int_of k))
  | _ -> raise (Parse_error ("bad value " ^ to_string s))

let rec sexp_of_value (v : value) : Sexp.t =
  match v with
  | ALeft (v, t) -> tagged "l" [ sexp_of_value v; sexp_of_ty t ]
  | ARight (t, v) -> tagged "r" [ sexp_of_ty t; sexp_of_value v ]
  | ANone t -> tagged "n" [ sexp_of_ty t ]
  | ASome v -> tagged "s" [ sexp_of_value v ]
  | ABool b -> tagged "b" [ Atom (if b then "1" else "0") ]
  | AUInt (k, n) -> tagged "u" [ Atom (string_of_int (int_of_nat k)); Atom (hex_of_n n) ]
  | ATuple l -> tagged "t" (List.map sexp_of_value l)
  | AArray (l, t) -> tagged "a" (sexp_of_ty t :: List.map sexp_of_value l)
  | AList (l, t, k) -> tagged "li" (sexp_of_ty t :: Atom (string_of_int (int_of_nat k)) :: List.map sexp_of_value l)

let rec sexp_of_sty (t : sty) : Sexp.t =
  match t with
  | SUnit -> Atom "1"
  | SSum (a, b) -> tagged "+" [ sexp_of_sty a; sexp_of_sty b ]
  | SProd (a, b) -> tagged "*" [ sexp_of_sty a; sexp_of_sty b ]

let rec sexp_of_sval (v : sval) : Sexp.t =
  match v with
  | VU -> Atom "u"
  | VL x -> tagged "L" [ sexp_of_sval x ]
  | VR x -> tagged "R" [ sexp_of_sval x ]
  | VP (a, b) -> tagged "P" [ sexp_of_sval a; sexp_of_sval b ]

let rec sty_of (s : Sexp.t) : sty =
  match s with
  | Atom "1" -> SUnit
  | _ -> (match tag s with
      | "+", [ a; b ] -> SSum (sty_of a, sty_of b)
      | "*", [ a; b ] -> SProd (sty_of a, sty_of b)
      | _ -> raise (Parse_error "bad sty"))

let rec sval_of (s : Sexp.t) : sval =
  match tag s with
  | "u", [] -> VU
  | "L", [ x ] -> VL (sval_of x)
  | "R", [ x ] -> VR (sval_of x)
  | "P", [ a; b ] -> VP (sval_of a, sval_of b)
  | _ -> raise (Parse_error ("bad sval " ^ to_string s))
